"""C11 - Elastic-constant representations are one tensor; rotation is a tensor rotation."""
import itertools

import numpy as np
from hypothesis import strategies as st

from ..core import Clause, Violation, HarnessError, require
from .. import gens
from .. import gens_c11 as g
from ..oracles import elastic as el

RULE = ("tensors: generic SPD 6x6 (Q diag(lam) Q^T, lam in [1,500], Q from 15 plane rotations), admissible constant sets "
        "of the seven crystal systems in standard setting (drawn constants shrunk toward isotropy along a fixed ladder "
        "until eig_min >= 2e-3 eig_max; optional C16/C15 zero in about half), isotropic (E in [1,600], 0 <= nu <= 0.495 "
        "incl. exactly 0 and 1e-12..1e-3), and the same expressed in rotated axes; rotations = small-integer axis + angle "
        "in [0,180] deg, symmetry elements, non-unit axes rows, list or array arguments; symmetric strains |e| <= 0.05. "
        "Non-trivial: reps - all 36 Voigt entries non-zero (generic SPD / rotated / triclinic); named - the tensor is "
        "anisotropic (changes by > 1e-3 max|C| under a fixed generic rotation); isotropic - nu > 0; rotate - first "
        "rotation has angle > 5 deg and changes the tensor by > 1e-3 max|C| (not a symmetry element); normalize - "
        "normalisation changes the tensor by > 1e-3 max|C|")
ASSUMPTIONS = ["numpy linear algebra (inv, eigvalsh, einsum) is correct",
               "Voigt pair order 11,22,33,23,13,12 and the 9x9 order 11,22,33,23,13,12,32,31,21 (atomman convention; any "
               "order of the symmetric pairs gives the same stress-strain law, which is checked separately)",
               "standard crystal settings of Nye's table (principal axis along z, monoclinic unique axis y, trigonal 2-fold "
               "along x) as listed in the ElasticConstants docstrings",
               "scalar constants may be Python floats or numpy.float64 (atomman itself passes numpy.float64 in normalized_as)",
               "Cij/transform zero entries below 1e-9/1e-8 of the maximum (documented floors): no comparison is tighter "
               "than 1e-8 max|C|, and compliance-derived numbers get the floor amplified by cond when an entry lies in "
               "the floor band"]
LEVEL_TEXT = ("Generated-input exploration of ElasticConstants over generic SPD tensors, all seven crystal systems in every "
              "documented keyword form, all 15 isotropic modulus pairs, proper rotations (generic, symmetry elements, "
              "non-unit axes) and symmetric strains, against independent Voigt/tensor algebra.")
TECHNIQUE = ("independent Voigt/9x9/4-index maps and compliance weights, stress-strain law through every representation, "
             "own tensor rotation + Bond matrix, group-action laws, strain-energy and VRH invariance, placement tables "
             "and symmetry generators per crystal system, forward isotropic formulas for all 15 pairs")
WALL = {'quick': 70, 'thorough': 600}

EPS = el.EPS
REPS = ('Cij', 'Sij', 'Cij9', 'Cijkl', 'Sijkl')
GENERIC_R = el.rotation_matrix((2, -3, 5), 67.3)


def _key(what):
    return 'C11:' + what


def _arg(x, aslist):
    """fresh copy (the Cij setter zeroes small entries of the caller's array in place), list or ndarray"""
    x = np.array(x, dtype=float)
    return x.tolist() if aslist else x


def _floor_hit(C, rel):
    a = np.abs(np.asarray(C, dtype=float))
    return bool(np.any((a > 0) & (a < rel * a.max())))


def _get(ec, name, shape):
    v = getattr(ec, name)
    require(isinstance(v, np.ndarray) and v.shape == shape and bool(np.all(np.isfinite(v))),
            lambda: '%s is not a finite %r array: %r' % (name, shape, v))
    return v


def _close(got, exp, tol, what):
    err = float(np.abs(np.asarray(got, dtype=float) - np.asarray(exp, dtype=float)).max())
    require(err <= tol, lambda: '%s: differs by %.3g (tol %.3g)\nexpected\n%r\ngot\n%r' % (what, err, tol, np.asarray(exp), np.asarray(got)))


KEY_THR = _key('transform:entry-at-zeroing-threshold')


def _at_threshold(C, tol=1e-8, width=1e-5):
    """some entry of the (expected) result lies within rounding of transform's relative zeroing threshold"""
    a = np.abs(np.asarray(C, dtype=float))
    a = a / a.max()
    return bool(np.any(np.abs(a - tol) <= width * tol))


def _transform(ec, axes, expected, what):
    """ec.transform(axes); the empty AssertionError of the Cijkl setter is the listed finding when an entry of the
    expected result sits on the zeroing threshold (symmetry-equivalent entries are zeroed independently)"""
    try:
        return ec.transform(axes)
    except AssertionError as e:
        if str(e) == '' and _at_threshold(expected):
            raise Violation('%s raised AssertionError() from the Cijkl setter: an entry of the rotated tensor equals '
                            'tol*max within rounding, so only some of its symmetry-equivalent copies are zeroed' % what,
                            key=KEY_THR)
        raise


def mine_of(C6):
    S6 = el.compliance_voigt(C6)
    return {'Cij': C6, 'Sij': S6, 'Cij9': el.voigt_to_9(C6), 'Cijkl': el.voigt_to_tensor(C6),
            'Sijkl': el.compliance_voigt_to_tensor(S6)}


SHAPES = {'Cij': (6, 6), 'Sij': (6, 6), 'Cij9': (9, 9), 'Cijkl': (3, 3, 3, 3), 'Sijkl': (3, 3, 3, 3)}


def check_reps(ec, mine, cond, floor, eps_t, what):
    """every representation read from ec equals my own map of the intended tensor; symmetries; C:S = I; one law"""
    cmax, smax = np.abs(mine['Cij']).max(), np.abs(mine['Sij']).max()
    tolC = 1e-8 * cmax
    tolS = ((4e-8 if floor else 0.0) * cond + 1e-11 * cond) * smax
    got = {n: _get(ec, n, SHAPES[n]) for n in REPS}
    for n in REPS:
        _close(got[n], mine[n], tolS if n[0] == 'S' else tolC, '%s: %s against my own map' % (what, n))
    d = el.symmetry_defect(got['Cijkl'])
    require(d <= 1e-8 * cmax, lambda: '%s: Cijkl lacks a minor/major symmetry by %.3g' % (what, d))
    d = el.symmetry_defect(got['Sijkl'])
    require(d <= 1e-8 * smax + tolS, lambda: '%s: Sijkl lacks a minor/major symmetry by %.3g' % (what, d))
    ident = np.einsum('ijkl,klmn->ijmn', got['Cijkl'], got['Sijkl'])
    _close(ident, el.sym_identity(), 1e-10 * cond + 1e-12, '%s: Cijkl:Sklmn against the symmetric identity' % what)
    # one linear law through every representation
    e6, emax = el.strain_vector(eps_t), max(float(np.abs(eps_t).max()), 1e-300)
    e1 = float(np.abs(e6).sum())
    sig4 = np.einsum('ijkl,kl->ij', got['Cijkl'], eps_t)
    sig6 = got['Cij'] @ e6
    _close(el.stress_vector(sig4), sig6, 1e-12 * cmax * e1, '%s: stress from Cijkl vs stress from Cij' % what)
    _close(sig6, mine['Cij'] @ e6, 1e-8 * cmax * e1, '%s: stress from Cij vs my own C6.e6' % what)
    _close(got['Cij9'] @ el.nine_vector(eps_t), el.nine_vector(sig4), 1e-12 * cmax * e1,
           '%s: stress from Cij9 (9-vector strain) vs stress from Cijkl' % what)
    require(float(np.abs(sig4 - sig4.T).max()) <= 1e-12 * cmax * e1, '%s: stress from Cijkl not symmetric' % what)
    back4 = np.einsum('ijkl,kl->ij', got['Sijkl'], sig4)
    _close(back4, eps_t, 1e-10 * cond * emax + 1e-300, '%s: Sijkl:(Cijkl:eps) against eps' % what)
    back6 = got['Sij'] @ sig6
    _close(back6, e6, 1e-10 * cond * emax + 1e-300, '%s: Sij.(Cij.e6) against e6' % what)


# ----------------------------------------------------------------------------- reps

_rep = st.sampled_from(REPS)
_bool = st.booleans()


@st.composite
def reps_cases(draw):
    return {'T': draw(g.tensors()), 'via': draw(_rep), 'then': draw(_rep), 'aslist': draw(_bool),
            'strain': draw(g.strains())}


def oracle_reps(case):
    import atomman as am
    T = case['T']
    C6 = g.cij(T)
    labels = g.labels_of(T)
    w = np.linalg.eigvalsh(C6)
    cond = float(w[-1] / w[0])
    floor = _floor_hit(C6, 2e-9)
    mine = mine_of(C6)
    eps_t = np.array(case['strain'], dtype=float)
    via, then = case['via'], case['then']
    ec = am.ElasticConstants(**{via: _arg(mine[via], case['aslist'])})
    check_reps(ec, mine, cond, floor, eps_t, 'built from my %s' % via)
    # atomman's own output of another representation fed back in
    out = getattr(ec, then)
    ec2 = am.ElasticConstants(**{then: out.tolist() if case['aslist'] else out})
    check_reps(ec2, mine, cond, floor, eps_t, 'built from my %s, rebuilt from its %s' % (via, then))
    _close(ec2.Cij, ec.Cij, 1e-8 * np.abs(C6).max(), 'round trip %s -> %s -> Cij' % (via, then))
    labels.update({'via_' + via, 'then_' + then, 'list' if case['aslist'] else 'array'})
    if via != then:
        labels.add('reps_differ')
    if floor:
        labels.add('floor_band')
    if np.count_nonzero(C6) == 36:
        labels.add('nt')
    return labels


# ----------------------------------------------------------------------------- named

_how = st.sampled_from(['init', 'init', 'method'])
_formidx = st.integers(0, 7)
_hexangle = st.one_of(gens.nice(0.0, 360.0, 2), st.sampled_from([30.0, 45.0, 90.0, 17.0]))
_scale = st.one_of(st.none(), st.none(), st.lists(st.sampled_from([1.0, 2.0, 0.5, 3.7, 0.01, 250.0]), min_size=3, max_size=3))


@st.composite
def named_cases(draw):
    T = draw(g.named())
    return {'T': T, 'form': draw(_formidx), 'how': draw(_how), 'angle': draw(_hexangle), 'npfloat': draw(_bool),
            'scale': draw(_scale), 'aslist': draw(_bool)}


def _axes(R, scale, aslist):
    A = np.array(R, dtype=float)
    if scale is not None:
        A = A * np.array(scale, dtype=float)[:, None]
    return A.tolist() if aslist else A


def oracle_named(case):
    import atomman as am
    T = case['T']
    system = T['system']
    forms = g.FORMS[system]
    form = forms[case['form'] % len(forms)]
    kw = g.kwargs_of(T, form)
    if case['npfloat']:
        kw = {n: np.float64(v) for n, v in kw.items()}
    C6 = g.cij(T)
    cmax = np.abs(C6).max()
    labels = g.labels_of(T)
    labels.update({'how_' + case['how'], 'form_' + form, 'nkw%d' % len(kw)})
    if case['how'] == 'init':
        ec = am.ElasticConstants(**kw)
    else:
        ec = am.ElasticConstants()
        getattr(ec, system)(**kw)
    got = _get(ec, 'Cij', (6, 6))
    _close(got, C6, 1e-8 * cmax, '%s constants %r: Cij against my placement table' % (system, sorted(kw)))
    consts = T['C']
    for name, R in el.symmetry_generators(system, consts, case['angle']):
        # my own rotation of atomman's matrix
        _close(el.rotate_voigt(got, R), got, 1e-8 * cmax, '%s tensor under its symmetry rotation %s (my rotation)' % (system, name))
        # atomman's rotation of atomman's matrix
        tr = _transform(ec, _axes(R, case['scale'], case['aslist']), got, 'transform(%s)' % name)
        _close(tr.Cij, got, 1e-7 * cmax, '%s tensor under its symmetry rotation %s (transform)' % (system, name))
    if case['scale'] is not None:
        labels.add('nonunit_axes')
    change = float(np.abs(el.rotate_voigt(C6, GENERIC_R) - C6).max())
    if change > 1e-3 * cmax:
        labels.add('nt')
    return labels


# ----------------------------------------------------------------------------- isotropic

MODULI = ('M', 'lambda', 'mu', 'E', 'nu', 'K')
ALIAS = {'M': 'C11', 'lambda': 'C12', 'mu': 'C44'}
PAIRS15 = tuple(itertools.combinations(MODULI, 2))
KEY_ME = _key('isotropic:M-E-pair-double-root-npfloat')


@st.composite
def isotropic_cases(draw):
    T = draw(g.isotropic())
    return {'T': T, 'alias': [draw(_bool) for _ in range(3)], 'npfloat': draw(_bool), 'rot': draw(g.rot_specs()),
            'order': draw(_bool)}


def oracle_isotropic(case):
    import atomman as am
    E, nu = case['T']['C']['E'], case['T']['C']['nu']
    m = el.isotropic_moduli(E, nu)
    C6 = el.isotropic_voigt(m['lambda'], m['mu'])
    cmax = float(C6.max())
    conv = np.float64 if case['npfloat'] else float
    alias = dict(zip(('M', 'lambda', 'mu'), case['alias']))
    labels = {'npfloat' if case['npfloat'] else 'pyfloat'}
    # (M,E): mu = (3M + E - S)/8, S^2 = D = (E - M)(E - 9M) -> sqrt-type conditioning at the double root nu = 0
    M = m['M']
    D = (E - M) * (E - 9 * M)
    dD = 200 * EPS * M * M
    S = max(D, 0.0) ** 0.5
    tol_ME = 2 * 1.5 * min(dD ** 0.5, dD / S if S > 0 else np.inf) / 8 + 1e-12 * cmax
    band = D <= dD
    if band:
        labels.add('ME_double_root_band')
    deferred = None
    first = None
    for a, b in PAIRS15:
        if (a, b) == ('lambda', 'nu') and nu == 0.0:
            labels.add('lambda_nu_at_nu0_excluded')        # does not determine the material
            continue
        names = [ALIAS[x] if alias.get(x) else x for x in (a, b)]
        if case['order']:
            kw = {names[1]: conv(m[b]), names[0]: conv(m[a])}
        else:
            kw = {names[0]: conv(m[a]), names[1]: conv(m[b])}
        tol = 1e-8 * cmax                  # Cij setter zeroes entries <= 1e-9 max
        if (a, b) == ('M', 'E'):
            tol = max(tol, tol_ME)
            try:
                ec = am.ElasticConstants(**kw)
            except AssertionError as e:
                if band and case['npfloat'] and 'Cij values not valid' in str(e):
                    deferred = Violation('ElasticConstants(%s) with numpy.float64 values at the double root nu=%r (M=%r, E=%r) '
                                         'raised AssertionError(%s): negative rounding residue under the square root gives nan'
                                         % (', '.join(names), nu, m['M'], E, e), key=KEY_ME)
                    continue
                raise
        else:
            ec = am.ElasticConstants(**kw)
        _close(_get(ec, 'Cij', (6, 6)), C6, tol, 'isotropic pair %r (E=%r, nu=%r)' % (tuple(names), E, nu))
        if first is None:
            first = ec
    R = el.rotation_matrix(*case['rot'])
    _close(_transform(first, R, C6, 'transform(%r) of the isotropic tensor' % (case['rot'],)).Cij, C6, 1e-7 * cmax, 'isotropic tensor under rotation %r' % (case['rot'],))
    if deferred is not None:
        raise deferred
    if nu > 0:
        labels.add('nt')
    if nu == 0.0:
        labels.add('nu0')
    elif nu < 1e-2:
        labels.add('nu_tiny')
    elif nu > 0.45:
        labels.add('nu_near_half')
    return labels


# ----------------------------------------------------------------------------- rotate

SPECIAL_ROTS = [[[0, 0, 1], 90.0], [[1, 0, 0], 90.0], [[0, 1, 0], 90.0], [[1, 1, 1], 120.0], [[0, 0, 1], 120.0],
                [[1, 0, 0], 180.0], [[0, 1, 0], 180.0], [[0, 0, 1], 180.0], [[0, 0, 1], 60.0], [[0, 0, 1], 0.0],
                [[1, 1, 0], 180.0], [[0, 0, 1], 33.0]]
_rot = st.one_of(g.rot_specs(), g.rot_specs(), g.rot_specs(), st.sampled_from(SPECIAL_ROTS))
STYLES = (('bulk', 'Voigt'), ('bulk', 'Reuss'), ('bulk', 'Hill'), ('shear', 'Voigt'), ('shear', 'Reuss'), ('shear', 'Hill'))


@st.composite
def rotate_cases(draw):
    return {'T': draw(g.tensors()), 'R1': draw(_rot), 'R2': draw(_rot), 'scale': draw(_scale), 'aslist': draw(_bool),
            'strain': draw(g.strains())}


def oracle_rotate(case):
    import atomman as am
    T = case['T']
    C6 = g.cij(T)
    labels = g.labels_of(T)
    w = np.linalg.eigvalsh(C6)
    cond = float(w[-1] / w[0])
    cmax = float(np.abs(C6).max())
    R1, R2 = el.rotation_matrix(*case['R1']), el.rotation_matrix(*case['R2'])
    exp1 = el.rotate_voigt(C6, R1)
    exp12 = el.rotate_voigt(C6, R2 @ R1)
    K = el.bond_matrix(R1)                       # second, independent route for my own reference
    if float(np.abs(K @ C6 @ K.T - exp1).max()) > 1e-11 * float(np.abs(exp1).max()):
        raise HarnessError('reference rotation: 4-index route and Bond-matrix route disagree')
    big = max(cmax, float(np.abs(exp1).max()), float(np.abs(exp12).max()))
    t1tol, t2tol = 1e-7 * big, 1e-6 * big
    ec = am.ElasticConstants(Cij=_arg(C6, False))
    ax = lambda R: _axes(R, case['scale'], case['aslist'])
    # identity
    _close(_transform(ec, ax(np.eye(3)), C6, 'transform(identity)').Cij, C6, t1tol, 'transform(identity)')
    # against my own tensor rotation
    t1 = _transform(ec, ax(R1), exp1, 'transform(R1)')
    got1 = _get(t1, 'Cij', (6, 6))
    _close(got1, exp1, t1tol, 'transform(R1=%r) against my own R R R R C' % (case['R1'],))
    # composition and inverse
    t12 = _transform(t1, ax(R2), exp12, 'transform(R2) after transform(R1)')
    _close(t12.Cij, exp12, t2tol, 'transform(R2) after transform(R1) against my own rotation by R2.R1')
    _close(t12.Cij, _transform(ec, ax(R2 @ R1), exp12, 'transform(R2.R1)').Cij, t2tol, 'transform(R2) after transform(R1) against transform(R2.R1)')
    _close(_transform(t1, ax(R1.T), C6, 'transform(R1^T) after transform(R1)').Cij, C6, t2tol, 'transform(R1^T) after transform(R1)')
    # strain energy of the co-rotated strain
    e = np.array(case['strain'], dtype=float)
    e_r = R1 @ e @ R1.T
    W0 = float(np.einsum('ij,ijkl,kl->', e, ec.Cijkl, e))
    W1 = float(np.einsum('ij,ijkl,kl->', e_r, t1.Cijkl, e_r))
    Wv = float(el.strain_vector(e) @ C6 @ el.strain_vector(e))
    s1 = max(float(np.abs(e).sum()), float(np.abs(e_r).sum()))
    require(abs(W1 - W0) <= 1e-7 * big * s1 * s1, lambda: 'strain energy changed under co-rotation: %.12g -> %.12g' % (W0, W1))
    require(abs(Wv - W0) <= 1e-8 * big * s1 * s1, lambda: 'eps:Cijkl:eps = %.12g but e6.C6.e6 = %.12g' % (W0, Wv))
    # Voigt / Reuss / Hill averages
    ref = el.vrh(C6)
    floor = _floor_hit(C6, 2e-9) or _floor_hit(el.voigt_to_tensor(exp1), 2e-8)
    for fn, style in STYLES:
        r = ref[(fn, style)]
        if style == 'Voigt':
            tol = 1e-7 * big
        else:
            tol = (1e-11 * cond + (6e-7 * cond * cond if floor else 0.0)) * big + 1e-7 * big
        a0, a1 = float(getattr(ec, fn)(style)), float(getattr(t1, fn)(style))
        require(abs(a0 - r) <= tol, lambda: '%s(%s) = %.12g, my own = %.12g' % (fn, style, a0, r))
        require(abs(a1 - a0) <= tol, lambda: '%s(%s) changed under rotation: %.12g -> %.12g' % (fn, style, a0, a1))
    d0, d1 = float(ec.bulk()), float(ec.shear())
    require(abs(d0 - ref[('bulk', 'Hill')]) <= 1e-6 * big and abs(d1 - ref[('shear', 'Hill')]) <= 1e-6 * big,
            'default style of bulk()/shear() is not Hill')
    ang = el.rotation_angle_deg(R1)
    change = float(np.abs(exp1 - C6).max())
    if case['scale'] is not None:
        labels.add('nonunit_axes')
    labels.add('list' if case['aslist'] else 'array')
    if floor:
        labels.add('floor_band')
    if change <= 1e-6 * cmax and ang > 1.0:
        labels.add('symmetry_element')
    if float(exp1.min()) < 0:
        labels.add('negative_entries')
    if ang > 5.0 and change > 1e-3 * cmax:
        labels.add('nt')
    return labels


# ----------------------------------------------------------------------------- normalize

NORM_SYSTEMS = ('isotropic', 'cubic', 'hexagonal', 'tetragonal', 'rhombohedral', 'orthorhombic', 'triclinic')
_normsys = st.sampled_from(NORM_SYSTEMS + NORM_SYSTEMS + ('monoclinic',))


@st.composite
def normalize_cases(draw):
    T = draw(g.tensors())
    s = draw(_normsys)
    if T['kind'] == 'named' and T['system'] != 'monoclinic' and draw(st.integers(0, 2)) == 0:
        s = T['system']              # fixed point: the tensor is built from this system's constants
    return {'T': T, 'system': s, 'how': draw(st.sampled_from(['Cij', 'named']))}


def _consts_from(system, C):
    """read the constants of a system from the canonical positions of a Voigt matrix"""
    if system == 'isotropic':
        return {'C11': C[0, 0], 'C12': C[0, 1]}
    return {n: C[int(n[1]) - 1, int(n[2]) - 1] for n in g.NAMES[system]}


def oracle_normalize(case):
    import atomman as am
    T, s = case['T'], case['system']
    C6 = g.cij(T)
    cmax = float(np.abs(C6).max())
    labels = g.labels_of(T)
    labels.add('to_' + s)
    built_from = T['system'] if T['kind'] == 'named' else None
    if case['how'] == 'named' and built_from is not None:
        ec = am.ElasticConstants(**g.kwargs_of(T))
        labels.add('built_named')
    else:
        ec = am.ElasticConstants(Cij=_arg(C6, False))
    try:
        N = ec.normalized_as(s)
    except ValueError as e:
        if s == 'monoclinic' and 'Invalid crystal_system' in str(e):
            _close(ec.Cij, C6, 1e-8 * cmax, 'operand after refused normalized_as')
            return labels | {'refusal'}
        raise
    NC = _get(N, 'Cij', (6, 6))
    tol = 1e-8 * max(cmax, float(np.abs(NC).max()))
    _close(ec.Cij, C6, 1e-8 * cmax, 'operand after normalized_as (must return a new object)')
    # the result has the form of the system
    if True:
        _close(NC, g.place(s, _consts_from(s, NC)), tol, 'normalized_as(%s) result against the %s placement of its own constants' % (s, s))
    # idempotent
    N2 = N.normalized_as(s)
    _close(N2.Cij, NC, tol, 'normalized_as(%s) applied twice' % s)
    require(bool(N.is_normal(s)), lambda: 'is_normal(%s) is False on the result of normalized_as(%s)' % (s, s))
    # is_normal, both directions of its documented tolerance test (10x band around atol=rtol=1e-4)
    diff = np.abs(C6 - NC)
    allow = 1e-4 + 1e-4 * np.abs(NC)
    verdict = bool(ec.is_normal(s))
    if np.all(diff <= 0.1 * allow):
        require(verdict, lambda: 'is_normal(%s) is False although the tensor equals its normalisation within %.3g' % (s, float(diff.max())))
        labels.add('is_normal_true')
    elif np.any(diff >= 10 * allow):
        require(not verdict, lambda: 'is_normal(%s) is True although the tensor differs from its normalisation by %.3g' % (s, float(diff.max())))
        labels.add('is_normal_false')
    if built_from == s or s == 'triclinic':
        require(verdict, lambda: 'is_normal(%s) is False for a tensor built from %s constants' % (s, s))
        _close(NC, C6, 1e-8 * cmax, 'normalized_as(%s) of a tensor built from %s constants' % (s, s))
        labels.add('fixed_point')
    if float(diff.max()) > 1e-3 * cmax:
        labels.add('nt')
    return labels


CLAUSES = [
    Clause('reps', oracle_reps, reps_cases, quick=6000, thorough=120000,
           min_share={'nt': 0.2, 'reps_differ': 0.4, 'list': 0.25, 'via_Sijkl': 0.08, 'then_Cij9': 0.08},
           desc='build from one of Cij/Sij/Cij9/Cijkl/Sijkl, read all five against independent Voigt maps and compliance '
                'weights; minor/major symmetries; Cijkl:Sklmn = symmetric identity; one stress-strain law through all five; '
                'rebuild from atomman\'s own output of a second representation'),
    Clause('named', oracle_named, named_cases, quick=4000, thorough=90000,
           min_share={'nt': 0.4, 'how_method': 0.15, 'nonunit_axes': 0.15},
           desc='crystal-system constructors in every documented keyword form against my placement table; invariance '
                'under the system\'s symmetry generators by my rotation and by transform()'),
    Clause('isotropic', oracle_isotropic, isotropic_cases, quick=3000, thorough=70000,
           min_share={'nt': 0.4, 'nu0': 0.04, 'npfloat': 0.25},
           desc='all 15 isotropic modulus pairs (with the C11/C12/C44 aliases) give the tensor of (E, nu); rotation invariance'),
    Clause('rotate', oracle_rotate, rotate_cases, quick=5000, thorough=110000,
           min_share={'nt': 0.4, 'nonunit_axes': 0.15, 'symmetry_element': 0.02},
           desc='transform against my own tensor rotation; identity, composition, inverse; strain energy of co-rotated '
                'strain; Voigt/Reuss/Hill bulk and shear against invariants and unchanged by rotation'),
    Clause('normalize', oracle_normalize, normalize_cases, quick=6000, thorough=110000,
           min_share={'nt': 0.3, 'fixed_point': 0.08, 'is_normal_false': 0.2, 'is_normal_true': 0.1},
           max_share={'refusal': 0.2},
           desc='normalized_as idempotent, result has the form of the system, is_normal true on it and on tensors built '
                'from that system\'s constants; is_normal both directions; monoclinic refused'),
]
