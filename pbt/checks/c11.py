"""C11 - Elastic-constant representations are one tensor; rotation is a tensor rotation."""
import itertools

import numpy as np
from hypothesis import strategies as st

from ..core import Clause, Violation, HarnessError, require
from .. import gens
from .. import gens_c11 as g
from ..oracles import elastic as el

RULE = ("tensors: generic SPD 6x6 (Q diag(lam) Q^T, lam in [1,500], Q from 15 plane rotations), admissible constant sets "
        "of the seven crystal systems in standard setting (drawn constants shrunk toward isotropy along a fixed ladder "
        "until eig_min >= 2e-3 eig_max; optional C16/C15 zero in about half), isotropic (E in [1,600], 0 <= nu <= 0.495 "
        "incl. exactly 0 and 1e-12..1e-3), and the same expressed in rotated axes; rotations = small-integer axis + angle "
        "in [0,180] deg, symmetry elements, non-unit axes rows; symmetric strains |e| <= 0.05.  Variants of every tensor: "
        "overall magnitude 1e-6..1e6 (log-uniform, unit-conversion factors, exactly 1 in ~1/3), weakly anisotropic "
        "C = Ciso + d (C - Ciso) with 1e-6 <= d <= 1e-2, whole-number constants; every tolerance is relative to max|C|.  "
        "Object histories: the judged object is fresh or (about half) a used one - empty or built from another tensor, "
        "whose representations / transform / moduli / normalisation were read in a drawn order - that is re-defined "
        "through the public setter, crystal-system method or model(); clause history chains 2-5 such re-definitions "
        "(also back to an earlier tensor) with reads in between; returned arrays are scribbled on.  Input forms: ndarray "
        "(C or Fortran order, strided view, read-only, integer dtype), nested list / tuple, Python / numpy floats and "
        "integers for named constants, transform(tol=), is_normal(atol=, rtol=). "
        "Non-trivial: reps - all 36 Voigt entries non-zero (generic SPD / rotated / triclinic); named - the tensor is "
        "anisotropic (changes by > 1e-3 max|C| under a fixed generic rotation); isotropic - nu > 0; rotate - first "
        "rotation has angle > 5 deg and changes the tensor by > 1e-3 max|C| (not a symmetry element; weakly anisotropic "
        "class: by > 1e-6 max|C| = 10x the comparison tolerance); history - the object is re-defined after derived "
        "quantities of its earlier tensor were read; normalize - "
        "normalisation changes the tensor by > 1e-3 max|C|")
ASSUMPTIONS = ["numpy linear algebra (inv, eigvalsh, einsum) is correct",
               "Voigt pair order 11,22,33,23,13,12 and the 9x9 order 11,22,33,23,13,12,32,31,21 (atomman convention; any "
               "order of the symmetric pairs gives the same stress-strain law, which is checked separately)",
               "standard crystal settings of Nye's table (principal axis along z, monoclinic unique axis y, trigonal 2-fold "
               "along x) as listed in the ElasticConstants docstrings",
               "scalar constants may be Python floats or numpy.float64 (atomman itself passes numpy.float64 in normalized_as); "
               "whole-number constants may be Python int or numpy.int64 (|value| <= 1e6, so that squares stay in range)",
               "an array returned by a getter belongs to the caller: writing to it either leaves the object alone (copy "
               "semantics, what atomman does) or changes the whole object consistently - both are accepted",
               "Cij/transform zero entries below 1e-9/1e-8 of the maximum (documented floors): no comparison is tighter "
               "than 1e-8 max|C|, and compliance-derived numbers get the floor amplified by cond when an entry lies in "
               "the floor band"]
LEVEL_TEXT = ("Generated-input exploration of ElasticConstants over generic SPD tensors, all seven crystal systems in every "
              "documented keyword form, all 15 isotropic modulus pairs, proper rotations (generic, symmetry elements, "
              "non-unit axes) and symmetric strains, at magnitudes 1e-6..1e6 and down to 1e-6 relative anisotropy, on fresh "
              "and on used / re-defined objects and in every array-like input form, against independent Voigt/tensor algebra.")
TECHNIQUE = ("object histories and input forms judged by: "
             "independent Voigt/9x9/4-index maps and compliance weights, stress-strain law through every representation, "
             "own tensor rotation + Bond matrix, group-action laws, strain-energy and VRH invariance, placement tables "
             "and symmetry generators per crystal system, forward isotropic formulas for all 15 pairs")
WALL = {'quick': 70, 'thorough': 600}

EPS = el.EPS
REPS = ('Cij', 'Sij', 'Cij9', 'Cijkl', 'Sijkl')
GENERIC_R = el.rotation_matrix((2, -3, 5), 67.3)


def _key(what):
    return 'C11:' + what


def _arg(x, aslist):
    """fresh copy (the Cij setter zeroes small entries of the caller's array in place), list or ndarray"""
    x = np.array(x, dtype=float)
    return x.tolist() if aslist else x


def _floor_hit(C, rel):
    a = np.abs(np.asarray(C, dtype=float))
    return bool(np.any((a > 0) & (a < rel * a.max())))


def _get(ec, name, shape):
    v = getattr(ec, name)
    require(isinstance(v, np.ndarray) and v.shape == shape and bool(np.all(np.isfinite(v))),
            lambda: '%s is not a finite %r array: %r' % (name, shape, v))
    return v


def _close(got, exp, tol, what):
    err = float(np.abs(np.asarray(got, dtype=float) - np.asarray(exp, dtype=float)).max())
    require(err <= tol, lambda: '%s: differs by %.3g (tol %.3g)\nexpected\n%r\ngot\n%r' % (what, err, tol, np.asarray(exp), np.asarray(got)))


KEY_THR = _key('transform:entry-at-zeroing-threshold')


def _at_threshold(C, tol=1e-8, width=1e-5):
    """some entry of the (expected) result lies within rounding of transform's relative zeroing threshold"""
    a = np.abs(np.asarray(C, dtype=float))
    a = a / a.max()
    return bool(np.any(np.abs(a - tol) <= width * tol))


def _transform(ec, axes, expected, what):
    """ec.transform(axes); the empty AssertionError of the Cijkl setter is the listed finding when an entry of the
    expected result sits on the zeroing threshold (symmetry-equivalent entries are zeroed independently)"""
    try:
        return ec.transform(axes)
    except AssertionError as e:
        if str(e) == '' and _at_threshold(expected):
            raise Violation('%s raised AssertionError() from the Cijkl setter: an entry of the rotated tensor equals '
                            'tol*max within rounding, so only some of its symmetry-equivalent copies are zeroed' % what,
                            key=KEY_THR)
        raise


def mine_of(C6):
    S6 = el.compliance_voigt(C6)
    return {'Cij': C6, 'Sij': S6, 'Cij9': el.voigt_to_9(C6), 'Cijkl': el.voigt_to_tensor(C6),
            'Sijkl': el.compliance_voigt_to_tensor(S6)}


SHAPES = {'Cij': (6, 6), 'Sij': (6, 6), 'Cij9': (9, 9), 'Cijkl': (3, 3, 3, 3), 'Sijkl': (3, 3, 3, 3)}


PERMS5 = tuple(itertools.permutations(range(5)))


def _reread(ec, mine, cmax, tolC, tolS, scribbled, what):
    """second look at every representation (reverse order) after the arrays returned by the first look were possibly
    written to.  Copy semantics (what atomman does: nothing changes) and live-handle semantics (the whole object follows
    the factor 2 consistently) are both accepted; representations that disagree with each other are not."""
    k = 1.0
    if scribbled is not None:
        cur = _get(ec, 'Cij', (6, 6))
        alt = 2.0 if scribbled[0] == 'C' else 0.5
        if float(np.abs(cur - mine['Cij']).max()) > tolC and float(np.abs(cur - alt * mine['Cij']).max()) <= alt * tolC:
            k = alt
    for n in reversed(REPS):
        exp, tol = (mine[n] * k, tolC * k) if n[0] == 'C' else (mine[n] / k, tolS / k)
        _close(_get(ec, n, SHAPES[n]), exp, tol,
               '%s: %s read again%s' % (what, n, '' if scribbled is None else ' after writing to the array returned by ' + scribbled))
    return k


def check_reps(ec, mine, cond, floor, eps_t, what, order=0, scribble=None):
    """every representation read from ec (in the drawn order) equals my own map of the intended tensor; symmetries;
    C:S = I; one law; reads are repeatable, also after the caller wrote to a returned array"""
    cmax, smax = np.abs(mine['Cij']).max(), np.abs(mine['Sij']).max()
    tolC = 1e-8 * cmax
    tolS = ((4e-8 if floor else 0.0) * cond + 1e-11 * cond) * smax
    got = {}
    for i in PERMS5[order % 120]:
        got[REPS[i]] = _get(ec, REPS[i], SHAPES[REPS[i]])
    for n in REPS:
        _close(got[n], mine[n], tolS if n[0] == 'S' else tolC, '%s: %s against my own map' % (what, n))
    d = el.symmetry_defect(got['Cijkl'])
    require(d <= 1e-8 * cmax, lambda: '%s: Cijkl lacks a minor/major symmetry by %.3g' % (what, d))
    d = el.symmetry_defect(got['Sijkl'])
    require(d <= 1e-8 * smax + tolS, lambda: '%s: Sijkl lacks a minor/major symmetry by %.3g' % (what, d))
    ident = np.einsum('ijkl,klmn->ijmn', got['Cijkl'], got['Sijkl'])
    _close(ident, el.sym_identity(), 1e-10 * cond + 1e-12, '%s: Cijkl:Sklmn against the symmetric identity' % what)
    # one linear law through every representation
    e6, emax = el.strain_vector(eps_t), max(float(np.abs(eps_t).max()), 1e-300)
    e1 = float(np.abs(e6).sum())
    sig4 = np.einsum('ijkl,kl->ij', got['Cijkl'], eps_t)
    sig6 = got['Cij'] @ e6
    _close(el.stress_vector(sig4), sig6, 1e-12 * cmax * e1, '%s: stress from Cijkl vs stress from Cij' % what)
    _close(sig6, mine['Cij'] @ e6, 1e-8 * cmax * e1, '%s: stress from Cij vs my own C6.e6' % what)
    _close(got['Cij9'] @ el.nine_vector(eps_t), el.nine_vector(sig4), 1e-12 * cmax * e1,
           '%s: stress from Cij9 (9-vector strain) vs stress from Cijkl' % what)
    require(float(np.abs(sig4 - sig4.T).max()) <= 1e-12 * cmax * e1, '%s: stress from Cijkl not symmetric' % what)
    back4 = np.einsum('ijkl,kl->ij', got['Sijkl'], sig4)
    _close(back4, eps_t, 1e-10 * cond * emax + 1e-300, '%s: Sijkl:(Cijkl:eps) against eps' % what)
    back6 = got['Sij'] @ sig6
    _close(back6, e6, 1e-10 * cond * emax + 1e-300, '%s: Sij.(Cij.e6) against e6' % what)
    # the same object looked at a second time
    if scribble is not None:
        got[scribble] *= 2.0
    return _reread(ec, mine, cmax, tolC, tolS, scribble, what)


# ----------------------------------------------------------------------------- input forms, object histories

KEY_RO = _key('Cij-setter:read-only-input')
IN_FORMS = ('array', 'array', 'list', 'list', 'tuple', 'forder', 'strided', 'readonly', 'int', 'intlist')
_inform = st.sampled_from(IN_FORMS)
NUMS = ('npfloat', 'float', 'int', 'npint', 'float', 'npfloat')
_num = st.sampled_from(NUMS)


def _tuples(x):
    return tuple(_tuples(v) for v in x) if isinstance(x, list) else x


def _form(x, form):
    """(fresh object holding the numbers x in one of the array-like forms, name of the form used).  The integer forms
    need whole numbers (below 2**53) and fall back to array / list otherwise."""
    a = np.array(x, dtype=float)
    if form in ('int', 'intlist'):
        if bool(np.all(a == np.round(a))) and float(np.abs(a).max()) < 2.0 ** 53:
            a = a.astype(np.int64)
            return (a, 'int') if form == 'int' else (a.tolist(), 'intlist')
        form = 'array' if form == 'int' else 'list'
    if form == 'list':
        return a.tolist(), form
    if form == 'tuple':
        return _tuples(a.tolist()), form
    if form == 'forder':
        return np.asfortranarray(a), form
    if form == 'strided':
        big = np.full(tuple(2 * n for n in a.shape), np.nan)
        view = big[tuple(slice(None, None, 2) for _ in a.shape)]
        view[...] = a
        return view, form
    if form == 'readonly':
        a.setflags(write=False)
        return a, form
    return a, 'array'


def _number(v, num):
    """a named constant as Python float / numpy.float64 / (whole numbers up to 1e6 only) Python int / numpy.int64"""
    v = float(v)
    if num in ('int', 'npint'):
        if v.is_integer() and abs(v) <= 1e6:
            return (int(v), 'int') if num == 'int' else (np.int64(v), 'npint')
        num = 'float' if num == 'int' else 'npfloat'
    return (np.float64(v), 'npfloat') if num == 'npfloat' else (v, 'float')


def _numbers(kw, num, labels):
    out = {}
    for n, v in kw.items():
        out[n], used = _number(v, num)
        labels.add('num_' + used)
    return out


def _info(C6, mine):
    w = np.linalg.eigvalsh(C6)
    cond = float(w[-1] / w[0])
    floor = _floor_hit(C6, 2e-9)
    cmax, smax = float(np.abs(C6).max()), float(np.abs(mine['Sij']).max())
    return {'cond': cond, 'floor': floor, 'cmax': cmax, 'smax': smax, 'tolC': 1e-8 * cmax,
            'tolS': ((4e-8 if floor else 0.0) * cond + 1e-11 * cond) * smax}


def _payload(T, C6, mine, route, form, formidx, num, labels):
    """(route, argument) defining the tensor of case T: one of the five arrays in the drawn input form, the named
    constants of its crystal system (the 21 triclinic ones for a generic tensor), or a data model"""
    if route in REPS:
        if T.get('whole') and form in ('array', 'list'):
            form = 'int' if form == 'array' else 'intlist'      # whole-number tensors: integer-typed ndarray / list of ints
        arg, used = _form(mine[route], form)
        labels.add('in_' + used)
        return route, arg
    if route == 'model':
        import atomman as am
        return route, am.ElasticConstants(Cij=np.array(C6)).model()
    if T['kind'] == 'named':
        forms = g.FORMS[T['system']]
        return T['system'], _numbers(g.kwargs_of(T, forms[formidx % len(forms)]), num, labels)
    return 'triclinic', _numbers(g.constants(T), num, labels)


def _define(ec, route, arg, what):
    """(re-)define an object: ec None -> the constructor; else the public setter / crystal-system method / model().
    The Cij setter writes into the array it is given (zeroing of small terms): a read-only array is the listed finding."""
    import atomman as am
    try:
        if route in REPS:
            if ec is None:
                return am.ElasticConstants(**{route: arg})
            setattr(ec, route, arg)
        elif route == 'model':
            if ec is None:
                return am.ElasticConstants(model=arg)
            ec.model(model=arg)
        else:
            if ec is None:
                return am.ElasticConstants(**arg)           # system chosen by the number of keywords
            getattr(ec, route)(**arg)
        return ec
    except ValueError as e:
        if route in ('Cij', 'Cij9') and isinstance(arg, np.ndarray) and not arg.flags.writeable and 'read-only' in str(e):
            raise Violation('%s: %s given as a read-only float64 array raised ValueError(%s): the Cij setter zeroes small '
                            'terms in the caller\'s array instead of a copy' % (what, route, e), key=KEY_RO)
        raise


TOUCHES = ('Cij', 'Sij', 'Cij9', 'Cijkl', 'Cijkl', 'Sijkl', 'transform', 'transform', 'transform_I', 'bulk', 'shear',
           'normalized', 'is_normal', 'str', 'model')
_touches = st.lists(st.sampled_from(TOUCHES), min_size=0, max_size=4)
EMPTY_OK = ('Cij', 'Cij9', 'Cijkl', 'str')


def _touch(ec, t, C6, mine, info, what):
    """one look at a derived quantity of an object holding the tensor C6, judged like everywhere else"""
    if t in SHAPES:
        _close(_get(ec, t, SHAPES[t]), mine[t], info['tolS'] if t[0] == 'S' else info['tolC'], '%s: %s against my own map' % (what, t))
    elif t in ('transform', 'transform_I'):
        R = GENERIC_R if t == 'transform' else np.eye(3)
        exp = el.rotate_voigt(C6, R)
        tr = _transform(ec, np.array(R), exp, '%s: transform' % what)
        _close(_get(tr, 'Cij', (6, 6)), exp, 1e-7 * max(info['cmax'], float(np.abs(exp).max())), '%s: %s against my own rotation' % (what, t))
    elif t in ('bulk', 'shear'):
        ref = el.vrh(C6)
        cond = info['cond']
        tol = (1e-11 * cond + (6e-7 * cond * cond if info['floor'] else 0.0) + 1e-7) * info['cmax']
        for style in ('Voigt', 'Reuss', 'Hill'):
            v = float(getattr(ec, t)(style))
            require(abs(v - ref[(t, style)]) <= tol, lambda: '%s: %s(%s) = %.12g, my own = %.12g' % (what, t, style, v, ref[(t, style)]))
    elif t == 'normalized':
        ec.normalized_as('cubic')
    elif t == 'is_normal':
        ec.is_normal('hexagonal')
    elif t == 'str':
        str(ec)
    elif t == 'model':
        ec.model()
    else:
        raise HarnessError('unknown touch %r' % (t,))


_pre_sel = st.integers(0, 5)


@st.composite
def pres(draw):
    """the past of the judged object: None = none (fresh, 1/3); else it was empty (1/6) or held another tensor (1/2)
    and was looked at before being re-defined"""
    w = draw(_pre_sel)
    if w <= 1:
        return None
    T0 = None if w == 2 else draw(g.tensors(variants=True))
    return {'T0': T0, 'via': draw(_rep), 'touch': draw(_touches)}


CACHEABLE = ('Cijkl', 'Sijkl', 'Sij', 'Cij9', 'transform', 'transform_I', 'bulk', 'shear')


def _used(pre, labels):
    """None for no past (the caller uses the constructor), else the used object"""
    import atomman as am
    if pre is None:
        labels.add('pre_none')
        return None
    T0 = pre['T0']
    if T0 is None:
        ec = am.ElasticConstants()
        labels.add('pre_empty')
        for t in pre['touch']:
            if t in ('Cij', 'Cij9', 'Cijkl'):
                v = _get(ec, t, SHAPES[t])
                require(not v.any(), lambda: 'empty object: %s is not zero' % t)
                labels.add('pre_looked')
            elif t == 'str':
                str(ec)
        return ec
    C0 = g.cij(T0)
    mine0 = mine_of(C0)
    info0 = _info(C0, mine0)
    ec = am.ElasticConstants(**{pre['via']: _arg(mine0[pre['via']], False)})
    for t in pre['touch']:
        _touch(ec, t, C0, mine0, info0, 'earlier tensor of the same object')
    labels.add('pre_other')
    if any(t in CACHEABLE for t in pre['touch']):
        labels.add('pre_looked')
    return ec


def _build(case, T, C6, mine, route, labels, what):
    """the object under judgement: fresh, or a used one re-defined through route"""
    ec = _used(case.get('pre'), labels)
    form = case.get('inform', 'list' if case.get('aslist') else 'array')
    route, arg = _payload(T, C6, mine, route, form, case.get('form', 0), case.get('num', 'float'), labels)
    labels.add('route_' + (route if route in REPS or route == 'model' else 'named'))
    return _define(ec, route, arg, what)


# ----------------------------------------------------------------------------- reps

_rep = st.sampled_from(REPS)
_bool = st.booleans()


_order = st.integers(0, 119)
_scribble = st.sampled_from((None, None, None) + REPS)
_tensors = g.tensors(variants=True)


@st.composite
def reps_cases(draw):
    return {'T': draw(_tensors), 'via': draw(_rep), 'then': draw(_rep), 'inform': draw(_inform),
            'strain': draw(g.strains()), 'pre': draw(pres()), 'order': draw(_order), 'scribble': draw(_scribble)}


def oracle_reps(case):
    import atomman as am
    T = case['T']
    C6 = g.cij(T)
    labels = g.labels_of(T)
    w = np.linalg.eigvalsh(C6)
    cond = float(w[-1] / w[0])
    floor = _floor_hit(C6, 2e-9)
    mine = mine_of(C6)
    eps_t = np.array(case['strain'], dtype=float)
    via, then = case['via'], case['then']
    ec = _build(case, T, C6, mine, via, labels, 'object defined by my %s' % via)
    scribble = case.get('scribble')
    k = check_reps(ec, mine, cond, floor, eps_t, 'built from my %s' % via, case.get('order', 0), scribble)
    if scribble is not None:
        labels.add('scribble')
    if k == 1.0:
        # atomman's own output of another representation fed back in
        out = getattr(ec, then)
        listed = case.get('inform', 'list' if case.get('aslist') else 'array') in ('list', 'tuple', 'intlist')
        ec2 = am.ElasticConstants(**{then: out.tolist() if listed else out})
        check_reps(ec2, mine, cond, floor, eps_t, 'built from my %s, rebuilt from its %s' % (via, then))
        _close(ec2.Cij, ec.Cij, 1e-8 * np.abs(C6).max(), 'round trip %s -> %s -> Cij' % (via, then))
    labels.update({'via_' + via, 'then_' + then, 'list' if 'in_list' in labels or 'in_tuple' in labels or 'in_intlist' in labels else 'array'})
    if via != then:
        labels.add('reps_differ')
    if floor:
        labels.add('floor_band')
    if np.count_nonzero(C6) == 36:
        labels.add('nt')
    return labels


# ----------------------------------------------------------------------------- named

_how = st.sampled_from(['init', 'init', 'method', 'method', 'reuse', 'reuse'])
_named_v = g.named(variants=True)
_formidx = st.integers(0, 7)
_hexangle = st.one_of(gens.nice(0.0, 360.0, 2), st.sampled_from([30.0, 45.0, 90.0, 17.0]))
_scale = st.one_of(st.none(), st.none(), st.lists(st.sampled_from([1.0, 2.0, 0.5, 3.7, 0.01, 250.0]), min_size=3, max_size=3))


@st.composite
def named_cases(draw):
    T = draw(_named_v)
    how = draw(_how)
    return {'T': T, 'form': draw(_formidx), 'how': how, 'angle': draw(_hexangle), 'num': draw(_num),
            'scale': draw(_scale), 'axform': draw(_inform), 'pre': draw(pres()) if how == 'reuse' else None}


def _axes(R, scale, form, labels=None):
    """axes argument of transform: rows of R, optionally of other lengths, in one of the array-like forms (old cases:
    form is the boolean 'aslist')"""
    A = np.array(R, dtype=float)
    if scale is not None:
        A = A * np.array(scale, dtype=float)[:, None]
    if form is True or form is False or form is None:
        form = 'list' if form else 'array'
    arg, used = _form(A, form)
    if labels is not None:
        labels.add('axes_' + used)
    return arg


def oracle_named(case):
    import atomman as am
    T = case['T']
    system = T['system']
    forms = g.FORMS[system]
    form = forms[case['form'] % len(forms)]
    C6 = g.cij(T)
    cmax = np.abs(C6).max()
    labels = g.labels_of(T)
    kw = _numbers(g.kwargs_of(T, form), case.get('num', 'npfloat' if case.get('npfloat') else 'float'), labels)
    labels.update({'how_' + case['how'], 'form_' + form, 'nkw%d' % len(kw)})
    if case['how'] == 'init':
        ec = am.ElasticConstants(**kw)
    elif case['how'] == 'method' or case.get('pre') is None:
        ec = am.ElasticConstants()
        getattr(ec, system)(**kw)
    else:
        ec = _used(case['pre'], labels)             # an object with a past, re-defined by the crystal-system method
        getattr(ec, system)(**kw)
    got = _get(ec, 'Cij', (6, 6))
    _close(got, C6, 1e-8 * cmax, '%s constants %r: Cij against my placement table' % (system, sorted(kw)))
    consts = T['C']
    for name, R in el.symmetry_generators(system, consts, case['angle']):
        # my own rotation of atomman's matrix
        _close(el.rotate_voigt(got, R), got, 1e-8 * cmax, '%s tensor under its symmetry rotation %s (my rotation)' % (system, name))
        # atomman's rotation of atomman's matrix
        tr = _transform(ec, _axes(R, case['scale'], case.get('axform', case.get('aslist')), labels), got, 'transform(%s)' % name)
        _close(tr.Cij, got, 1e-7 * cmax, '%s tensor under its symmetry rotation %s (transform)' % (system, name))
    _close(_get(ec, 'Cijkl', (3, 3, 3, 3)), el.voigt_to_tensor(C6), 1e-8 * cmax, '%s constants %r: Cijkl against my own map' % (system, sorted(kw)))
    if case['scale'] is not None:
        labels.add('nonunit_axes')
    change = float(np.abs(el.rotate_voigt(C6, GENERIC_R) - C6).max())
    if change > 1e-3 * cmax:
        labels.add('nt')
    return labels


# ----------------------------------------------------------------------------- isotropic

MODULI = ('M', 'lambda', 'mu', 'E', 'nu', 'K')
ALIAS = {'M': 'C11', 'lambda': 'C12', 'mu': 'C44'}
PAIRS15 = tuple(itertools.combinations(MODULI, 2))
KEY_ME = _key('isotropic:M-E-pair-double-root-npfloat')


_iso_v = g.isotropic(variants=True)


@st.composite
def isotropic_cases(draw):
    T = draw(_iso_v)
    reuse = draw(_bool)
    return {'T': T, 'alias': [draw(_bool) for _ in range(3)], 'npfloat': draw(_bool), 'rot': draw(g.rot_specs()),
            'order': draw(_bool), 'num': draw(_num), 'reuse': reuse, 'pre': draw(pres()) if reuse else None,
            'look': draw(st.integers(0, 2 ** 15 - 1)) if reuse else 0}


def oracle_isotropic(case):
    import atomman as am
    E, nu = case['T']['C']['E'], case['T']['C']['nu']
    m = el.isotropic_moduli(E, nu)
    C6 = el.isotropic_voigt(m['lambda'], m['mu'])
    cmax = float(C6.max())
    labels = g.labels_of(case['T'])
    num = case.get('num', 'npfloat' if case['npfloat'] else 'float')
    npfloat = num == 'npfloat'

    def conv(v):
        x, used = _number(v, num)
        labels.add('num_' + used)
        return x
    alias = dict(zip(('M', 'lambda', 'mu'), case['alias']))
    labels.add('npfloat' if npfloat else 'pyfloat')
    # reuse: ONE object (with a past) is re-defined by each of the 15 pairs in turn and looked at in between
    reuse = bool(case.get('reuse'))
    shared = None
    if reuse:
        labels.add('reuse')
        shared = _used(case.get('pre'), labels)
        if shared is None:
            shared = am.ElasticConstants()
    C4 = el.voigt_to_tensor(C6)
    # (M,E): mu = (3M + E - S)/8, S^2 = D = (E - M)(E - 9M) -> sqrt-type conditioning at the double root nu = 0
    M = m['M']
    D = (E - M) * (E - 9 * M)
    dD = 200 * EPS * M * M
    S = max(D, 0.0) ** 0.5
    tol_ME = 2 * 1.5 * min(dD ** 0.5, dD / S if S > 0 else np.inf) / 8 + 1e-12 * cmax
    band = D <= dD
    if band:
        labels.add('ME_double_root_band')
    deferred = None
    first = None
    for ip, (a, b) in enumerate(PAIRS15):
        if (a, b) == ('lambda', 'nu') and nu == 0.0:
            labels.add('lambda_nu_at_nu0_excluded')        # does not determine the material
            continue
        names = [ALIAS[x] if alias.get(x) else x for x in (a, b)]
        if case['order']:
            kw = {names[1]: conv(m[b]), names[0]: conv(m[a])}
        else:
            kw = {names[0]: conv(m[a]), names[1]: conv(m[b])}
        tol = 1e-8 * cmax                  # Cij setter zeroes entries <= 1e-9 max
        if (a, b) == ('M', 'E'):
            tol = max(tol, tol_ME)
            try:
                ec = _define(shared, 'isotropic', kw, 'isotropic pair')
            except AssertionError as e:
                if band and npfloat and 'Cij values not valid' in str(e):
                    deferred = Violation('ElasticConstants(%s) with numpy.float64 values at the double root nu=%r (M=%r, E=%r) '
                                         'raised AssertionError(%s): negative rounding residue under the square root gives nan'
                                         % (', '.join(names), nu, m['M'], E, e), key=KEY_ME)
                    continue
                raise
        else:
            ec = _define(shared, 'isotropic', kw, 'isotropic pair')
        _close(_get(ec, 'Cij', (6, 6)), C6, tol, 'isotropic pair %r (E=%r, nu=%r)' % (tuple(names), E, nu))
        if reuse and (case.get('look', 0) >> ip) & 1:
            _close(_get(ec, 'Cijkl', (3, 3, 3, 3)), C4, tol, 'isotropic pair %r (E=%r, nu=%r): Cijkl of the re-defined object' % (tuple(names), E, nu))
        if first is None:
            first = ec
    R = el.rotation_matrix(*case['rot'])
    _close(_transform(first, R, C6, 'transform(%r) of the isotropic tensor' % (case['rot'],)).Cij, C6, 1e-7 * cmax, 'isotropic tensor under rotation %r' % (case['rot'],))
    _close(_get(first, 'Cijkl', (3, 3, 3, 3)), C4, 1e-8 * cmax, 'Cijkl of the isotropic tensor')
    if deferred is not None:
        raise deferred
    if nu > 0:
        labels.add('nt')
    if nu == 0.0:
        labels.add('nu0')
    elif nu < 1e-2:
        labels.add('nu_tiny')
    elif nu > 0.45:
        labels.add('nu_near_half')
    return labels


# ----------------------------------------------------------------------------- rotate

SPECIAL_ROTS = [[[0, 0, 1], 90.0], [[1, 0, 0], 90.0], [[0, 1, 0], 90.0], [[1, 1, 1], 120.0], [[0, 0, 1], 120.0],
                [[1, 0, 0], 180.0], [[0, 1, 0], 180.0], [[0, 0, 1], 180.0], [[0, 0, 1], 60.0], [[0, 0, 1], 0.0],
                [[1, 1, 0], 180.0], [[0, 0, 1], 33.0]]
_rot = st.one_of(g.rot_specs(), g.rot_specs(), g.rot_specs(), st.sampled_from(SPECIAL_ROTS))
STYLES = (('bulk', 'Voigt'), ('bulk', 'Reuss'), ('bulk', 'Hill'), ('shear', 'Voigt'), ('shear', 'Reuss'), ('shear', 'Hill'))


ROUTES = REPS + ('Cij', 'Cij', 'named', 'named', 'model')
_route = st.sampled_from(ROUTES)
_tol = st.sampled_from([None, None, 1e-12, 1e-10, 1e-6, 1e-5])


@st.composite
def rotate_cases(draw):
    return {'T': draw(_tensors), 'R1': draw(_rot), 'R2': draw(_rot), 'scale': draw(_scale), 'axform': draw(_inform),
            'strain': draw(g.strains()), 'pre': draw(pres()), 'route': draw(_route), 'inform': draw(_inform),
            'form': draw(_formidx), 'num': draw(_num), 'tol': draw(_tol)}


def oracle_rotate(case):
    import atomman as am
    T = case['T']
    C6 = g.cij(T)
    labels = g.labels_of(T)
    w = np.linalg.eigvalsh(C6)
    cond = float(w[-1] / w[0])
    cmax = float(np.abs(C6).max())
    R1, R2 = el.rotation_matrix(*case['R1']), el.rotation_matrix(*case['R2'])
    exp1 = el.rotate_voigt(C6, R1)
    exp12 = el.rotate_voigt(C6, R2 @ R1)
    K = el.bond_matrix(R1)                       # second, independent route for my own reference
    if float(np.abs(K @ C6 @ K.T - exp1).max()) > 1e-11 * float(np.abs(exp1).max()):
        raise HarnessError('reference rotation: 4-index route and Bond-matrix route disagree')
    big = max(cmax, float(np.abs(exp1).max()), float(np.abs(exp12).max()))
    t1tol, t2tol = 1e-7 * big, 1e-6 * big
    ec = _build(case, T, C6, mine_of(C6), case.get('route', 'Cij'), labels, 'object to rotate')
    ax = lambda R: _axes(R, case['scale'], case.get('axform', case.get('aslist')), labels)
    # identity
    _close(_transform(ec, ax(np.eye(3)), C6, 'transform(identity)').Cij, C6, t1tol, 'transform(identity)')
    # against my own tensor rotation
    t1 = _transform(ec, ax(R1), exp1, 'transform(R1)')
    got1 = _get(t1, 'Cij', (6, 6))
    _close(got1, exp1, t1tol, 'transform(R1=%r) against my own R R R R C' % (case['R1'],))
    # documented option: relative threshold below which terms are identified as zero
    tol = case.get('tol')
    if tol is not None:
        tt = _get(ec.transform(ax(R1), tol=tol), 'Cij', (6, 6))
        e1max = float(np.abs(exp1).max())
        _close(tt, exp1, max(1e-7, 2 * tol) * big, 'transform(R1=%r, tol=%r) against my own R R R R C' % (case['R1'], tol))
        sure = np.abs(exp1) < 0.5 * tol * e1max
        require(not tt[sure].any(), lambda: 'transform(R1, tol=%r) keeps terms below half the threshold:\n%r' % (tol, tt))
        labels.add('tol_given')
        if sure.any() and bool((np.abs(exp1[sure]) > 1e-13 * e1max).any()):
            labels.add('tol_zeroes_something')
    # composition and inverse
    t12 = _transform(t1, ax(R2), exp12, 'transform(R2) after transform(R1)')
    _close(t12.Cij, exp12, t2tol, 'transform(R2) after transform(R1) against my own rotation by R2.R1')
    _close(t12.Cij, _transform(ec, ax(R2 @ R1), exp12, 'transform(R2.R1)').Cij, t2tol, 'transform(R2) after transform(R1) against transform(R2.R1)')
    _close(_transform(t1, ax(R1.T), C6, 'transform(R1^T) after transform(R1)').Cij, C6, t2tol, 'transform(R1^T) after transform(R1)')
    # strain energy of the co-rotated strain
    e = np.array(case['strain'], dtype=float)
    e_r = R1 @ e @ R1.T
    W0 = float(np.einsum('ij,ijkl,kl->', e, ec.Cijkl, e))
    W1 = float(np.einsum('ij,ijkl,kl->', e_r, t1.Cijkl, e_r))
    Wv = float(el.strain_vector(e) @ C6 @ el.strain_vector(e))
    s1 = max(float(np.abs(e).sum()), float(np.abs(e_r).sum()))
    require(abs(W1 - W0) <= 1e-7 * big * s1 * s1, lambda: 'strain energy changed under co-rotation: %.12g -> %.12g' % (W0, W1))
    require(abs(Wv - W0) <= 1e-8 * big * s1 * s1, lambda: 'eps:Cijkl:eps = %.12g but e6.C6.e6 = %.12g' % (W0, Wv))
    # Voigt / Reuss / Hill averages
    ref = el.vrh(C6)
    floor = _floor_hit(C6, 2e-9) or _floor_hit(el.voigt_to_tensor(exp1), 2e-8)
    for fn, style in STYLES:
        r = ref[(fn, style)]
        if style == 'Voigt':
            tol = 1e-7 * big
        else:
            tol = (1e-11 * cond + (6e-7 * cond * cond if floor else 0.0)) * big + 1e-7 * big
        a0, a1 = float(getattr(ec, fn)(style)), float(getattr(t1, fn)(style))
        require(abs(a0 - r) <= tol, lambda: '%s(%s) = %.12g, my own = %.12g' % (fn, style, a0, r))
        require(abs(a1 - a0) <= tol, lambda: '%s(%s) changed under rotation: %.12g -> %.12g' % (fn, style, a0, a1))
    d0, d1 = float(ec.bulk()), float(ec.shear())
    require(abs(d0 - ref[('bulk', 'Hill')]) <= 1e-6 * big and abs(d1 - ref[('shear', 'Hill')]) <= 1e-6 * big,
            'default style of bulk()/shear() is not Hill')
    ang = el.rotation_angle_deg(R1)
    change = float(np.abs(exp1 - C6).max())
    if case['scale'] is not None:
        labels.add('nonunit_axes')
    if floor:
        labels.add('floor_band')
    if change <= 1e-6 * cmax and ang > 1.0 and 'near_iso' not in labels:
        labels.add('symmetry_element')
    if 'near_iso' in labels and ang > 5.0 and change > 1e-6 * cmax:
        labels.update({'near_iso_rotates', 'nt'})   # weakly anisotropic, yet the rotation is 10x above the comparison tolerance
    if cmax < 2e-3 and ang > 5.0 and change > 1e-3 * cmax:
        labels.add('tiny_numbers_rotate')       # all numbers below 2e-3 (absolute tolerances of ~1e-4 would bite)
    if float(exp1.min()) < 0:
        labels.add('negative_entries')
    if ang > 5.0 and change > 1e-3 * cmax:
        labels.add('nt')
    return labels


# ----------------------------------------------------------------------------- normalize

NORM_SYSTEMS = ('isotropic', 'cubic', 'hexagonal', 'tetragonal', 'rhombohedral', 'orthorhombic', 'triclinic')
_normsys = st.sampled_from(NORM_SYSTEMS + NORM_SYSTEMS + ('monoclinic',))


_tols = st.sampled_from([None, None, [1e-4, 0.0], [1e-6, 1e-6], [1e-2, 1e-3], [0.0, 1e-4], [1e-7, 1e-7]])


@st.composite
def normalize_cases(draw):
    T = draw(_tensors)
    s = draw(_normsys)
    if T['kind'] == 'named' and T['system'] != 'monoclinic' and draw(st.integers(0, 2)) == 0:
        s = T['system']              # fixed point: the tensor is built from this system's constants
    return {'T': T, 'system': s, 'how': draw(st.sampled_from(['Cij', 'named'])), 'pre': draw(pres()),
            'route': draw(_route), 'inform': draw(_inform), 'form': draw(_formidx), 'num': draw(_num), 'tols': draw(_tols)}


def _consts_from(system, C):
    """read the constants of a system from the canonical positions of a Voigt matrix"""
    if system == 'isotropic':
        return {'C11': C[0, 0], 'C12': C[0, 1]}
    return {n: C[int(n[1]) - 1, int(n[2]) - 1] for n in g.NAMES[system]}


def oracle_normalize(case):
    import atomman as am
    T, s = case['T'], case['system']
    C6 = g.cij(T)
    cmax = float(np.abs(C6).max())
    labels = g.labels_of(T)
    labels.add('to_' + s)
    built_from = T['system'] if T['kind'] == 'named' else None
    route = case.get('route', 'Cij')
    if case['how'] == 'named' and built_from is not None:
        route = 'named'
        labels.add('built_named')
    elif route == 'named':
        route = 'Cij'
    ec = _build(case, T, C6, mine_of(C6), route, labels, 'object to normalise')
    try:
        N = ec.normalized_as(s)
    except ValueError as e:
        if s == 'monoclinic' and 'Invalid crystal_system' in str(e):
            _close(ec.Cij, C6, 1e-8 * cmax, 'operand after refused normalized_as')
            return labels | {'refusal'}
        raise
    NC = _get(N, 'Cij', (6, 6))
    tol = 1e-8 * max(cmax, float(np.abs(NC).max()))
    _close(ec.Cij, C6, 1e-8 * cmax, 'operand after normalized_as (must return a new object)')
    # the result has the form of the system
    if True:
        _close(NC, g.place(s, _consts_from(s, NC)), tol, 'normalized_as(%s) result against the %s placement of its own constants' % (s, s))
    # idempotent
    N2 = N.normalized_as(s)
    _close(N2.Cij, NC, tol, 'normalized_as(%s) applied twice' % s)
    require(bool(N.is_normal(s)), lambda: 'is_normal(%s) is False on the result of normalized_as(%s)' % (s, s))
    # is_normal, both directions of its documented tolerance test (10x band around atol=rtol=1e-4)
    # (judged on the object's own matrix, which was checked against mine above: the Cij setter zeroes terms below
    #  1e-9 max|C|, which at large magnitudes is more than the absolute tolerance)
    own = _get(ec, 'Cij', (6, 6))
    diff = np.abs(C6 - NC)
    diff_own = np.abs(own - NC)
    allow = 1e-4 + 1e-4 * np.abs(NC)
    verdict = bool(ec.is_normal(s))
    if np.all(diff_own <= 0.1 * allow):
        require(verdict, lambda: 'is_normal(%s) is False although the tensor equals its normalisation within %.3g' % (s, float(diff.max())))
        labels.add('is_normal_true')
    elif np.any(diff_own >= 10 * allow):
        require(not verdict, lambda: 'is_normal(%s) is True although the tensor differs from its normalisation by %.3g' % (s, float(diff.max())))
        labels.add('is_normal_false')
    # the documented tolerances given explicitly, relative to the size of the numbers: [atol / max|C|, rtol]
    if case.get('tols') is not None:
        atol, rtol = case['tols'][0] * cmax, case['tols'][1]
        allow = atol + rtol * np.abs(NC)
        v2 = bool(ec.is_normal(s, atol=atol, rtol=rtol))
        edge = 10 * EPS * cmax
        diff2 = diff_own
        if np.all(diff2 <= 0.1 * allow - edge):
            require(v2, lambda: 'is_normal(%s, atol=%r, rtol=%r) is False although the tensor equals its normalisation within %.3g' % (s, atol, rtol, float(diff2.max())))
            labels.add('is_normal_tols_true')
        elif np.any(diff2 >= 10 * allow + edge):
            require(not v2, lambda: 'is_normal(%s, atol=%r, rtol=%r) is True although the tensor differs from its normalisation by %.3g' % (s, atol, rtol, float(diff2.max())))
            labels.add('is_normal_tols_false')
    if built_from == s or s == 'triclinic':
        require(verdict, lambda: 'is_normal(%s) is False for a tensor built from %s constants' % (s, s))
        _close(NC, C6, 1e-8 * cmax, 'normalized_as(%s) of a tensor built from %s constants' % (s, s))
        labels.add('fixed_point')
    if float(diff.max()) > 1e-3 * cmax:
        labels.add('nt')
    return labels


# ----------------------------------------------------------------------------- history

_step_T = st.one_of(_tensors, _tensors, _tensors, st.integers(0, 3))
_nsteps = st.integers(2, 5)


@st.composite
def _steps(draw):
    return {'T': draw(_step_T), 'route': draw(_route), 'inform': draw(_inform), 'form': draw(_formidx), 'num': draw(_num),
            'look': draw(_touches), 'full': draw(_bool), 'order': draw(_order), 'scribble': draw(_scribble)}


@st.composite
def history_cases(draw):
    n = draw(_nsteps)
    return {'empty': draw(_bool), 'look0': draw(_touches), 'steps': [draw(_steps()) for _ in range(n)],
            'rot': draw(_rot), 'strain': draw(g.strains())}


def oracle_history(case):
    """ONE object is defined and re-defined 2-5 times (setters in every input form, crystal-system methods, model();
    also back to a tensor it held before); after every definition some derived quantities are read and judged, every
    representation is judged in full at drawn steps and at the end, and the final tensor is rotated"""
    import atomman as am
    labels = set()
    eps_t = np.array(case['strain'], dtype=float)
    ec = None
    if case['empty']:
        ec = am.ElasticConstants()
        labels.add('start_empty')
        for t in case['look0']:
            if t in ('Cij', 'Cij9', 'Cijkl'):
                v = _get(ec, t, SHAPES[t])
                require(not v.any(), lambda: 'empty object: %s is not zero' % t)
            elif t == 'str':
                str(ec)
    seen, ndef, looked, stale_risk = [], 0, False, 0
    C6 = None
    for i, step in enumerate(case['steps']):
        T = step['T']
        if isinstance(T, int):
            if len(seen) < 2:
                continue
            T = seen[T % (len(seen) - 1)]                # a tensor the object held before the current one
            labels.add('back_to_earlier')
        seen.append(T)
        C6 = g.cij(T)
        mine = mine_of(C6)
        info = _info(C6, mine)
        what = 'definition %d of the same object' % (ndef + 1)
        route, arg = _payload(T, C6, mine, step['route'], step['inform'], step['form'], step['num'], labels)
        labels.add('route_' + (route if route in REPS or route == 'model' else 'named'))
        ec = _define(ec, route, arg, what)
        if looked and ndef > 0:
            stale_risk += 1
        ndef += 1
        for t in step['look']:
            _touch(ec, t, C6, mine, info, what)
            looked = looked or t in CACHEABLE
        if step['full'] or i == len(case['steps']) - 1:
            k = check_reps(ec, mine, info['cond'], info['floor'], eps_t, what, step['order'], step['scribble'])
            looked = True
            if step['scribble'] is not None:
                labels.add('scribble')
            if k != 1.0:                                 # live-handle semantics: the object now holds k times the tensor
                C6 = k * C6
                seen[-1] = g.scaled_case(T, k)
    if C6 is None:
        return labels
    R = el.rotation_matrix(*case['rot'])
    exp = el.rotate_voigt(C6, R)
    big = max(float(np.abs(C6).max()), float(np.abs(exp).max()))
    tr = _transform(ec, np.array(R), exp, 'transform after %d definitions' % ndef)
    _close(_get(tr, 'Cij', (6, 6)), exp, 1e-7 * big, 'transform(%r) of the object after %d definitions, against my own rotation' % (case['rot'], ndef))
    _close(_get(ec, 'Cij', (6, 6)), C6, 1e-8 * float(np.abs(C6).max()), 'the object after transform (must return a new object)')
    labels.add('ndef%d' % min(ndef, 4))
    if stale_risk:
        labels.add('nt')                                 # re-defined after derived quantities had been read
    if stale_risk >= 2:
        labels.add('redefined_twice_after_reads')
    return labels


CLAUSES = [
    Clause('reps', oracle_reps, reps_cases, quick=4500, thorough=100000,
           min_share={'nt': 0.2, 'reps_differ': 0.4, 'list': 0.25, 'via_Sijkl': 0.08, 'then_Cij9': 0.08, 'pre_looked': 0.1, 'pre_empty': 0.04,
                      'scribble': 0.2, 'near_iso': 0.1, 'scale_small': 0.1, 'scale_large': 0.04, 'in_readonly': 0.02, 'in_strided': 0.04,
                      'in_forder': 0.03},
           desc='build from one of Cij/Sij/Cij9/Cijkl/Sijkl, read all five against independent Voigt maps and compliance '
                'weights; minor/major symmetries; Cijkl:Sklmn = symmetric identity; one stress-strain law through all five; '
                'rebuild from atomman\'s own output of a second representation'),
    Clause('named', oracle_named, named_cases, quick=3500, thorough=90000,
           min_share={'nt': 0.4, 'how_method': 0.15, 'nonunit_axes': 0.15, 'how_reuse': 0.15, 'pre_looked': 0.03, 'near_iso': 0.1,
                      'scale_small': 0.08, 'num_int': 0.02, 'num_npint': 0.02, 'axes_readonly': 0.04, 'whole': 0.08},
           desc='crystal-system constructors in every documented keyword form against my placement table; invariance '
                'under the system\'s symmetry generators by my rotation and by transform()'),
    Clause('isotropic', oracle_isotropic, isotropic_cases, quick=2700, thorough=70000,
           min_share={'nt': 0.4, 'nu0': 0.04, 'npfloat': 0.25, 'reuse': 0.19, 'pre_looked': 0.05, 'scale_small': 0.14, 'scale_large': 0.04},
           desc='all 15 isotropic modulus pairs (with the C11/C12/C44 aliases) give the tensor of (E, nu); rotation invariance'),
    Clause('rotate', oracle_rotate, rotate_cases, quick=3600, thorough=90000,
           min_share={'nt': 0.4, 'nonunit_axes': 0.15, 'symmetry_element': 0.02, 'near_iso_rotates': 0.08, 'tiny_numbers_rotate': 0.012,
                      'pre_looked': 0.13, 'tol_given': 0.25, 'tol_zeroes_something': 0.02, 'route_model': 0.04, 'route_named': 0.05,
                      'scale_small': 0.1},
           desc='transform against my own tensor rotation; identity, composition, inverse; strain energy of co-rotated '
                'strain; Voigt/Reuss/Hill bulk and shear against invariants and unchanged by rotation'),
    Clause('history', oracle_history, history_cases, quick=1800, thorough=40000,
           min_share={'nt': 0.22, 'back_to_earlier': 0.08, 'redefined_twice_after_reads': 0.13, 'scribble': 0.25, 'start_empty': 0.2,
                      'route_model': 0.07, 'route_named': 0.1},
           desc='one object defined and re-defined 2-5 times through every setter (all array-like input forms), '
                'crystal-system method and model(), also back to an earlier tensor, with judged reads of every derived '
                'quantity in between, writes to returned arrays, full representation check and a final rotation'),
    Clause('normalize', oracle_normalize, normalize_cases, quick=4500, thorough=100000,
           min_share={'nt': 0.3, 'fixed_point': 0.08, 'is_normal_false': 0.2, 'is_normal_true': 0.1, 'is_normal_tols_true': 0.08,
                      'is_normal_tols_false': 0.14, 'pre_looked': 0.1, 'near_iso': 0.08},
           max_share={'refusal': 0.2},
           desc='normalized_as idempotent, result has the form of the system, is_normal true on it and on tensors built '
                'from that system\'s constants; is_normal both directions; monoclinic refused'),
]
