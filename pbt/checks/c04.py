"""C04 - Supercells and re-oriented cells contain the same infinite crystal.

Clauses
  supersize  System.supersize with positive / negative / two-sided multipliers
  rotate     System.rotate(uvws, return_transform=True) with integer 3x3 (hexagonal: 3x4) vector sets
  refusal    documented refusals of rotate (coplanar rows, non-integer indices, bad shapes) leave the system alone
  centering  dump('conventional_to_primitive') / dump('primitive_to_conventional') are such re-expressions
             and undo one another

The deciding oracle is the lattice map-back of pbt/oracles/crystal_match.py (numpy only): every atom of the
result, taken back through the returned rotation, must coincide modulo the original lattice with exactly one
original atom carrying the same type / tag / vector property; every original atom must be represented
|det| times; no two result atoms may coincide modulo the result lattice.

Every clause judges the call on a unit cell handed over in one of the documented INPUT FORMS (see "input forms":
lists / tuples, F-ordered, strided, read-only, float32 / float16 and - for whole-number cells - integer arrays and
lists of Python ints; Box through vects=, avect=..., the setters or Box.set; System plain, scale=True, safecopy=True)
and after a HISTORY on the same object / in the same process (see "histories": derived quantities read, the origin
alone moved through box_set(scale=True/False), Box.set and the origin setter, the cell replaced keeping the relative
coordinates, positions rewritten or shifted through every public setter, the operations of this property called
before with other arguments, the System re-built from its parts, another System operated on).  The unit cell the
result is compared with is an independent numpy model carried through the same history.

Generator classes carried over from the other properties after the fourth seeded round (helpers in pbt/gens_c04.py):
  A  ledger      every answer (systems, rotations) is kept and compared bit for bit after every later call - the same call again, the
                 same call on another system of the same shape, other operations (labels post, post_again, post_twin, post_other)
  B  caller      the caller overwrites in place what it handed in (vector-set / tol / smallshift objects, positions, properties, the
                 cell through box_set) and what it got out (positions, properties, box, rotation) and calls again: the other side must
                 not move, the new answer is judged by the same oracle (post_mut_args, post_mut_in, post_mut_out, post_rejudged);
                 argument objects must be what they were after every call
  C  dtypes      vector sets as int8 / int16 / unsigned / big-endian / bool / float32 / float16 arrays, multipliers as numpy scalars of
                 every width, whole-number cells as int16 / int32 / unsigned / big-endian arrays, big-endian float arrays, tags at the
                 limits of their integer dtype, float32 / big-endian vector property (form_narrow, arg_narrow, pos_narrowint, props_dtype)
  D  units       the same case after atomman.unitconvert.reset_units(other configuration), lengths x numericalunits.angstrom, after the
                 same case under the default configuration (units, units_pre); always restored
  E  threshold   cells 1e-12 .. 1e-3 from a more symmetric family (almost), atoms 1e-12 .. 1e-3 from a face of the unit cell (edge) and
                 down to 1e-12 from a face of the new cell (nearface), vector sets with floating-point noise (form_noisy), entries 1e-4 off
                 an integer still refused (nonint_near)
  F  decades     the per-atom vector property spans 17 decades (vec_decades): the only array of this property whose rows are free in size
  G  structured  cells with exactly permuted / reversed Cartesian axes, relabelled vectors, lower / upper triangular with negative entries
                 (sym, sym_tri_neg, sym_upper), origins at exact half lattice vectors (origin_half), triangular vector sets (uvws_tri_neg)
  H  options     clause `options`: every operation x every option value as ordered pairs / triples in one process, enumerated; and
                 return_transform / check_family / smallshift sampled in `centering`
"""
import itertools

import numpy as np
from hypothesis import strategies as st

from ..core import Clause, Violation, require, HarnessError
from .. import gens
from .. import gens_c04 as G4
from ..oracles import crystal_match as cm

RULE = ("unit cells of all seven crystal families (lattice parameters 2-22 A, optionally rigidly rotated, left-handed, "
        "box origin zero / inside the first cell / many cells away), 1-5 atoms of 1-3 types with an int tag and a float "
        "vector property, relative coordinates from {0,1/4,1/3,1/2,2/3,3/4} mixed with 5-digit reals (and, in a "
        "sub-class, values a few tolerance units from a face), pairwise distinct modulo the lattice.  supersize: "
        "per-axis multipliers as +int, -int, numpy int or (m,n) tuples, product <= 60.  rotate: integer matrices with "
        "entries in [-3,3] (20 %: [-4,4]), det != 0, |det| <= 24, both signs, given as list / int array / float array, "
        "3x4 Miller-Bravais rows for hexagonal cells.  centering: conventional cells decorated with the centering "
        "translations of p,a,b,c,i,f,t1,t2 in a family that admits the setting, and arbitrary cells taken as primitive. "
        "One case in ten (supersize, rotate) is a whole-number cell (cubic / tetragonal / orthorhombic, lattice "
        "parameters 4, 8, 12, coordinates in quarters, integer origin) handed over as integer arrays or lists of ints.  "
        "Input forms (two cases in three): positions as list / F-ordered / strided / read-only / float32 / float16 "
        "arrays (reduced precision: the crystal of the stored values; not for centering, not for the identity of rotate), "
        "Box from lists / tuples / avect,bvect,cvect / F-ordered / read-only arrays / setters / Box.set, System plain, "
        "scale=True or safecopy=True; uvws also as tuples, int32, F-ordered, strided, read-only arrays and lists of numpy "
        "scalars; multipliers also numpy int32 and tuples of numpy ints; rotate with the default tol ladder written out as "
        "list / tuple / array and without return_transform; conversions through System.dump and atomman.dump.  "
        "Histories (3 cases in 8, 1-3 operations before the judged call, mirrored in a numpy model): reads of derived "
        "quantities, origin alone changed by a non-lattice vector (box_set scale=True; box_set / Box.set / setter followed "
        "by an in-place shift of the atoms or by wrap), cell scaled / rigidly rotated at fixed relative coordinates, "
        "positions rewritten or rigidly shifted through atoms_prop(scale=True/False), view, attribute, in place, earlier "
        "supersize / rotate / wrap / normalize / primitive_to_conventional calls, System rebuilt (deepcopy, from parts, "
        "from scaled atoms, new Box, safecopy), another System operated on.  "
        "Non-trivial: supersize - product > 1 with a negative or two-sided entry; rotate - matrix is not a signed "
        "permutation; refusal - the refused input differs from a valid one in a single row/entry; centering - "
        "setting other than p.  "
        "LENGTH SCALE: every length of a case (cell vectors, hence box origin and Cartesian positions, and the documented length "
        "arguments atol / smallshift of conventional_to_primitive) is multiplied by 10^k: k = 0 in half of the cases, k = -10 (an "
        "angstrom-sized cell in SI metres) in one in six, otherwise k in -12..6 (whole-number cells: 0..6); float16 / float32 position "
        "arrays only where the scaled values stay inside the range of the type; all oracle tolerances are relative to the cell.  "
        "CLASSES added after the fourth seeded round (module docstring, gens_c04.py): one cell in nine lies 1e-12 .. 1e-3 (relative lengths, "
        "radians) from its family (1e-12 .. 1e-9 where a tolerance of the code decides the family), one in eight has its Cartesian axes "
        "exactly permuted / reversed and its vectors relabelled (a third lower triangular with negative diagonal, a third upper triangular), "
        "one in twelve has atoms 1e-12 .. 1e-3 from a face of the unit cell, one in sixteen its origin at exact half lattice vectors; tags "
        "sit at the limits of int8 .. int64 / unsigned / big-endian dtypes and the vector property is float32 / big-endian / spread over 17 "
        "decades in a third of the cases; vector sets also as narrow / unsigned / big-endian / bool / float16 / float32 arrays and with "
        "floating-point noise, triangular with negative entries; multipliers as numpy scalars of every width; whole cells as int8 .. int32 / "
        "unsigned / big-endian arrays.  One case in four is followed by 1-2 operations after the judged call (again / twin / other / mut_args "
        "/ mut_in / mut_out, see gens_c04.POST_KINDS) with every answer in a bit-for-bit ledger; one in sixteen runs under another working-"
        "unit configuration (named units, integer seed, SI), two thirds of those after the same case under the default configuration.  "
        "options: all ordered pairs of 34 conversion calls (9 + 8 settings x return_transform) and of 15 rotate / supersize calls "
        "(tol forms x return_transform x 3x3 / 3x4, multiplier forms), a ninth of the mixed pairs (thorough: all pairs and all triples of the "
        "17 conversions with return_transform) on fixed two-atom fixtures")
ASSUMPTIONS = ["numpy linear algebra is correct",
               "per-atom property values are compared exactly (they are copied, never computed)",
               "the translation convention of rotate for a box whose origin is not (0,0,0) is not fixed by the property: "
               "a result is accepted if it maps back either in absolute coordinates (T^t r') or box-relative "
               "(T^t (r'-o') + o), the same reading for all atoms of a case",
               "AssertionError('N atoms found, M expected') from conventional_to_primitive is the refusal documented "
               "in its Raises section (rate-guarded)",
               "Atoms shares the caller's position array unless safecopy=True (documented): read-only and reduced-precision "
               "position arrays are only combined with histories that write no position, and never with System(scale=True)",
               "a float32 / float16 position array defines the crystal of its stored (rounded) values; the identity of rotate "
               "(documented no-rotation shortcut: deep copy + in-place wrap) is only as precise as that dtype and is judged "
               "with float64 positions only",
               "supersize / rotate / the conversions return new systems: the system they are called on is compared with its "
               "snapshot afterwards",
               "units of the documented tolerance arguments (from docstrings and code): System.rotate `tol` is compared with box-relative "
               "coordinates (atoms_prop('pos', scale=True)) and is dimensionless - never scaled; conventional_to_primitive `atol` "
               "('absolute tolerance ... atoms in the expected lattice positions') is compared with Cartesian distances and lattice "
               "parameters and `smallshift` is added to atoms.pos - both are lengths in working units with absolute documented defaults "
               "(1e-8, 0.001) and are passed multiplied by the length unit of the cell; primitive_to_conventional takes no tolerance",
               "Box sets every vector component below 1e-9 of the largest one to zero (its vects setter): cells next to a more symmetric "
               "family are handed over with such components already zero (threshold 2e-9), and the volume of a re-oriented cell of that "
               "class is allowed the first-order effect of that clean-up, 4e-9 cond(new cell)",
               "two calls with equal arguments on an unchanged system return equal values (dtype, shape, value; not necessarily equal "
               "bits of -0.0), in different objects that share no memory with one another or with the system",
               "numericalunits.reset_units / atomman.unitconvert.reset_units set the size of the angstrom as documented; the case is "
               "re-expressed with my own product length x numericalunits.angstrom",
               "a per-atom property keeps its values whatever its dtype (tags at the limits of their integer type, float32 vectors): "
               "values are compared exactly, dtypes are not demanded"]
LEVEL_TEXT = ("Random unit cells of every crystal family with face / rational / generic / near-face atoms, all multiplier "
              "forms up to 60 replicas, integer re-orientation matrices up to index 4 and |det| 24 of both handedness "
              "(3x4 for hexagonal), all eight centering settings in both conversion directions; each result is mapped "
              "back atom by atom onto the original crystal.  Every call is judged on cells in all documented input forms "
              "(lists, tuples, integer / float32 / float16 / non-contiguous / read-only arrays, scale=True, safecopy) and after "
              "1-3 earlier operations on the same object or in the same process (origin / cell / positions changed through "
              "every public setter, derived quantities read, earlier calls, rebuilds), against a numpy model of the history.  "
              "Half of the cases are expressed in another length unit (all lengths x 10^k, k in -12..6, SI metres favoured).  "
              "Answers are kept in a bit-for-bit ledger through later calls and caller-side overwriting of inputs and outputs; narrow / "
              "unsigned / big-endian / bool / reduced-precision argument and storage dtypes; other working-unit configurations; cells, "
              "atoms and vector sets 1e-12 .. 1e-3 from their special cases; exactly permuted / reversed / triangular cells; all option "
              "values as enumerated ordered pairs.")
TECHNIQUE = "lattice map-back with multiplicity and coincidence counting (independent numpy reference), proper-rotation and LAMMPS-form checks, bit-for-bit result ledger"
WALL = {'quick': 75, 'thorough': 600}

EPS = 2.3e-16
SPECIAL = (0.0, 0.0, 0.25, 1.0 / 3.0, 0.5, 2.0 / 3.0, 0.75)
FAMILIES = gens.FAMILIES

K_FAR = 'C04:rotate:filtering-failed:box-origin-outside-first-cell'
K_NEAR = 'C04:rotate:filtering-failed:atoms-within-tol-ladder-of-face'
K_RUNG = 'C04:rotate:atom-exactly-on-tolerance-rung'
K_HEX = 'C04:rotate:hexagonal-test-absolute-1e-8:a-and-b-differ-by-less-than-1e-8-length-units'
K_ZERO = 'C04:conventional_to_primitive:zero-site-search-absolute-1e-8:one-atom-within-1e-8-length-units-of-origin'


def _atom_on_ladder_rung(res):
    """some atom of the result has a box-relative coordinate within 1e-9 (relative) of 1e-4, 1e-5, 1e-6 or 1e-7 from a face:
    there rotate()'s rounding of an atom and of its periodic image to the faces is decided by the last bits"""
    sp = np.asarray(res.atoms_prop(key='pos', scale=True), dtype=float)
    d = np.minimum(np.abs(sp), np.abs(1.0 - sp))
    for rung in (1e-4, 1e-5, 1e-6, 1e-7):
        if np.any(np.abs(d - rung) <= 1e-9 * rung):
            return True
    return False


# ----------------------------------------------------------------------------- small exact helpers

def idet(M):
    """exact determinant of a 3x3 matrix of Python ints"""
    (a, b, c), (d, e, f), (g, h, i) = [[int(x) for x in r] for r in M]
    return a * (e * i - f * h) - b * (d * i - f * g) + c * (d * h - e * g)


def hex4to3(rows):
    """[u,v,t,w] -> [2u+v, 2v+u, w]: the vector u a1 + v a2 + t a3 + w c with a3 = -(a1+a2) (t = -(u+v))"""
    return [[2 * r[0] + r[1], 2 * r[1] + r[0], r[3]] for r in rows]


def is_signed_perm(M):
    A = np.abs(np.array(M, dtype=int))
    return bool(np.all(A.sum(axis=0) == 1) and np.all(A.sum(axis=1) == 1) and np.all((A == 0) | (A == 1)))


def my_params(V):
    a, b, c = (float(np.linalg.norm(V[i])) for i in range(3))

    def cosang(u, v):
        return float(np.dot(u, v)) / (float(np.linalg.norm(u)) * float(np.linalg.norm(v)))
    return (a, b, c), (cosang(V[1], V[2]), cosang(V[0], V[2]), cosang(V[0], V[1]))


def torus_sep(a, b):
    d = np.asarray(a, dtype=float) - np.asarray(b, dtype=float)
    return float(np.abs(d - np.rint(d)).max())


def dedupe(atoms, minsep=0.04):
    """indices of atoms kept so that all kept ones differ by >= minsep (max-norm modulo 1) pairwise"""
    keep = []
    for i, a in enumerate(atoms):
        if all(torus_sep(a, atoms[j]) >= minsep for j in keep):
            keep.append(i)
    return keep


# ----------------------------------------------------------------------------- unit cells (cases -> numbers)

def ucell_scale(u):
    """the length unit of the case: every length of the unit cell is a multiple of it (1.0 for cases written before the scale existed)"""
    return float(u.get('scale', 1.0))


def ucell_numbers(u):
    """V (rows), origin, relative coords, types, vec from a unit-cell case dict (numpy only)"""
    if u.get('whole'):
        # whole-number cells: exactly diagonal (cos(90 deg) is 6e-17 in floating point)
        V = np.diag([float(x) for x in u['abc'][:3]])
    else:
        abc = list(u['abc'])
        al = u.get('almost')
        if al:
            # class E: a cell 1e-12 .. 1e-3 away from its (more symmetric) family: lengths x (1 + e), angles + e radians
            abc = [abc[i] * (1.0 + al[i]) for i in range(3)] + [abc[3 + i] + float(np.degrees(al[3 + i])) for i in range(3)]
        lx, ly, lz, xy, xz, yz = gens.abc_to_lammps(*abc)
        V = np.array([[lx, 0.0, 0.0], [xy, ly, 0.0], [xz, yz, lz]], dtype=float)
        if al:
            # Box zeroes every component below 1e-9 of the largest one ("Zero out near zero terms" in the vects setter).  The cell
            # handed over stays off that threshold: what is below 2e-9 is exactly zero already (the more symmetric cell, only its
            # lengths differ), so that the Box holds the cell of the case and the atoms sit where the case puts them
            r = np.abs(V) / np.abs(V).max()
            V[(r > 0.0) & (r < 2e-9)] = 0.0
    if u.get('lh'):
        V[2] = -V[2]
    if u.get('sym'):
        # class G: lattice vectors relabelled, Cartesian axes exactly permuted / reversed (no arithmetic: the zeros stay zeros)
        V = G4.apply_sym(V, u['sym'])
    if u.get('rot'):
        V = V @ gens.rotation_matrix(*u['rot']).T
    # overall LENGTH SCALE 10^k of the whole geometric input (cell vectors, hence origin = orel.V and positions = s.V + o):
    # the property holds whatever the length unit (angstrom, nm, Bohr, SI metres: a lattice parameter of 4e-10)
    V = V * ucell_scale(u)
    s = np.array(u['atoms'], dtype=float).reshape(-1, 3)
    o = np.array(u['orel'], dtype=float) @ V
    return V, o, s, [int(t) for t in u['types']], np.array(u['vec'], dtype=float).reshape(-1, 3)


class Model:
    """independent numpy model of the unit cell a System is supposed to hold: V (rows), o, relative coordinates s and
    Cartesian positions pos (= s.V + o, except for reduced-precision position arrays where pos is the stored value)"""
    __slots__ = ('V', 'o', 's', 'pos')

    def __init__(self, V, o, s):
        self.V, self.o, self.s = np.array(V, dtype=float), np.array(o, dtype=float), np.array(s, dtype=float)
        self.refresh()

    def refresh(self):
        self.pos = self.s @ self.V + self.o


# ----------------------------------------------------------------------------- input forms
#
# Atoms: "pos : list/ndarray of float"; Box: "array-like object"; System: scale / safecopy flags.  The property is about
# the crystal, not about how its numbers were handed over, so every documented form must give the same answer.
#   pos   float     C-contiguous float64 ndarray (the only form judged before the seeded round)
#         list      nested Python lists
#         fortran   F-ordered ndarray            strided  every second row of a larger array       readonly  writeable=False
#         f32, f16  reduced-precision float ndarrays: the crystal is the one of the *stored* (rounded) values
#         int, intlist   whole-number positions as an integer ndarray / list of Python ints (only for 'whole' cells)
#   box   vects | list | tuple | avects (avect=,bvect=,cvect=) | fortran | readonly | setters (Box() then .vects/.origin
#         assigned) | set (Box() then .set(vects=, origin=)) | intlist (whole cells: lists of Python ints)
#   sys   plain | scaled (Atoms holding relative coordinates + System(scale=True)) | safecopy
#   (class C, added after the fourth seeded round)
#   pos   fbe  big-endian float64 ndarray; int32 / int16 / int8 / uint / intbe: whole-number positions in a narrower, unsigned or
#         big-endian integer ndarray (whole cells; int64 when a value does not fit)
#   box   bigend (big-endian float64 arrays) | intarr / int32 / int16 (whole cells: integer ndarrays) | f32 (whole cells: float32)
#   per-atom properties (case field 'props'): tags at the limits of int8 .. int64 / unsigned / big-endian, float32 / big-endian /
#         17-decade vector property (gens_c04.tag_array, vec_array)
DEFAULT_FORMS = {'pos': 'float', 'box': 'vects', 'sys': 'plain'}
LOWPREC = ('f32', 'f16')
INTPOS = ('int', 'intlist')
INTPOS_NARROW = ('int32', 'int16', 'uint', 'intbe', 'int8')


def _form_pos(x, form):
    if form == 'float':
        return x.copy()
    if form == 'list':
        return x.tolist()
    if form == 'fortran':
        return np.asfortranarray(x)
    if form == 'strided':
        big = np.full((2 * len(x), 3), 1234.5)
        big[::2] = x
        return big[::2]
    if form == 'readonly':
        y = x.copy()
        y.setflags(write=False)
        return y
    if form == 'f32':
        return x.astype(np.float32)
    if form == 'f16':
        return x.astype(np.float16)
    if form == 'fbe':
        return x.astype('>f8')
    if form in INTPOS_NARROW:
        return G4.int_narrow(x, form)
    if form in INTPOS:
        xi = np.rint(x).astype(np.int64)
        if not np.array_equal(xi.astype(float), x):
            raise HarnessError('integer position form for positions that are not whole numbers')
        return xi if form == 'int' else [[int(v) for v in r] for r in xi]
    raise HarnessError('pos form %r' % (form,))


def _form_box(am, V, o, form):
    if form == 'vects':
        return am.Box(vects=V.copy(), origin=o.copy())
    if form == 'list':
        return am.Box(vects=V.tolist(), origin=o.tolist())
    if form == 'tuple':
        return am.Box(vects=tuple(tuple(float(x) for x in r) for r in V), origin=tuple(float(x) for x in o))
    if form == 'avects':
        return am.Box(avect=V[0].copy(), bvect=V[1].tolist(), cvect=tuple(V[2].tolist()), origin=o.copy())
    if form == 'fortran':
        return am.Box(vects=np.asfortranarray(V), origin=o.copy())
    if form == 'readonly':
        W, p = V.copy(), o.copy()
        W.setflags(write=False)
        p.setflags(write=False)
        return am.Box(vects=W, origin=p)
    if form == 'setters':
        b = am.Box()
        b.origin = o.copy()
        b.vects = V.copy()
        return b
    if form == 'set':
        b = am.Box()
        b.set(vects=V.copy(), origin=o.copy())
        return b
    if form == 'bigend':
        return am.Box(vects=V.astype('>f8'), origin=o.astype('>f8'))
    if form in ('intarr', 'int32', 'int16'):
        if form == 'intarr':
            return am.Box(vects=np.rint(V).astype(np.int64), origin=G4.int_narrow(o, 'int32'))
        return am.Box(vects=G4.int_narrow(V, form), origin=G4.int_narrow(o, form))
    if form == 'f32':
        V32, o32 = V.astype(np.float32), o.astype(np.float32)
        if not (np.array_equal(V32.astype(float), V) and np.array_equal(o32.astype(float), o)):
            return am.Box(vects=V.copy(), origin=o.copy())        # not exactly representable: the plain form
        return am.Box(vects=V32, origin=o32)
    if form == 'intlist':
        Vi, oi = np.rint(V).astype(np.int64), np.rint(o).astype(np.int64)
        if not (np.array_equal(Vi.astype(float), V) and np.array_equal(oi.astype(float), o)):
            raise HarnessError('integer box form for a box that is not whole-numbered')
        return am.Box(vects=[[int(v) for v in r] for r in Vi], origin=[int(v) for v in oi])
    raise HarnessError('box form %r' % (form,))


def build_system(am, u, forms=None, labels=None, pforms=None):
    """-> system, Model.  forms: see above (None: the plain float64 forms); pforms: {'tag':, 'vec':} forms of the per-atom properties"""
    forms = dict(DEFAULT_FORMS, **(forms or {}))
    pforms = pforms or {}
    V, o, s, types, vec = ucell_numbers(u)
    M = Model(V, o, s)
    pf, bf, sf = forms['pos'], forms['box'], forms['sys']
    if pf in LOWPREC:
        # the unit cell is the one of the stored, rounded values; fall back to the next finer type when the rounding
        # would bring two atoms within 0.01 length units of one another modulo the lattice (float16 resolves 0.03 at 60),
        # or when the values of a scaled cell leave the range of the type (float16 overflows at 6.5e4 and has nothing below 6e-8)
        for f in ((pf, 'f32', 'float') if pf == 'f16' else (pf, 'float')):
            if f == 'float':
                pf = f
                break
            with np.errstate(over='ignore'):
                q = np.asarray(_form_pos(M.pos, f), dtype=float)
            if not np.all(np.isfinite(q)) or np.abs(q - M.pos).max() > 2.0 ** -10 * np.abs(M.pos).max():
                continue        # overflow / underflow: not the rounding of the type (never at angstrom scale)
            if not cm.coincidences(q, V, o, 0.01 * ucell_scale(u), max_pairs=1):
                pf = f
                M.pos = q
                M.s = cm.rel_coords(q, V, o)
                break
    if pf != 'float' or bf != 'vects' or sf != 'plain':
        if labels is not None:
            labels.update({'forms', 'pos_' + pf, 'box_' + bf, 'sys_' + sf})
    # scale=True converts the positions in the caller's array (shared unless safecopy=True, documented): not for read-only / rounded / integer ones
    scaled = sf == 'scaled' and pf in ('float', 'list', 'fortran', 'strided')
    tf, vf = pforms.get('tag', 'int'), pforms.get('vec', 'f8')
    props = dict(atype=np.array(types, dtype=int), tag=G4.tag_array(len(s), tf), vec=G4.vec_array(vec, vf, int(pforms.get('group', 1))))
    if labels is not None:
        if tf != 'int':
            labels.update({'props_dtype', 'tag_' + tf})
        if vf != 'f8':
            labels.add('vec_' + vf)
            if 'decades' in vf and len(s) >= 2 * int(pforms.get('group', 1)):
                labels.add('vec_decades')
            if vf != 'decades':
                labels.add('props_dtype')
    parr = _form_pos(M.s if scaled else M.pos, pf)
    if labels is not None and pf in INTPOS_NARROW and parr.dtype != np.int64:
        labels.add('pos_narrowint')
    atoms = am.Atoms(pos=parr, **props)
    box = _form_box(am, V, o, bf)
    if scaled:
        system = am.System(atoms=atoms, box=box, scale=True)
    elif sf == 'safecopy':
        system = am.System(atoms=atoms, box=box, safecopy=True)
    else:
        system = am.System(atoms=atoms, box=box)
    return system, M


def ucell_labels(u):
    """labels of the generated cell that no history changes"""
    labs = {u['family']}
    if u.get('rot'):
        labs.add('rigid_rot')
    if u.get('lh'):
        labs.add('lefthanded')
    if len(u['atoms']) == 1:
        labs.add('natoms1')
    if len(u['atoms']) >= 3:
        labs.add('natoms3+')
    if len(set(u['types'])) > 1:
        labs.add('multitype')
    if u.get('nearface'):
        labs.add('nearface')
    if u.get('whole'):
        labs.add('whole')
    if u.get('almost'):
        labs.add('almost')
        if max(abs(x) for x in u['almost']) >= 1e-6:
            labs.add('almost_ge1e-6')
    if u.get('sym'):
        labs.add('sym')
        sy = u['sym']
        if sy['rows'] != [0, 1, 2]:
            labs.add('sym_rows')
        elif sy['cols'] == [0, 1, 2] and min(sy['sg']) < 0 and not u.get('rot'):
            labs.add('sym_tri_neg')          # still lower triangular, negative diagonal entries
        if sy['rows'] == [2, 1, 0] and sy['cols'] == [2, 1, 0]:
            labs.add('sym_upper')            # upper triangular
    if u.get('edge'):
        labs.add('edge')
    if u.get('half'):
        labs.add('origin_half')
    labs.update(scale_labels(ucell_scale(u)))
    return labs


def scale_labels(sc):
    """'scaled': the length unit of the case is not 1; 'scale_si': 1e-10 (angstrom-sized cell in metres); scale_small / scale_big"""
    if sc == 1.0:
        return {'scale_1'}
    labs = {'scaled', 'scale_small' if sc < 1.0 else 'scale_big'}
    if sc == 1e-10:
        labs.add('scale_si')
    if sc <= 1e-8:
        labs.add('scale_le_1e-8')
    return labs


def model_labels(M, labels):
    """labels of the cell at the judged call (after the history): where the origin is, atoms exactly on a face"""
    orel = cm.rel_coords(M.o, M.V)
    if np.any(np.abs(orel) > 1.0 + 1e-9):
        labels.add('origin_far')
    elif np.any(M.o != 0):
        labels.add('origin_small')
    if np.any(M.s == 0.0):
        labels.add('onface')


# ----------------------------------------------------------------------------- histories
#
# The property holds for a system whatever happened to it (or in the process) before the judged call.  A history is a
# list of operation dicts interpreted against the real System and the numpy Model side by side:
#   read     derived quantities are read (scaled positions, reciprocal vectors, volume/lattice parameters, family, ...)
#   origin   the box origin ALONE is changed by d (relative): 'scaled' = box_set(origin=, scale=True) (atoms follow);
#            'move' = origin through box_set / Box.set / the origin setter, then atoms.pos += shift in place (same rigid
#            move, other route); 'wrap' = origin changed, atoms stay where they are and are wrapped into the moved cell
#   vects    the cell is replaced by f.R.V (uniform scale f, rigid rotation R; family preserved) keeping the relative
#            coordinates: box_set(vects= / avect=..., [origin=], scale=True), or the vects setter between a scaled read
#            and a scaled write.  Without origin= Box.set puts the origin at (0,0,0) (documented default)
#   pos      positions rewritten (same values) through every public setter, or all atoms shifted rigidly by t
#            (relative, wrapped into the cell by the model's own frac)
#   call     the operations of this property (and wrap / normalize) called before with other arguments, results dropped
#   rebuild  the System is re-built from its parts / deep-copied / re-made from scaled atoms; judged call on the new object
#   other    another System is built and operated on in the same process
# Levels: 'full' everything; 'noshift' (near-face cells, whose coordinates are constructed) no rigid shifts; 'rigid'
# (centering: the motif atom has to stay on the lattice site) no shifts and no 'wrap' origins; 'pure' (reduced-precision
# position arrays, where every write would round again) only operations that write no position; 'noorigin' (primitive cells
# converted with the default check_basis, generated with the origin at zero: see centering_cases) as 'rigid' without origin changes.
H_KINDS = {
    'full': ('read', 'read', 'origin', 'origin', 'origin', 'vects', 'pos', 'pos', 'call', 'call', 'rebuild', 'other'),
    'pure': ('read', 'read', 'call', 'call', 'rebuild', 'other'),
}
H_KINDS['noshift'] = H_KINDS['rigid'] = H_KINDS['full']
H_KINDS['noorigin'] = ('read', 'read', 'vects', 'vects', 'pos', 'call', 'call', 'rebuild', 'other')
H_CALLS = ('supersize', 'supersize', 'rotate', 'wrap', 'normalize', 'p2c')
H_CALLS_PURE = ('supersize', 'supersize', 'rotate', 'normalize', 'p2c', 'supersize')
H_REBUILD = ('deepcopy', 'system', 'scaled', 'newbox', 'safecopy')
H_REBUILD_PURE = ('deepcopy', 'system', 'newbox')
H_POS = ('rewrite_scaled', 'rewrite_view', 'rewrite_prop', 'rewrite_attr', 'shift_scaled', 'shift_inplace', 'shift_prop', 'shift_scaled')
H_TVALS = (0.0, 0.25, 0.5, 1.0 / 3.0)
H_SCALES = (0.5, 0.8, 1.25, 2.0, 1.0, 0.937)


def decode_op(b, level):
    """6 bytes -> one operation dict (JSON-able)"""
    kinds = H_KINDS[level]
    kind = kinds[b[0] % len(kinds)]
    if kind in ('read', 'other'):
        return {'op': kind, 'k': b[1]}
    if kind == 'call':
        calls = H_CALLS_PURE if level == 'pure' else H_CALLS
        return {'op': 'call', 'what': calls[b[1] % len(calls)], 'k': b[2]}
    if kind == 'rebuild':
        hows = H_REBUILD_PURE if level == 'pure' else H_REBUILD
        return {'op': 'rebuild', 'how': hows[b[1] % len(hows)]}
    d = [0.0 if x % 16 == 0 else round(1.9 * x / 255.0 - 0.95, 3) for x in b[3:6]]
    if not any(d):
        d[b[1] % 3] = 0.37
    if kind == 'origin':
        how = ('scaled', 'scaled', 'move', 'wrap')[b[1] % 4]
        if how == 'wrap' and level == 'rigid':
            how = 'move'
        if b[2] >= 224:
            d = [round(20.0 * x, 2) for x in d]          # many cells away
        return {'op': 'origin', 'how': how, 'via': ('box_set', 'set', 'attr')[b[2] % 3],
                'form': ('list', 'array', 'tuple')[(b[2] // 3) % 3], 'd': d}
    if kind == 'vects':
        rot = None
        if b[3] % 3 == 0:
            ax = [b[3] // 3 % 11 - 5, b[4] % 11 - 5, b[5] % 11 - 5]
            rot = [ax if any(ax) else [0, 0, 1], round(1.0 + 179.0 * b[4] / 255.0, 2)]
        return {'op': 'vects', 'how': ('vects', 'avect', 'setter')[b[1] % 3], 'f': H_SCALES[b[2] % len(H_SCALES)],
                'rot': rot, 'd': None if (b[5] % 4 == 0 or level == 'noorigin') else d}
    how = H_POS[b[1] % (len(H_POS) if level == 'full' else 4)]
    t = [H_TVALS[x % 6] if x % 6 < 4 else round(x / 256.0, 3) for x in b[3:6]]
    return {'op': 'pos', 'how': how, 't': t}


def _my_frac(x):
    f = x - np.floor(x)
    f[f >= 1.0] = 0.0
    return f


def _vec_form(x, form):
    if form == 'list':
        return [float(v) for v in x]
    if form == 'tuple':
        return tuple(float(v) for v in x)
    return np.array(x, dtype=float)


def _op_read(am, system, k):
    k = k % 9
    if k == 0:
        system.atoms_prop('pos', scale=True)
    elif k == 1:
        system.box.reciprocal_vects
    elif k == 2:
        b = system.box
        (b.volume, b.a, b.b, b.c, b.alpha, b.beta, b.gamma)
    elif k == 3:
        system.box.identifyfamily()
    elif k == 4:
        system.atoms_df(scale=True)
    elif k == 5:
        system.box.position_cartesian_to_relative(system.box.origin)
    elif k == 6:
        system.box.inside(system.atoms.pos)
    elif k == 7:
        system.atoms_prop(scale=True)
    else:
        system.dvect(0, system.natoms - 1)
        system.box.position_relative_to_cartesian([0.5, 0.5, 0.5])


def _op_other(am, k):
    """process history: another system, scaled reads, its origin moved, replicated and re-oriented"""
    a = 2.0 + (k % 7) * 0.5
    other = am.System(atoms=am.Atoms(atype=[1, 2], pos=[[0.0, 0.0, 0.0], [0.5 * a, 0.5 * a, 0.5 * a]]),
                      box=am.Box.cubic(a))
    other.atoms_prop('pos', scale=True)
    other.box_set(origin=[0.3 * (k % 5), -1.0, 0.25], scale=bool(k % 2))
    other.supersize(2, -1, (-1, 1))
    if k % 3 == 0:
        other.wrap()
        other.rotate([[1, 1, 0], [-1, 1, 0], [0, 0, 1]])


def _op_call(am, system, what, k, labels):
    if what == 'supersize':
        system.supersize(1 + k % 3, -(1 + (k // 3) % 2), (-((k // 6) % 2), 1))
    elif what == 'rotate':
        try:
            system.rotate(CLASSIC[1 + k % (len(CLASSIC) - 1)])
        except ValueError as e:
            # judged only when it is the judged call (oracle_rotate keys it there)
            if 'Filtering failed' not in str(e):
                raise
            labels.add('hist_call_refused')
    elif what == 'wrap':
        system.wrap()
    elif what == 'normalize':
        system.normalize()
    else:
        try:
            system.dump('primitive_to_conventional', setting=('i', 'f', 'c', 'a')[k % 4])
        except ValueError as e:
            if 'Filtering failed' not in str(e):
                raise
            labels.add('hist_call_refused')


def apply_history(am, system, M, hist, labels):
    """interpret the history against the system and the model; returns the system to judge (a rebuild replaces it)"""
    import copy
    for op in hist:
        k = op['op']
        labels.add('hist_' + k)
        if k == 'read':
            _op_read(am, system, op['k'])
        elif k == 'other':
            _op_other(am, op['k'])
        elif k == 'call':
            labels.add('hist_call_' + op['what'])
            _op_call(am, system, op['what'], op['k'], labels)
        elif k == 'rebuild':
            how = op['how']
            if how == 'deepcopy':
                system = copy.deepcopy(system)
            elif how == 'system':
                system = am.System(atoms=system.atoms, box=system.box, pbc=system.pbc, symbols=system.symbols)
            elif how == 'scaled':
                system = am.System(atoms=system.atoms_prop(scale=True), box=system.box, scale=True, symbols=system.symbols)
            elif how == 'newbox':
                system = am.System(atoms=system.atoms, box=am.Box(vects=system.box.vects, origin=system.box.origin))
            elif how == 'safecopy':
                system = am.System(atoms=system.atoms, box=system.box, safecopy=True)
            else:
                raise HarnessError('rebuild %r' % (how,))
        elif k == 'origin':
            d = np.array(op['d'], dtype=float)
            o2 = M.o + d @ M.V
            arg = _vec_form(o2, op['form'])
            how = op['how']
            labels.add('hist_origin_' + how)
            if how == 'scaled':
                system.box_set(origin=arg, scale=True)
            else:
                if op['via'] == 'box_set':
                    system.box_set(origin=arg)
                elif op['via'] == 'set':
                    system.box.set(origin=arg)
                else:
                    system.box.origin = arg
                if how == 'move':
                    system.atoms.pos += (o2 - M.o)
                else:
                    system.wrap()
                    M.s = _my_frac(M.s - d)
            M.o = o2
            M.refresh()
        elif k == 'vects':
            V2 = float(op['f']) * M.V
            if op['rot']:
                V2 = V2 @ gens.rotation_matrix(*op['rot']).T
            how = op['how']
            if how == 'setter':
                spos = system.atoms_prop('pos', scale=True)
                system.box.vects = V2.copy()
                system.atoms_prop('pos', value=spos, scale=True)
                o2 = M.o
            else:
                kw = {}
                if op['d'] is None:
                    o2 = np.zeros(3)
                else:
                    o2 = np.array(op['d'], dtype=float) @ V2
                    kw['origin'] = o2.copy()
                if how == 'vects':
                    system.box_set(vects=V2.copy(), scale=True, **kw)
                else:
                    system.box_set(avect=V2[0].copy(), bvect=V2[1].tolist(), cvect=V2[2].copy(), scale=True, **kw)
            M.V, M.o = V2, o2
            M.refresh()
        elif k == 'pos':
            how = op['how']
            if how.startswith('shift'):
                labels.add('hist_pos_shift')
                M.s = _my_frac(M.s + np.array(op['t'], dtype=float))
            M.refresh()
            if how in ('rewrite_scaled', 'shift_scaled'):
                system.atoms_prop('pos', value=M.s.copy(), scale=True)
            elif how == 'rewrite_view':
                system.atoms.view['pos'] = M.pos.tolist()
            elif how in ('rewrite_prop', 'shift_prop'):
                system.atoms_prop(key='pos', value=M.pos.copy())
            elif how == 'rewrite_attr':
                system.atoms.pos = M.pos.copy()
            elif how == 'shift_inplace':
                system.atoms.pos[:] = M.pos
            else:
                raise HarnessError('pos op %r' % (how,))
        else:
            raise HarnessError('history op %r' % (k,))
    if hist:
        labels.add('hist')
    return system


def prepare(am, case, labels):
    """build the unit cell of a case in its input form, run its history; -> system, Model, snapshot (after the history)"""
    system, M = build_system(am, case['ucell'], case.get('forms'), labels, case.get('props'))
    system = apply_history(am, system, M, case.get('hist') or [], labels)
    model_labels(M, labels)
    return system, M, snapshot(system)


def _scale_note(sc):
    return '' if sc == 1.0 else ' [all lengths of the unit cell in units of %g]' % sc


def snapshot(system):
    return dict(pos=np.array(system.atoms.pos), atype=np.array(system.atoms.atype), tag=np.array(system.atoms.tag),
                vec=np.array(system.atoms.vec), vects=np.array(system.box.vects), origin=np.array(system.box.origin),
                natoms=system.natoms)


def require_untouched(system, snap, what):
    now = snapshot(system)
    for k in ('natoms', 'pos', 'atype', 'tag', 'vec', 'vects', 'origin'):
        require(np.array_equal(np.asarray(now[k]), np.asarray(snap[k])),
                lambda: '%s: the input system was modified (%s changed)' % (what, k))


# ----------------------------------------------------------------------------- strategies for unit cells

# Generation cost matters (Hypothesis spends ~0.1-0.3 ms per primitive draw) and Hypothesis draws integers of
# large ranges with a strong bias to small values, so a unit cell is decoded from lists of *small-range* integers
# (uniform) plus one hash seed that spreads them into quasi-continuous values.
_int10 = st.integers(0, 9)
_byte = st.integers(0, 255)
_hdr = st.lists(_byte, min_size=15, max_size=15)
# overall length scale 10^k (header byte 14 modulo 64): k = 0 in half of the cases (index 0: what cases shrink to), the SI value
# -10 favoured, the rest spread over -12..6; whole-number cells (handed over as integers) only k >= 0
SCALE_K = (0,) * 32 + (-10,) * 10 + (-12, -11, -9, -8, -7, -6, -5, -4, -3, -2, -1, 1, 2, 3, 4, 5, 6, -12, -8, -6, 3, 6)
SCALE_K_WHOLE = (0,) * 32 + (1, 2, 3, 4, 5, 6) * 5 + (1, 6)
assert len(SCALE_K) == 64 and len(SCALE_K_WHOLE) == 64
# classes E / G (see gens_c04): [0] sym on/off, [1..3] sym, [4] almost on/off, [5..10] almost, [11] half-origin on/off, [12] edge on/off
_xhdr = st.binary(min_size=13, max_size=13)
_coords = [None] + [st.lists(_byte, min_size=3 * n, max_size=3 * n) for n in range(1, 6)]
NATOMS = (1, 2, 2, 3, 3, 3, 4, 4, 5, 5)
_rot = gens.rotations(min_angle=1.0)
_family = st.sampled_from(FAMILIES)
_seed = st.integers(0, 10 ** 6)
# distances from a face of the *re-oriented* cell, just inside / just outside each of the documented default
# tolerances of rotate(tol=None) ("tol values ranging from 1e-4 to 1e-8"; the code tries 1e-4, 1e-5, 1e-6, 1e-7)
# (class E: 1e-8, 1e-10, 1e-12 added - far below the last rung, where every tolerance of the ladder rounds the atom to the face)
NEAR_T = (1e-4, 1e-5, 1e-6, 1e-7, 1e-8, 1e-10, 1e-12)
NEAR_F = (0.5, 0.99, 1.005, 1.05, 2.0, 0.99, 1.005)
_near = st.lists(st.integers(0, 2 * 3 * 7 * 7 - 1), min_size=1, max_size=2)


WHOLE_FAMILIES = ('cubic', 'tetragonal', 'orthorhombic')
WHOLE_ABC = {'cubic': [(4, 4, 4), (8, 8, 8), (12, 12, 12)],
             'tetragonal': [(4, 4, 8), (8, 8, 4), (4, 4, 12), (12, 12, 8)],
             'orthorhombic': [(4, 8, 12), (8, 4, 12), (12, 8, 4), (4, 12, 8)]}

# input forms and histories (see build_system / apply_history): one list of bytes each, decoded without further draws
_fbytes = st.lists(_byte, min_size=4, max_size=4)
_hlen = st.sampled_from([0, 0, 0, 1, 1, 2, 2, 3])
_hbytes = [None] + [st.lists(_byte, min_size=6 * n, max_size=6 * n) for n in range(1, 4)]
POS_FORMS = ('float',) * 7 + ('list', 'list', 'fortran', 'strided', 'readonly', 'f32', 'f16', 'f16', 'f32', 'fbe')
POS_FORMS_F64 = ('float',) * 6 + ('list', 'list', 'fortran', 'strided', 'readonly', 'fbe')
BOX_FORMS = ('vects',) * 6 + ('list', 'tuple', 'avects', 'fortran', 'readonly', 'setters', 'set', 'bigend')
WHOLE_POS = INTPOS + INTPOS_NARROW + ('int', 'intlist')          # nine entries
WHOLE_BOX = ('vects', 'intlist', 'list', 'intarr', 'int32', 'int16', 'f32')


def post_level(forms, level='full'):
    """what the operations after the judged call may do (gens_c04.decode_post): no position is written into a read-only or
    reduced-precision array"""
    if forms and (forms['pos'] in LOWPREC or forms['pos'] == 'readonly'):
        return 'pure'
    return level
SYS_FORMS = ('plain',) * 5 + ('scaled', 'scaled', 'safecopy')


def forms_and_history(draw, u, level='full', lowprec=True):
    """-> (forms dict or None, history list): the input form of the unit cell u and what happens to the system before
    the judged call (a plain function of the caller's draw).  About a third of the cases keep the plain float64 forms,
    about 3 in 8 have no history."""
    fb = draw(_fbytes)
    if u.get('whole'):
        forms = {'pos': WHOLE_POS[fb[0] % len(WHOLE_POS)] if fb[0] % 8 else 'float', 'box': WHOLE_BOX[fb[1] % len(WHOLE_BOX)],
                 'sys': 'safecopy' if fb[2] % 8 == 0 else 'plain'}
    elif fb[3] % 3 == 0:
        forms = None
    else:
        pf = POS_FORMS if lowprec else POS_FORMS_F64
        forms = {'pos': pf[fb[0] % len(pf)], 'box': BOX_FORMS[fb[1] % len(BOX_FORMS)], 'sys': SYS_FORMS[fb[2] % len(SYS_FORMS)]}
    if forms and (forms['pos'] in LOWPREC or forms['pos'] == 'readonly'):
        # every position write would round again (reduced precision) / Atoms shares the caller's array unless
        # safecopy=True (documented), so a read-only array cannot be written in place: histories that write no position
        level = 'pure'
    n = draw(_hlen)
    hist = []
    if n:
        hb = draw(_hbytes[n])
        hist = [decode_op(hb[6 * i:6 * i + 6], level) for i in range(n)]
    return forms, hist


def _jit(seed, i):
    """deterministic pseudo-random number in [0,1) from (seed, i)"""
    return ((seed * 2654435761 + (i + 1) * 40503 * 7919 + 12345) % 1000003) / 1000003.0


def _u01(v, seed, i):
    """byte v (uniform 0..255) + hash jitter -> quasi-continuous uniform number in [0,1)"""
    return (v + _jit(seed, i)) / 256.0


def _coord_of(v, seed, i):
    """byte -> relative coordinate: half of the range gives generic 5-digit reals in [0, 0.999], the other half a
    special value (0 twice as likely as each of 1/4, 1/3, 1/2, 2/3, 3/4)"""
    if v < 128:
        return round(0.999 * (v + _jit(seed, 100 + i)) / 128.0, 5)
    return SPECIAL[(v - 128) % len(SPECIAL)]


def _angle_of(u, bands):
    """u in [0,1) -> angle (2 decimals) in one of two bands [(lo,hi),(lo,hi)]"""
    (l1, h1), (l2, h2) = bands
    w1, w2 = h1 - l1, h2 - l2
    x = u * (w1 + w2)
    return round(l1 + x, 2) if x <= w1 else round(l2 + (x - w1), 2)


def _family_abc(fam, lat, ang):
    """lattice parameters with generic, non-coincident values (same ranges as gens.family_params)"""
    a = round(2.0 + 7.0 * lat[0], 3)
    rb = round(1.15 + 0.45 * lat[1], 3)
    rc = round(1.75 + 0.65 * lat[2], 3)
    if fam == 'cubic':
        return [a, a, a, 90.0, 90.0, 90.0]
    if fam == 'tetragonal':
        return [a, a, round(a * rb, 4), 90.0, 90.0, 90.0]
    if fam == 'orthorhombic':
        return [a, round(a * rb, 4), round(a * rc, 4), 90.0, 90.0, 90.0]
    if fam == 'hexagonal':
        return [a, a, round(a * rc, 4), 90.0, 90.0, 120.0]
    if fam == 'rhombohedral':
        al = _angle_of(ang[0], ((35.0, 85.0), (95.0, 115.0)))
        return [a, a, a, al, al, al]
    if fam == 'monoclinic':
        be = _angle_of(ang[0], ((95.0, 135.0), (50.0, 85.0)))
        return [a, round(a * rb, 4), round(a * rc, 4), 90.0, be, 90.0]
    al, be, ga = (_angle_of(x, ((55.0, 85.0), (95.0, 125.0))) for x in ang)
    if len({al, be, ga}) < 3 or not gens.realisable(al, be, ga, 0.05):
        al, be, ga = 81.0, 104.0, 97.0
    return [a, round(a * rb, 4), round(a * rc, 4), al, be, ga]


@st.composite
def ucells(draw, family=None, far_origin=True, allow_lh=True, nearface=None, max_atoms=5, origin=True, whole=False,
           sensitive=False, edge_min=3):
    """sensitive: a tolerance of the code under test decides about the family of this cell (Miller-Bravais rows, check_family):
    the cell stays within 1e-9 of its family and keeps the labels of its vectors.  edge_min: atoms next to a face of the unit cell
    are 10^-k of the cell from it, k = edge_min .. 12.
    nearface: None, or an integer 3x3 matrix U: the atoms are then drawn in the relative coordinates s' of the
    cell U.vects with one or two coordinates each a tolerance-ladder distance from a face of *that* cell, and
    converted to the unit cell (s = frac(s'.U)).
    whole: a cubic / tetragonal / orthorhombic cell in standard orientation whose lattice parameters (4, 8, 12), origin
    and Cartesian atom positions (relative coordinates in quarters) are all whole numbers, so that they can be handed
    over as integer arrays / lists of Python ints"""
    hd = draw(_hdr)
    sd = draw(_seed)
    xh = draw(_xhdr)
    if whole:
        fam = WHOLE_FAMILIES[hd[13] % 3]
        abc = [float(x) for x in WHOLE_ABC[fam][hd[0] % len(WHOLE_ABC[fam])]] + [90.0, 90.0, 90.0]
        n = min(NATOMS[hd[12] % 10], max_atoms)
        cs = draw(_coords[n])
        atoms = [[(cs[3 * i + c] % 4) / 4.0 for c in range(3)] for i in range(n)]
        atoms = [atoms[i] for i in dedupe(atoms)]
        orel = [0.0, 0.0, 0.0]
        if origin and hd[9] % 10 >= 5:
            orel = [float(hd[6 + i] % 7 - 3) for i in range(3)] if (far_origin and hd[9] % 10 >= 8) else \
                   [float(hd[6 + i] % 3 - 1) for i in range(3)]
        u = {'family': fam, 'abc': abc, 'rot': None, 'lh': False, 'orel': orel, 'atoms': atoms,
             'types': [1 + int(3 * _jit(sd, 200 + i)) % 3 for i in range(len(atoms))],
             'vec': [[round(10.0 * _jit(sd, 300 + 3 * i + c) - 5.0, 3) for c in range(3)] for i in range(len(atoms))],
             'whole': True, 'scale': 10.0 ** SCALE_K_WHOLE[hd[14] % 64]}
        if xh[0] % 4 == 1:
            # exact signed permutations keep whole numbers whole (proper ones only: whole cells are right-handed)
            u['sym'] = G4.sym_of(xh[1], xh[2], xh[3], True, False)
        return u
    fam = family or FAMILIES[hd[13] % len(FAMILIES)]
    d_origin, d_rot, d_lh, d_n = hd[9] % 10, hd[10] % 10, hd[11] % 10, hd[12] % 10
    abc = _family_abc(fam, [_u01(hd[i], sd, i) for i in range(3)], [_u01(hd[3 + i], sd, 3 + i) for i in range(3)])
    n = min(NATOMS[d_n], max_atoms)
    cs = draw(_coords[n])
    atoms = [[_coord_of(cs[3 * i + c], sd, 3 * i + c) for c in range(3)] for i in range(n)]
    nf = nearface is not None
    edge = (not nf) and xh[12] % 6 == 1
    if edge:
        # class E: atoms 1e-12 .. 10^-edge_min (relative) from a face of the UNIT cell, either side (one coordinate in three)
        for i in range(n):
            for c in range(3):
                v = cs[3 * i + c]
                if v % 3 == 0:
                    d = 10.0 ** -(edge_min + (v // 3) % (13 - edge_min))
                    atoms[i][c] = 1.0 - d if (v // 64) % 2 else d
    if nf:
        Um = np.array(nearface, dtype=float)
        new = []
        for a in atoms[:4]:
            sp = [min(x, 0.999) for x in a]
            for code in draw(_near):
                k, side, t, f = code % 3, (code // 3) % 2, (code // 6) % 7, (code // 42) % 7
                d = NEAR_T[t] * NEAR_F[f]
                sp[k] = 1.0 - d if side else d
            so = np.array(sp) @ Um
            so = so - np.floor(so)
            so[so >= 1.0] = 0.0
            new.append([float(x) for x in so])
        atoms = new
    keep = dedupe(atoms, 1e-3 if nf else 0.04)
    atoms = [atoms[i] for i in keep]
    types = [1 + int(3 * _jit(sd, 200 + i)) % 3 for i in range(len(atoms))]
    vec = [[round(10.0 * _jit(sd, 300 + 3 * i + c) - 5.0, 3) for c in range(3)] for i in range(len(atoms))]
    orel = [0.0, 0.0, 0.0]
    if origin:
        if d_origin == 9 and far_origin:
            orel = [round(60.0 * _u01(hd[6 + i], sd, 6 + i) - 30.0, 0 if hd[6 + i] % 4 == 0 else 2) for i in range(3)]
        elif d_origin >= 6:
            orel = [round(1.9 * _u01(hd[6 + i], sd, 6 + i) - 0.95, 3) for i in range(3)]
    half = False
    if origin and xh[11] % 8 == 1:
        # class G: origin at exact half lattice vectors (ties of every rounding to the nearest lattice vector)
        orel = [0.5 * (hd[6 + i] % 11 - 5) for i in range(3)] if far_origin else [0.5 * (hd[6 + i] % 3 - 1) for i in range(3)]
        if not any(x % 1.0 for x in orel):
            orel[hd[9] % 3] = 0.5
        half = True
    rot = draw(_rot) if d_rot >= 7 else None
    lh = bool(allow_lh and d_lh == 9)
    u = {'family': fam, 'abc': abc, 'rot': rot, 'lh': lh, 'orel': orel,
         'atoms': atoms, 'types': types, 'vec': vec, 'scale': 10.0 ** SCALE_K[hd[14] % 64]}
    if nf:
        u['nearface'] = True
    if edge:
        u['edge'] = True
    if half:
        u['half'] = True
    if rot is None and xh[0] % 4 == 1:
        u['sym'] = G4.sym_of(xh[1], xh[2], xh[3], not sensitive, allow_lh)
    if not nf and xh[4] % 5 == 1:
        u['almost'] = G4.almost_of(xh[5:11], sensitive)
    return u


# ----------------------------------------------------------------------------- shared result checks

def unequal_props(res, snap, index, tagdiv=1):
    """problems (strings) among matched pairs (result atom i, original atom index[i]); vectorised.
    tagdiv=k: tags are compared as tag//k (the k centering copies of one motif atom carry consecutive tags; a
    primitive cell keeps one representative of them, so only the motif atom can be recovered from a round trip)"""
    rt, rg, rv = np.asarray(res.atoms.atype), np.asarray(res.atoms.tag), np.asarray(res.atoms.vec)
    index = np.asarray(index)
    ok = index >= 0
    j = np.where(ok, index, 0)
    bad_t = ok & (rt.astype(np.int64) != np.asarray(snap['atype']).astype(np.int64)[j])
    bad_g = ok & (rg.astype(np.int64) // tagdiv != np.asarray(snap['tag']).astype(np.int64)[j] // tagdiv)
    bad_v = ok & np.any(rv != np.asarray(snap['vec'])[j], axis=1)
    out = []
    for nm, bad, r, o in (('atype', bad_t, rt, snap['atype']), ('tag', bad_g, rg, snap['tag']), ('vec', bad_v, rv, snap['vec'])):
        w = np.where(bad)[0]
        if len(w):
            i = int(w[0])
            out.append('%d atoms carry a %s different from the original atom they map onto (e.g. atom #%d -> original #%d: %r != %r)'
                       % (len(w), nm, i, int(index[i]), np.asarray(r[i]).tolist(), np.asarray(o[int(index[i])]).tolist()))
    return out


def require_props_present(res, what):
    keys = list(res.atoms_prop())
    for k in ('atype', 'pos', 'tag', 'vec'):
        require(k in keys, lambda: '%s: per-atom property %r missing from the result (has %r)' % (what, k, keys))
    require(np.asarray(res.atoms.vec).shape == (res.natoms, 3),
            lambda: '%s: vec property has shape %r' % (what, np.asarray(res.atoms.vec).shape))


def require_rotation(T, what, floor=0.0):
    """floor: allowance for Box's documented clean-up of components below 1e-9 of the largest one (class E cells only)"""
    T = np.asarray(T, dtype=float)
    require(T.shape == (3, 3) and np.all(np.isfinite(T)), lambda: '%s: transform is not a finite 3x3 array: %r' % (what, T))
    e = np.abs(T.T @ T - np.eye(3)).max()
    require(e <= 1e-8 + floor, lambda: '%s: returned transform is not orthogonal (|T^t T - I| = %.3g)\n%r' % (what, e, T))
    d = float(np.linalg.det(T))
    require(abs(d - 1.0) <= 1e-8, lambda: '%s: returned transform is not a proper rotation (det = %.10g)' % (what, d))
    return T


def require_lammps_inside(res, what, band=1e-7):
    B = np.asarray(res.box.vects, dtype=float)
    bo = np.asarray(res.box.origin, dtype=float)
    bmax = np.abs(B).max()
    require(abs(B[0, 1]) <= 1e-9 * bmax and abs(B[0, 2]) <= 1e-9 * bmax and abs(B[1, 2]) <= 1e-9 * bmax
            and B[0, 0] > 0 and B[1, 1] > 0 and B[2, 2] > 0,
            lambda: '%s: result box is not LAMMPS-compatible (lower triangular, positive diagonal):\n%r' % (what, B))
    sp = cm.rel_coords(np.asarray(res.atoms.pos, dtype=float), B, bo)
    require(sp.size == 0 or (sp.min() >= -band and sp.max() <= 1.0 + band),
            lambda: '%s: atoms outside the result cell: relative coordinates range [%.9g, %.9g]' % (what, sp.min(), sp.max()))
    return B, bo


def map_back(motif, snap, res, T, o_old, mult, what, check_new_lattice=True, tagdiv=1):
    """result atoms taken back through the rotation T (rows: r' T = (T^t r')) must be `mult` copies of the motif.
    Reading 1: absolute coordinates.  Reading 2 (only tried when a box origin is non-zero): box-relative."""
    B = np.asarray(res.box.vects, dtype=float)
    bo = np.asarray(res.box.origin, dtype=float)
    pos = np.asarray(res.atoms.pos, dtype=float)
    kw = dict(mult=mult)
    if check_new_lattice:
        kw.update(newV=B, new_origin=bo, new_pos=pos)
    rep = cm.compare_crystal(motif, pos @ T, **kw)
    rep.problems.extend(unequal_props(res, snap, rep.match.index, tagdiv))
    reading = 1
    if not rep.ok and (np.any(o_old != 0) or np.any(bo != 0)):
        rep2 = cm.compare_crystal(motif, (pos - bo) @ T + o_old, **kw)
        rep2.problems.extend(unequal_props(res, snap, rep2.match.index, tagdiv))
        if rep2.ok:
            rep, reading = rep2, 2
    require(rep.ok, lambda: '%s: not the same crystal: %s' % (what, ' ; '.join(rep.problems)[:1500]))
    return reading, rep


def match_tol(*arrays, unit=1.0):
    """matching distance: 1e-7 of the largest length in the case (cell, origins, positions), at least 1e-7 length units"""
    L = max([1.0 * unit] + [float(np.abs(np.asarray(a)).max()) for a in arrays if np.asarray(a).size])
    return 1e-7 * L


# ----------------------------------------------------------------------------- working units (class D)
#
# Nothing under this property converts units, but conventional_to_primitive has two defaults that are lengths in WORKING units
# (atol = 1e-8, smallshift = 0.001) and Box / rotate decide with tolerances of their own.  A case with a unit plan is judged - by the
# same oracle - first under the default configuration (plan['pre']), then after atomman.unitconvert.reset_units(<cfg>) with every
# length of the case multiplied by numericalunits.angstrom (my own product: the same physical cell in the new working units).  The
# default configuration is ALWAYS restored: the cases of a shard share one process.

def with_units(case, run):
    plan = case.get('units')
    if not plan:
        return run(case)
    import atomman.unitconvert as uc
    import numericalunits as nu
    base = dict(case, units=None)
    cfg = plan['cfg']
    try:
        if plan.get('pre'):
            try:
                run(base)
            except Violation as v:
                raise Violation('%s [under the default working units; the same case was to be judged again after %s]'
                                % (v.detail, G4.cfg_text(cfg)), key=v.key) from None
        G4.apply_units(uc, cfg)
        A = float(nu.angstrom)
        u2 = dict(case['ucell'], scale=ucell_scale(case['ucell']) * A)
        try:
            labels = set(run(dict(base, ucell=u2)))
        except Violation as v:
            raise Violation('%s [under %s, every length of the case multiplied by numericalunits.angstrom = %r%s]'
                            % (v.detail, G4.cfg_text(cfg), A, ', after the same case under the default working units' if plan.get('pre') else ''),
                            key=v.key) from None
        labels |= {'units', 'units_' + cfg['kind']}
        if plan.get('pre'):
            labels.add('units_pre')
        return labels
    finally:
        G4.restore_units(uc)


# ----------------------------------------------------------------------------- after the judged call (classes A and B)

def args_frozen(args):
    """[(name, object)] -> frozen copies of the array / list / tuple arguments of a call"""
    out = {}
    for name, a in args:
        if isinstance(a, np.ndarray):
            out[name] = ('array', a.dtype.str, a.shape, np.ascontiguousarray(a).tobytes())
        else:
            out[name] = ('repr', repr(a))
    return out


def require_args_untouched(args, frozen, what):
    now = args_frozen(args)
    for name, _ in args:
        require(now[name] == frozen[name], lambda: '%s: the argument %s was modified by the call (it is no longer what the caller handed in)' % (what, name))


class PostCtx:
    """what the operations after the judged call need from the oracle:
    call(system, keep) -> out   the judged call again, with FRESH argument objects (appended to keep as (name, object)), on `system`
    judge(out, M, snap)         the oracle of the clause: out is the answer for the unit cell M / the system snapshot snap
    first                       the answer that was judged; args: the argument objects it was given"""

    def __init__(self, am, case, labels, what, sys0, M, snap, first, args, call, judge, level):
        self.am, self.case, self.labels, self.what = am, case, labels, what
        self.sys0, self.M, self.snap, self.first, self.args = sys0, M, snap, first, args
        self.call, self.judge, self.level = call, judge, level


def _twin_system(am, case):
    """another system of the same shape: the unit cell of the case 1.37 (whole cells: 2) times larger, other property values"""
    u = case['ucell']
    f = 2.0 if u.get('whole') else 1.37
    u2 = dict(u, abc=[round(x * f, 6) for x in u['abc'][:3]] + list(u['abc'][3:]),
              vec=[[round(-2.0 * x + 1.0, 3) for x in r] for r in u['vec']])
    twin, _ = build_system(am, u2)
    twin.atoms.tag += 100
    return twin


def run_post(ctx):
    """classes A (ledger) and B (caller-side mutation): see gens_c04.POST_KINDS"""
    am, labels, what = ctx.am, ctx.labels, ctx.what
    led = G4.Ledger()
    sys0, cur = ctx.sys0, ctx.first
    M = Model(ctx.M.V, ctx.M.o, ctx.M.s)
    M.pos = ctx.M.pos.copy()
    snap = ctx.snap
    led.add('the system the call was made on', sys0)
    led.add('the answer of the judged call', cur)
    for nm, x in getattr(ctx, 'extra_outs', ()):
        led.add(nm, x)
    cur_frozen = G4.freeze(cur)
    pair = G4.share_memory(cur, sys0)
    require(pair is None, lambda: '%s: the returned %s shares memory with %s of the system the call was made on' % (what, pair[0], pair[1]))
    labels.add('post')

    def again(after):
        keep = []
        out = ctx.call(sys0, keep)
        if out is None:
            return None
        k = G4.first_difference(cur_frozen, G4.freeze(out), bitwise=False)
        require(k is None, lambda: '%s: the same call on the same system, %s, gives another answer: %s differs' % (what, after, k))
        pr = G4.share_memory(out, cur)
        require(pr is None, lambda: '%s: two calls returned objects that share memory (%s / %s)' % (what, pr[0], pr[1]))
        led.add('the answer of the repeated call', out)
        return out

    for op in ctx.case['post']:
        kind = op['op']
        labels.add('post_' + kind)
        after = 'post operation %r' % (op,)
        if kind == 'again':
            again('called a second time')
        elif kind == 'twin':
            twin = _twin_system(am, ctx.case)
            out = ctx.call(twin, [])
            if out is not None:
                led.add('the answer of the same call on another system of the same shape', out)
                led.add('the other system of the same shape', twin)
                r2 = out[0]
                require(set(np.asarray(r2.atoms.tag).tolist()) <= set(np.asarray(twin.atoms.tag).tolist()),
                        lambda: '%s: the same call on another system returned tags %r that are not tags of that system'
                        % (what, sorted(set(np.asarray(r2.atoms.tag).tolist()))[:8]))
        elif kind == 'other':
            _op_other(am, op['k'])
            _op_call(am, sys0, H_CALLS_PURE[op['k'] % len(H_CALLS_PURE)], op['k'] // 7, labels)
        elif kind == 'mut_args':
            n_mut = 0
            for name, a in ctx.args:
                if isinstance(a, np.ndarray) and a.flags.writeable:
                    a[...] = 0
                    n_mut += 1
                elif isinstance(a, list):
                    del a[:]
                    n_mut += 1
            if n_mut:
                labels.add('post_mut_args_live')
            led.verify(after, what)
            again('after the caller overwrote the argument objects of the first call in place')
        elif kind == 'mut_in':
            how = op['how']
            labels.add('post_mut_in_' + how)
            if how.startswith('pos'):
                M.s = _my_frac(M.s + np.array(op['t'], dtype=float))
                M.refresh()
                if how == 'pos_inplace':
                    sys0.atoms.pos[:] = M.pos
                elif how == 'pos_prop':
                    sys0.atoms_prop(key='pos', value=M.pos.copy())
                else:
                    sys0.atoms_prop('pos', value=M.s.copy(), scale=True)
            elif how == 'props':
                sys0.atoms.tag[:] = np.array(sys0.atoms.tag)[::-1]
                sys0.atoms.vec[:] = -np.array(sys0.atoms.vec)[::-1]
            elif how == 'box':
                V2, o2 = 1.25 * M.V, 1.25 * M.o
                sys0.box_set(vects=V2.copy(), origin=o2.copy(), scale=True)
                M.V, M.o = V2, o2
                M.refresh()
            else:
                raise HarnessError('mut_in %r' % (how,))
            led.forget(sys0)
            led.verify(after, what)
            snap = snapshot(sys0)
            led.add('the system the call was made on (as changed by the caller)', sys0)
            keep = []
            out = ctx.call(sys0, keep)
            if out is not None:
                ctx.judge(out, M, snap, ' [called again after the caller changed the system: %r]' % (op,))
                led.add('the answer after the caller changed the system', out)
                cur, cur_frozen = out, G4.freeze(out)
                labels.add('post_rejudged')
            else:
                cur = None
        elif kind == 'mut_out':
            if cur is None:
                continue
            led.forget(cur)
            for x in cur:
                if x is None:
                    continue
                if isinstance(x, np.ndarray):
                    x[...] = 0.0
                    continue
                if op['how'] == 'inplace':
                    x.atoms.pos[:] = 7.7
                    x.atoms.tag[:] = 1
                    x.atoms.vec[:] = 0.5
                    x.atoms.atype[:] = 1
                else:
                    x.atoms.pos = np.full((x.natoms, 3), -3.3)
                    x.atoms_prop(key='tag', value=np.zeros(x.natoms, dtype=int))
                    x.atoms.view['vec'] = np.ones((x.natoms, 3))
                x.box_set(vects=[[3.3, 0.0, 0.0], [0.1, 4.4, 0.0], [0.2, 0.3, 5.5]], origin=[1.0, 2.0, 3.0])
            require_untouched(sys0, snap, what + ' [after the caller overwrote the returned objects in place]')
            led.verify(after, what)
            out = again('after the caller overwrote the objects the first call returned')
            cur = out
            if out is None:
                continue
        else:
            raise HarnessError('post op %r' % (kind,))
        led.verify(after, what)
        if cur is None:
            break


# ----------------------------------------------------------------------------- supersize

KMAP =(2, 1, 3, 1, 2, 4, 5, 6)          # byte % 8 -> multiplier (Hypothesis over-produces the minimal draw: make it 2, not 1)
_kind = st.sampled_from(['pos', 'pos', 'neg', 'two', 'two', 'tuple_pos', 'tuple_neg', 'np', 'np32', 'nptuple',
                         'narrow', 'narrow', 'narrowtuple'])


@st.composite
def supersize_cases(draw):
    u = draw(ucells(far_origin=True, whole=draw(_int10) == 0))
    ks = [KMAP[draw(_byte) % 8] for _ in range(3)]
    while ks[0] * ks[1] * ks[2] > 60:
        i = ks.index(max(ks))
        ks[i] -= 1
    sizes = []
    for k in ks:
        kind = draw(_kind)
        r = draw(_byte)
        if kind == 'pos':
            sizes.append({'f': 'int', 'v': k})
        elif kind == 'neg':
            sizes.append({'f': 'int', 'v': -k})
        elif kind in ('np', 'np32'):
            sizes.append({'f': kind, 'v': k if r % 2 else -k})
        elif kind == 'narrow':
            # class C: numpy integer scalars of every width, unsigned for positive multipliers
            sizes.append({'f': G4.SIZE_NARROW[(r // 2) % len(G4.SIZE_NARROW)], 'v': k if r % 2 else -k})
        elif kind == 'narrowtuple':
            j = 1 + r % (k - 1) if k > 1 else r % 2
            sizes.append({'f': 'narrowtuple', 'v': [-j, k - j]})
        elif kind == 'tuple_pos':
            sizes.append({'f': 'tuple', 'v': [0, k]})
        elif kind == 'tuple_neg':
            sizes.append({'f': 'tuple', 'v': [-k, 0]})
        else:
            j = 1 + r % (k - 1) if k > 1 else r % 2
            sizes.append({'f': 'nptuple' if kind == 'nptuple' else 'tuple', 'v': [-j, k - j]})
    forms, hist = forms_and_history(draw, u)
    case = {'ucell': u, 'sizes': sizes, 'forms': forms, 'hist': hist}
    case.update(G4.extras(draw, u, post_level(forms)))
    return case


def _size_arg(sz):
    """the multiplier in its documented form ("int or tuple of int"; numpy integers are accepted as ints)"""
    if sz['f'] == 'int':
        return int(sz['v']), (min(sz['v'], 0), max(sz['v'], 0))
    if sz['f'] == 'np':
        return np.int64(sz['v']), (min(sz['v'], 0), max(sz['v'], 0))
    if sz['f'] == 'np32':
        return np.int32(sz['v']), (min(sz['v'], 0), max(sz['v'], 0))
    if sz['f'] == 'nptuple':
        return (np.int64(sz['v'][0]), np.int32(sz['v'][1])), (int(sz['v'][0]), int(sz['v'][1]))
    if sz['f'] in G4.SIZE_NARROW:
        return G4.size_scalar(int(sz['v']), sz['f']), (min(sz['v'], 0), max(sz['v'], 0))
    if sz['f'] == 'narrowtuple':
        return (np.int8(sz['v'][0]), np.uint16(sz['v'][1])), (int(sz['v'][0]), int(sz['v'][1]))
    return (int(sz['v'][0]), int(sz['v'][1])), (int(sz['v'][0]), int(sz['v'][1]))


def _judge_supersize(res, snap, V, o, pos0, los, ks, what, sc):
    """the supersize oracle: res is the unit cell (V, o, pos0; per-atom data in snap) replicated ks times from los"""
    n = ks[0] * ks[1] * ks[2]
    N = len(pos0)
    require(res.natoms == N * n, lambda: '%s: %d atoms, expected %d x %d' % (what, res.natoms, N, n))
    require_props_present(res, what)
    B = np.asarray(res.box.vects, dtype=float)
    bo = np.asarray(res.box.origin, dtype=float)
    expB = V * np.array(ks, dtype=float)[:, None]
    expo = o + np.array(los, dtype=float) @ V
    e = np.abs(B - expB).max()
    require(e <= 1e-8 * np.abs(expB).max(), lambda: '%s: box vectors\n%r\nexpected multiples of the original\n%r' % (what, B, expB))
    eo = np.abs(bo - expo).max()
    require(eo <= 1e-10 * (np.abs(expo).max() + np.abs(expB).max()),
            lambda: '%s: box origin %r, expected origin + (negative multipliers).vects = %r' % (what, bo.tolist(), expo.tolist()))
    vol0 = abs(float(np.linalg.det(V)))
    vol = abs(float(np.linalg.det(B)))
    require(abs(vol - n * vol0) <= 1e-8 * n * vol0, lambda: '%s: volume %.12g, expected %d x %.12g' % (what, vol, n, vol0))
    bvol = float(res.box.volume)
    require(abs(bvol - n * vol0) <= 1e-8 * n * vol0, lambda: '%s: box.volume %.12g, expected %d x %.12g' % (what, bvol, n, vol0))
    tol = match_tol(expB, expo, o, unit=sc)
    motif = cm.Motif(V, o, pos0, tol)
    # absolute positions, no rotation
    rep = cm.compare_crystal(motif, np.asarray(res.atoms.pos, dtype=float), mult=n, newV=B, new_origin=bo)
    rep.problems.extend(unequal_props(res, snap, rep.match.index))
    require(rep.ok, lambda: '%s: not the same crystal: %s' % (what, ' ; '.join(rep.problems)[:1500]))
    # replication only adds whole lattice vectors to positions that are stored as they were given: the replicas sit on
    # the original atoms to double precision (worst seen in 3000 cases: 7e-16 L cond), not merely within the matching tolerance
    ptol = 1e-9 * (tol / 1e-7) * max(1.0, float(np.linalg.cond(V)))
    require(rep.maxdist <= ptol,
            lambda: '%s: replicas lie up to %.3g from the original atoms modulo the lattice: positions were not carried in '
                    'double precision (bound %.3g; result pos dtype %s)' % (what, rep.maxdist, ptol, np.asarray(res.atoms.pos).dtype))


def oracle_supersize(case):
    return with_units(case, _oracle_supersize)


def _oracle_supersize(case):
    import atomman as am
    u = case['ucell']
    labels = ucell_labels(u)
    sys0, M, snap = prepare(am, case, labels)
    V, o, pos0 = M.V, M.o, M.pos
    args, los, ks = [], [], []
    for sz in case['sizes']:
        a, (lo, hi) = _size_arg(sz)
        args.append(a); los.append(lo); ks.append(hi - lo)
        labels.add('arg_' + ('np' if sz['f'].startswith('np') else 'narrow' if sz['f'].startswith('narrow') else sz['f']))
        if sz['f'] in G4.SIZE_NARROW or sz['f'] == 'narrowtuple':
            labels.update({'arg_np', 'arg_narrow'})
    n = ks[0] * ks[1] * ks[2]
    named = [('multiplier %d' % i, a) for i, a in enumerate(args)]
    frozen = args_frozen(named)
    res = sys0.supersize(*args)
    sc = ucell_scale(u)
    what = 'supersize%r' % (tuple(args),) + _scale_note(sc)
    if case.get('hist') or case.get('forms') or case.get('props'):
        what += ' [unit cell given as %r, per-atom properties as %r, after the history %r]' % (
            case.get('forms') or DEFAULT_FORMS, case.get('props'), case.get('hist'))
    require_args_untouched(named, frozen, what)
    require_untouched(sys0, snap, what)
    _judge_supersize(res, snap, V, o, pos0, los, ks, what, sc)
    if n > 1:
        labels.add('replicated')
    neg = any(lo < 0 for lo in los)
    if neg:
        labels.add('negative')
    if any(lo < 0 < lo + k for lo, k in zip(los, ks)):
        labels.add('two_sided')
    if len(set(ks)) == 3:
        labels.add('mults_distinct')
    if n > 1 and neg:
        labels.add('nt')
    if case.get('post'):
        def call(system, keep):
            return (system.supersize(*[_size_arg(sz)[0] for sz in case['sizes']]),)

        def judge(out, M2, snap2, note):
            _judge_supersize(out[0], snap2, M2.V, M2.o, M2.pos, los, ks, what + note, sc)
        run_post(PostCtx(am, case, labels, what, sys0, M, snap, (res,), named, call, judge, 'full'))
    return labels


# ----------------------------------------------------------------------------- rotate

def _signperms():
    out = []
    for p in itertools.permutations(range(3)):
        for sg in itertools.product((1, -1), repeat=3):
            M = [[0, 0, 0] for _ in range(3)]
            for i in range(3):
                M[i][p[i]] = sg[i]
            out.append(M)
    return out


SIGNPERMS = _signperms()
CLASSIC = [
    [[1, 0, 0], [0, 1, 0], [0, 0, 1]],
    [[1, 1, 0], [-1, 1, 0], [0, 0, 1]],
    [[1, 1, 1], [1, -1, 0], [1, 1, -2]],
    [[1, -1, 0], [1, 1, -2], [1, 1, 1]],
    [[1, 1, -2], [1, 1, 1], [1, -1, 0]],
    [[1, 2, 1], [-1, 0, 1], [1, -1, 1]],
    [[2, 0, 0], [0, 1, 0], [0, 0, 3]],
    [[0, 1, 1], [1, 0, 1], [1, 1, 0]],
    [[-1, 1, 1], [1, -1, 1], [1, 1, -1]],
    [[1, 0, 0], [0, 1, 0], [1, 1, 2]],
    [[1, 0, 0], [0, 1, 0], [0, 0, -1]],
]
_mat3 = st.lists(st.lists(st.integers(-3, 3), min_size=3, max_size=3), min_size=3, max_size=3)
_mat4 = st.lists(st.lists(st.integers(-4, 4), min_size=3, max_size=3), min_size=3, max_size=3)
_mat2 = st.lists(st.lists(st.integers(-2, 2), min_size=3, max_size=3), min_size=3, max_size=3)
_mkind = st.sampled_from(['rand'] * 7 + ['rand4'] * 2 + ['classic', 'signperm', 'diag', 'tri'])
# class G: lower / upper triangular vector sets with negative entries (already "in normal form" for a cell in LAMMPS orientation)
_tri = st.lists(st.integers(-3, 3), min_size=7, max_size=7)
_signperm = st.sampled_from(SIGNPERMS)
_classic = st.sampled_from(CLASSIC)
_diag = st.lists(st.sampled_from([-3, -2, -1, 1, 2, 3]), min_size=3, max_size=3)


def _valid(M, maxdet=24):
    d = idet(M)
    return d != 0 and abs(d) <= maxdet


@st.composite
def int_matrices(draw):
    kind = draw(_mkind)
    if kind == 'classic':
        return draw(_classic)
    if kind == 'signperm':
        return draw(_signperm)
    if kind == 'diag':
        d = list(draw(_diag))
        if abs(d[0] * d[1] * d[2]) > 24:
            d[2] = 2 if d[2] > 0 else -2
        return [[d[0], 0, 0], [0, d[1], 0], [0, 0, d[2]]]
    if kind == 'tri':
        t = draw(_tri)
        d = [x if x else (-1 if t[6] % 2 else 1) for x in t[:3]]
        if abs(d[0] * d[1] * d[2]) > 24:
            d[2] = 2 if d[2] > 0 else -2
        M = [[d[0], 0, 0], [t[3], d[1], 0], [t[4], t[5], d[2]]]
        return [list(r) for r in zip(*M)] if t[6] < 0 else M
    src = _mat4 if kind == 'rand4' else _mat3
    for _ in range(6):
        M = draw(src)
        if _valid(M):
            return M
    return [[1, 1, 0], [-1, 1, 0], [0, 0, 1]]


@st.composite
def hex_matrices(draw):
    """3x4 Miller-Bravais rows [u,v,t,w] with t = -(u+v)"""
    for _ in range(6):
        M = draw(_mat2)
        if _valid(M, 8):
            break
    else:
        M = [[1, 0, 0], [0, 1, 0], [0, 0, 1]]
    return [[r[0], r[1], -(r[0] + r[1]), r[2]] for r in M]


_uform = st.sampled_from(['list', 'list', 'array', 'float', 'float', 'tuple', 'fortran', 'readonly', 'int32', 'strided', 'npscalars',
                          'narrow', 'narrow', 'narrow', 'noisy'])
_unarrow = st.sampled_from(G4.UVWS_NARROW)
# rotate(uvws, tol=None, return_transform=False): the documented default of tol written out in the accepted forms
# ("list or float"), and the call without return_transform
_ropt = st.sampled_from([None] * 6 + ['tol_list', 'tol_tuple', 'tol_array', 'no_transform', 'no_transform', 'tol_list_no_transform'])
TOL_LADDER = (1e-4, 1e-5, 1e-6, 1e-7)
# Reduced-precision position arrays (float32 / float16) are judged for every vector set but the identity: there rotate()
# takes its documented "no rotation shortcut" (a deep copy, same dtype) and normalize wraps the atoms in place, so the
# result is only as precise as the dtype the caller chose (one float16 ulp, 2e-4 at 2 A, seen on the unchanged code).
# That is the precision of the input, not a defect; every other vector set goes through supersize, whose result is float64.
IDENTITY = [[1, 0, 0], [0, 1, 0], [0, 0, 1]]


def _uform_of(draw):
    f = draw(_uform)
    return draw(_unarrow) if f == 'narrow' else f


@st.composite
def rotate_cases(draw):
    k = draw(_int10)
    nf = draw(_int10) == 0
    whole = (not nf) and k >= 2 and draw(_int10) == 0
    level = 'noshift' if nf else 'full'
    if k <= 1 and draw(_int10) < 6:
        uv = draw(hex_matrices())
        U = hex4to3(uv)
        # 3x4 rows: rotate() decides with a tolerance whether the cell is hexagonal (sensitive: the cell stays within 1e-9 of it)
        u = draw(ucells(family='hexagonal', nearface=U if nf else None, sensitive=True))
    else:
        uv = draw(int_matrices())
        U = [list(r) for r in uv]
        u = draw(ucells(family='hexagonal' if k <= 1 else None, nearface=uv if nf else None, whole=whole))
    forms, hist = forms_and_history(draw, u, level, lowprec=not nf and U != IDENTITY)
    case = {'ucell': u, 'uvws': uv, 'form': _uform_of(draw), 'opt': draw(_ropt), 'forms': forms, 'hist': hist}
    case.update(G4.extras(draw, u, 'fixed' if nf else post_level(forms)))
    return case


def _uvws_arg(uvws, form):
    """uvws : "array-like object ... Values must be integers" """
    if form == 'list':
        return [[int(x) for x in r] for r in uvws]
    if form == 'tuple':
        return tuple(tuple(int(x) for x in r) for r in uvws)
    if form in G4.UVWS_NARROW:
        # class C: int8 / int16 / unsigned / big-endian / bool / float32 / float16 arrays holding the same integers
        return G4.uvws_narrow(uvws, form)
    if form == 'noisy':
        # class E: the integers with floating-point noise (1e-15 .. 1e-10 relative), as a computed vector set carries them
        return G4.uvws_noisy(uvws, 1000 + sum((3 * i + 1) * int(x) for i, r in enumerate(uvws) for x in r))
    if form == 'npscalars':
        return [[np.int64(x) for x in r] for r in uvws]
    if form == 'array':
        return np.array(uvws, dtype=np.int64)
    if form == 'int32':
        return np.array(uvws, dtype=np.int32)
    if form == 'fortran':
        return np.asfortranarray(np.array(uvws, dtype=np.int64))
    if form == 'readonly':
        a = np.array(uvws, dtype=np.int64)
        a.setflags(write=False)
        return a
    if form == 'strided':
        a = np.array(uvws, dtype=np.int64)
        big = np.full((2 * a.shape[0], 2 * a.shape[1]), 77, dtype=np.int64)
        big[::2, ::2] = a
        return big[::2, ::2]
    return np.array(uvws, dtype=float)


def _rotate_kwargs(opt):
    kw = {}
    if opt and opt.startswith('tol_'):
        kw['tol'] = {'tol_list': list(TOL_LADDER), 'tol_tuple': tuple(TOL_LADDER), 'tol_array': np.array(TOL_LADDER),
                     'tol_list_no_transform': list(TOL_LADDER)}[opt]
    return kw


def _rotate_call(am, system, case, labels, what, det, keep=None, plain=False):
    """the judged call; keep: the argument objects handed over are appended as (name, object).  plain=True: the call with
    return_transform=True only (the calls after the judged one)"""
    uv, opt = case['uvws'], case.get('opt')

    def args():
        a = _uvws_arg(uv, case['form'])
        kw = _rotate_kwargs(opt)
        if keep is not None:
            keep.append(('uvws', a))
            if 'tol' in kw:
                keep.append(('tol', kw['tol']))
        return a, kw
    try:
        if opt and opt.endswith('no_transform') and not plain:
            # the judged result is the one of the plain call; the rotation comes from a second, identical call
            a, kw = args()
            res = system.rotate(a, **kw)
            require(isinstance(res, am.System), lambda: '%s without return_transform returned %r' % (what, type(res)))
            a, kw = args()
            out2 = system.rotate(a, return_transform=True, **kw)
            require(isinstance(out2, tuple) and len(out2) == 2, lambda: '%s with return_transform=True returned %r' % (what, type(out2)))
            require(res.natoms == out2[0].natoms and np.array_equal(res.atoms.pos, out2[0].atoms.pos)
                    and np.array_equal(res.box.vects, out2[0].box.vects) and np.array_equal(res.box.origin, out2[0].box.origin),
                    lambda: '%s: the system returned without return_transform differs from the one returned with it' % what)
            out = (res, out2[1])
        else:
            a, kw = args()
            out = system.rotate(a, return_transform=True, **kw)
    except ValueError as e:
        if 'Filtering failed' in str(e):
            key = None
            if 'origin_far' in labels:
                key = K_FAR
            elif 'nearface' in labels:
                key = K_NEAR
            raise Violation('%s raised ValueError(%s) for a valid integer matrix of determinant %d (not a documented refusal)'
                            % (what, e, det), key=key)
        raise
    require(isinstance(out, tuple) and len(out) == 2, lambda: '%s with return_transform=True returned %r' % (what, type(out)))
    return out


def _judge_rotate(out, snap, V, o, pos0, U, what, sc, labels=None, almost=False):
    """the rotate oracle: out = (system, transform) is the unit cell (V, o, pos0; per-atom data in snap) re-expressed along U.V.
    almost: the unit cell is of class E (1e-12 .. 1e-3 from a more symmetric one): a vector of the new cell can then have a component
    below 1e-9 of its largest one, which Box sets to zero (see ucell_numbers); the volume of a flat new cell follows that change of
    up to 1e-9 max|W| in first order, |dvol| / vol <= 3e-9 cond(W) - the cells of the other classes have no such components"""
    res, T = out
    det = idet(U.tolist())
    # an almost-symmetric cell: a zeroed component of up to 1e-9 max|W| turns a new cell vector by up to 1e-9 cond(W)
    T = require_rotation(T, what, floor=(4e-9 * float(np.linalg.cond(np.asarray(U, dtype=float) @ V)) if almost else 0.0))
    N = len(pos0)
    n = abs(det)
    require(res.natoms == N * n, lambda: '%s: %d atoms, expected %d x |det| = %d' % (what, res.natoms, N, N * n))
    require_props_present(res, what)
    B, bo = require_lammps_inside(res, what)
    # new box rows are the rotated integer combinations (third one reversed if they form a left-handed set)
    W = U.astype(float) @ V
    if np.linalg.det(W) < 0:
        W[2] = -W[2]
        if labels is not None:
            labels.add('cflip')
    condW = float(np.linalg.cond(W))
    expB = W @ T.T
    tolB = (1e-8 + 40 * EPS * condW ** 2) * np.abs(W).max()
    e = np.abs(B - expB).max()
    require(e <= tolB, lambda: '%s: result box rows\n%r\nare not T.(uvws.vects) =\n%r\n(max diff %.3g, tol %.3g)' % (what, B, expB, e, tolB))
    vol0 = abs(float(np.linalg.det(V)))
    vol = abs(float(np.linalg.det(B)))
    require(abs(vol - n * vol0) <= (1e-8 + 40 * EPS * condW ** 2 + (4e-9 * condW if almost else 0.0)) * n * vol0,
            lambda: '%s: volume %.12g, expected |det| x original = %d x %.12g' % (what, vol, n, vol0))
    tol = match_tol(W, o, bo, res.atoms.pos, unit=sc)
    motif = cm.Motif(V, o, pos0, tol)
    try:
        reading, rep = map_back(motif, snap, res, T, o, n, what)
    except Violation as v:
        if v.key is None and _atom_on_ladder_rung(res):
            raise Violation(v.detail + ' [an atom lies exactly (to 1e-9 relative) one rung of rotate()\'s tolerance ladder '
                            '1e-4..1e-7 from a face of the new cell]', key=K_RUNG)
        raise
    if labels is not None:
        labels.add('reading%d' % reading)


def oracle_rotate(case):
    return with_units(case, _oracle_rotate)


def _oracle_rotate(case):
    import atomman as am
    u = case['ucell']
    labels = ucell_labels(u)
    uv = case['uvws']
    hex4 = len(uv[0]) == 4
    U = np.array(hex4to3(uv) if hex4 else uv, dtype=int)
    if (case.get('forms') or {}).get('pos') in LOWPREC and U.tolist() == IDENTITY:
        # never generated (see IDENTITY above); a hand-written / older replay case is judged with float64 positions
        case = dict(case, forms=dict(case['forms'], pos='float'))
    sys0, M, snap = prepare(am, case, labels)
    V, o, pos0 = M.V, M.o, M.pos
    det = idet(U.tolist())
    labels.add('form_' + case['form'])
    if case['form'] in G4.UVWS_NARROW:
        labels.add('form_narrow')
    opt = case.get('opt')
    if opt:
        labels.update({'opt', 'opt_' + opt})
    if hex4:
        labels.add('hex4')
    sc = ucell_scale(u)
    what = 'rotate(%r)' % (uv,) + _scale_note(sc)
    if case['form'] in G4.UVWS_NARROW or case['form'] == 'noisy':
        what += ' [uvws given as %r]' % (_uvws_arg(uv, case['form']),)
    if case.get('hist') or case.get('forms') or opt or case.get('props'):
        what += ' [%s; unit cell given as %r, per-atom properties as %r, after the history %r]' % (
            opt or 'return_transform=True', case.get('forms') or DEFAULT_FORMS, case.get('props'), case.get('hist'))
    named = []
    out = _rotate_call(am, sys0, case, labels, what, det, named)
    # the last set of argument objects handed over (the plain call has one set, the no_transform option two identical ones)
    fresh = [('uvws', _uvws_arg(uv, case['form']))] + [('tol', v) for k, v in _rotate_kwargs(opt).items()]
    frozen = args_frozen(fresh)
    for nm, a in named:
        require(args_frozen([(nm, a)])[nm] == frozen[nm],
                lambda: '%s: the argument %s was modified by the call (it is no longer what the caller handed in): %r' % (what, nm, a))
    require_untouched(sys0, snap, what)
    _judge_rotate(out, snap, V, o, pos0, U, what, sc, labels, almost=bool(u.get('almost')))
    n = abs(det)
    if det < 0:
        labels.add('detneg')
    if n == 1:
        labels.add('unimodular')
    if n >= 8:
        labels.add('bigdet')
    if np.all(np.triu(U, 1) == 0) or np.all(np.tril(U, -1) == 0):
        if np.any(np.diag(U) < 0) and not is_signed_perm(U.tolist()):
            labels.add('uvws_tri_neg')
    if not is_signed_perm(U.tolist()):
        labels.add('nt')
    if case.get('post'):
        def call(system, keep):
            return _rotate_call(am, system, case, labels, what + ' [called again]', det, keep, plain=True)

        def judge(out2, M2, snap2, note):
            _judge_rotate(out2, snap2, M2.V, M2.o, M2.pos, U, what + note, sc, almost=bool(u.get('almost')))
        run_post(PostCtx(am, case, labels, what, sys0, M, snap, out, named[-(1 + len(_rotate_kwargs(opt))):], call, judge,
                         'fixed' if u.get('nearface') else 'full'))
    return labels


# ----------------------------------------------------------------------------- refusal

_frac = gens.nice(0.05, 0.95, 3)
_rkind = st.sampled_from(['coplanar', 'coplanar', 'parallel', 'zero_row', 'nonint', 'nonint', 'hex_on_nonhex',
                          'hex_sum', 'shape', 'hex_on_pseudohex'])
_small = st.integers(-2, 2)
_idx3 = st.integers(0, 2)
_shapes = st.sampled_from([[2, 3], [3, 2], [3, 5], [4, 3], [9], [1, 3, 3]])
_rform = st.sampled_from(['list', 'array', 'list', 'array', 'tuple', 'fortran'])


@st.composite
def refusal_cases(draw):
    kind = draw(_rkind)
    if kind in ('hex_sum',):
        u = draw(ucells(family='hexagonal', far_origin=False, sensitive=True))
    elif kind == 'hex_on_nonhex':
        u = draw(ucells(family=draw(st.sampled_from([f for f in FAMILIES if f != 'hexagonal'])), far_origin=False))
    elif kind == 'hex_on_pseudohex':
        # the angles of a hexagonal cell (90, 90, 120) with a != b (b/a = 1.15..1.6): a c-unique monoclinic cell, not hexagonal
        # in any length unit
        u = draw(ucells(family='orthorhombic', far_origin=False))
        u['abc'] = u['abc'][:3] + [90.0, 90.0, 120.0]
        u['family'] = 'monoclinic'
    else:
        u = draw(ucells(far_origin=False))
    M = [list(r) for r in draw(int_matrices())]
    i = draw(_idx3)
    j, k = [x for x in range(3) if x != i]
    if kind == 'coplanar':
        a, b = draw(_small), draw(_small)
        M[i] = [a * M[j][c] + b * M[k][c] for c in range(3)]
    elif kind == 'parallel':
        a = draw(st.sampled_from([-2, -1, 1, 2, 3]))
        M[i] = [a * M[j][c] for c in range(3)]
    elif kind == 'zero_row':
        M[i] = [0, 0, 0]
    elif kind == 'nonint':
        c = draw(_idx3)
        M = [[float(x) for x in r] for r in M]
        f = draw(_frac)
        q = int(round(f * 1000))
        if q % 3 == 0:
            # class E: 1e-2 .. 1e-4 off an integer, either side: well outside the rounding window of rotate (numpy.allclose at its
            # defaults: 1e-8 + 1e-5 |value|, at most 4e-5 here), so still "not integer"
            f = (1e-2, 1e-3, 1e-4)[(q // 3) % 3] * (1.0 if (q // 9) % 2 else -1.0)
        M[i][c] = M[i][c] + f
    elif kind in ('hex_on_nonhex', 'hex_sum', 'hex_on_pseudohex'):
        H = draw(hex_matrices())
        if kind == 'hex_sum':
            H[i][2] += draw(st.sampled_from([-2, -1, 1, 2]))
        M = H
    else:
        shp = draw(_shapes)
        flat = [x for r in M for x in r] * 2
        cnt = int(np.prod(shp))
        M = np.array(flat[:cnt]).reshape(shp).tolist()
    forms, hist = forms_and_history(draw, u)
    case = {'ucell': u, 'kind': kind, 'uvws': M, 'form': draw(_rform), 'forms': forms, 'hist': hist}
    x = G4.extras(draw, u, post_level(forms))
    case.update({'units': x['units'], 'props': x['props']})          # a refusal returns nothing to keep: no operations after it
    return case


REFUSAL_MSG = {
    'coplanar': ('New box has no atoms/volume',),
    'parallel': ('New box has no atoms/volume',),
    'zero_row': ('New box has no atoms/volume',),
    'nonint': ('must be integer',),
    'hex_on_nonhex': ('hexagonal indices only work on hexagonal systems',),
    'hex_on_pseudohex': ('hexagonal indices only work on hexagonal systems',),
    'hex_sum': ('u+v+t != 0',),
    'shape': ('Invalid uvws crystal indices shape',),
}


def oracle_refusal(case):
    return with_units(case, _oracle_refusal)


def _oracle_refusal(case):
    import atomman as am
    u = case['ucell']
    labels = ucell_labels(u)
    sys0, model, snap = prepare(am, case, labels)
    kind = case['kind']
    labels.add(kind)
    M = case['uvws']
    if kind == 'nonint' and max(abs(x - round(x)) for r in M for x in r) < 0.02:
        labels.add('nonint_near')
    if case['form'] == 'list':
        arg = M
    elif case['form'] == 'tuple' and kind != 'shape':
        arg = tuple(tuple(r) for r in M)
    elif case['form'] == 'fortran':
        arg = np.asfortranarray(np.array(M))
    else:
        arg = np.array(M)
    what = 'rotate(%r) [%s]' % (M, kind) + _scale_note(ucell_scale(u))
    if case.get('hist') or case.get('forms'):
        what += ' [unit cell given as %r, after the history %r]' % (case.get('forms') or DEFAULT_FORMS, case.get('hist'))
    named = [('uvws', arg)]
    frozen = args_frozen(named)
    try:
        out = sys0.rotate(arg, return_transform=True)
    except ValueError as e:
        msg = str(e)
        require(any(m in msg for m in REFUSAL_MSG[kind]),
                lambda: '%s raised ValueError(%r), which is not the documented refusal for this input (%r)' % (what, msg, REFUSAL_MSG[kind]))
        require_untouched(sys0, snap, what)
        require_args_untouched(named, frozen, what)
        labels.update({'refusal', 'nt'})
        return labels
    res = out[0] if isinstance(out, tuple) else out
    if kind == 'hex_on_pseudohex':
        a, b = float(np.linalg.norm(model.V[0])), float(np.linalg.norm(model.V[1]))
        if abs(a - b) <= 1.01e-8 + 1e-5 * max(a, b):
            # rotate decides "hexagonal" with Box.ishexagonal() at its defaults: numpy.isclose(a, b, rtol=1e-5, atol=1e-8), the 1e-8
            # in working length units, so in metres (a = 3e-10, b = 4e-10) every cell with angles 90, 90, 120 passes
            raise Violation('%s: no refusal; Miller-Bravais indices accepted on a cell with a = %.6g, b = %.6g (b/a = %.4f) because '
                            '|a - b| < 1e-8 length units' % (what, a, b, b / a), key=K_HEX)
    raise Violation('%s: no refusal; returned a system of %r atoms for %s' % (
        what, getattr(res, 'natoms', None),
        'vectors of zero determinant' if kind in ('coplanar', 'parallel', 'zero_row') else 'an input outside the documented forms'))


# ----------------------------------------------------------------------------- centering

CENTERING = {
    'p': [[0, 0, 0]],
    'a': [[0, 0, 0], [0, 0.5, 0.5]],
    'b': [[0, 0, 0], [0.5, 0, 0.5]],
    'c': [[0, 0, 0], [0.5, 0.5, 0]],
    'i': [[0, 0, 0], [0.5, 0.5, 0.5]],
    'f': [[0, 0, 0], [0.5, 0.5, 0], [0.5, 0, 0.5], [0, 0.5, 0.5]],
    # obverse / reverse hexagonal settings of a rhombohedral lattice
    't1': [[0, 0, 0], [2 / 3.0, 1 / 3.0, 1 / 3.0], [1 / 3.0, 2 / 3.0, 2 / 3.0]],
    't2': [[0, 0, 0], [1 / 3.0, 2 / 3.0, 1 / 3.0], [2 / 3.0, 1 / 3.0, 2 / 3.0]],
}
SETTING_FAMILIES = {
    'p': FAMILIES,
    'i': ('orthorhombic', 'tetragonal', 'cubic'),
    'f': ('orthorhombic', 'cubic'),
    'a': ('monoclinic', 'orthorhombic'),
    'b': ('monoclinic', 'orthorhombic'),
    'c': ('monoclinic', 'orthorhombic'),
    't1': ('hexagonal',),
    't2': ('hexagonal',),
}
SETTINGS = ('p', 'a', 'b', 'c', 'i', 'f', 't1', 't2')
_setting = st.sampled_from(SETTINGS + ('i', 'f', 't1', 't2'))
_entry = st.sampled_from(['method', 'method', 'function'])     # System.dump(style, ...) / atomman.dump(style, system, ...)


_ssform = st.sampled_from([None] * 5 + ['list', 'tuple', 'array', 'array'])


@st.composite
def centering_cases(draw):
    setting = draw(_setting)
    direction = draw(st.sampled_from(['c2p2c', 'c2p2c', 'p2c2p']))
    basis = draw(_int10) < 7          # True: default check_basis (needs an atom on the lattice site)
    # check_family (class H: sampled here, enumerated in the clause `options`): with the default True the family has to admit the
    # setting; with False "non-conventional cells" of any family are converted
    cf = not (basis and draw(_int10) in (2, 5, 8))
    if direction == 'c2p2c':
        fam = draw(st.sampled_from(SETTING_FAMILIES[setting])) if (basis and cf) else draw(_family)
        u = draw(ucells(family=fam, far_origin=False, allow_lh=False, max_atoms=3, sensitive=basis and cf, edge_min=6))
        motif = u['atoms']
        if basis:
            motif[0] = [0.0, 0.0, 0.0]
        # decorate with the centering translations, drop motif atoms whose copies collide
        cent = CENTERING[setting]
        atoms, types, vec, kept = [], [], [], []
        for m, t, v in zip(motif, u['types'], u['vec']):
            copies = [[(m[c] + ct[c]) % 1.0 for c in range(3)] for ct in cent]
            if all(torus_sep(cp, a) >= 0.03 for cp in copies for a in atoms):
                atoms.extend(copies); types.extend([t] * len(cent)); vec.extend([v] * len(cent)); kept.append(m)
        if not atoms:
            copies = [[ct[c] % 1.0 for c in range(3)] for ct in cent]
            atoms, types, vec = copies, [1] * len(cent), [[0.0, 0.0, 0.0]] * len(cent)
        u['atoms'], u['types'], u['vec'] = atoms, types, vec
        tgen = setting in ('t1', 't2') and basis and draw(_int10) < 4
    else:
        u = draw(ucells(far_origin=False, allow_lh=False, max_atoms=4, origin=not basis, edge_min=6))
        if basis:
            u['atoms'][0] = [0.0, 0.0, 0.0]
            keep = dedupe(u['atoms'])
            u['atoms'] = [u['atoms'][i] for i in keep]
            u['types'] = u['types'][:len(keep)]
            u['vec'] = u['vec'][:len(keep)]
        tgen = setting in ('t1', 't2') and basis and draw(_int10) < 4
    forms, hist = forms_and_history(draw, u, 'noorigin' if (direction == 'p2c2p' and basis) else 'rigid', lowprec=False)
    case = {'ucell': u, 'setting': setting, 'direction': direction, 'basis': basis, 'generic_t': bool(tgen),
            'entry': draw(_entry), 'forms': forms, 'hist': hist, 'cf': bool(cf), 'rt': draw(_int10) not in (3, 8), 'ss': draw(_ssform)}
    case.update(G4.extras(draw, u, 'pure' if post_level(forms) == 'pure' else 'rigid'))
    if direction == 'c2p2c':
        case['props'] = dict(case['props'], group=len(CENTERING[setting]))      # the centering copies of a motif atom carry one vector
    return case


def _lattice_is_centered(Vp_back, V, setting, what):
    """rows of Vp_back (primitive vectors in the conventional frame) generate Z^3 + centering translations"""
    Q = cm.lattice_index(Vp_back, V)
    cent = np.array(CENTERING[setting], dtype=float)
    k = len(cent)
    for r in Q:
        d = r[None, :] - cent
        err = np.abs(d - np.rint(d)).max(axis=1).min()
        require(err <= 1e-7, lambda: '%s: primitive cell vector %r (conventional indices) is not a lattice vector of the %r-centred lattice'
                % (what, r.tolist(), setting))
    dq = abs(float(np.linalg.det(Q)))
    require(abs(dq * k - 1.0) <= 1e-7, lambda: '%s: primitive cell has %.9g of the conventional volume, expected 1/%d' % (what, dq, k))


def _same_params(Va, Vb, what):
    (a1, c1), (a2, c2) = my_params(Va), my_params(Vb)
    cond = float(np.linalg.cond(Vb))
    tol = 1e-8 + 40 * EPS * cond ** 2
    for x, y, nm in zip(a1 + c1, a2 + c2, ('a', 'b', 'c', 'cos(alpha)', 'cos(beta)', 'cos(gamma)')):
        scale = max(abs(y), 1.0) if nm.startswith('cos') else abs(y)
        require(abs(x - y) <= tol * scale, lambda: '%s: lattice parameter %s = %.12g, original cell has %.12g' % (what, nm, x, y))
    require(np.linalg.det(Va) * np.linalg.det(Vb) > 0, lambda: '%s: handedness of the cell changed' % what)


def _dump(am, system, style, entry, **args):
    if entry == 'function':
        return am.dump(style, system, **args)
    return system.dump(style, **args)


def _convert(am, system, style, entry, rt, what, **args):
    """the conversion with return_transform=True -> (system, transform).  rt=False (class H, the option left at its default): the
    call is first made without return_transform, must then return the System alone, and the same System as the call with it"""
    if not rt:
        r = _dump(am, system, style, entry, **args)
        require(isinstance(r, am.System), lambda: '%s without return_transform returned %r' % (what, type(r)))
    out = _dump(am, system, style, entry, return_transform=True, **args)
    require(isinstance(out, tuple) and len(out) == 2 and isinstance(out[0], am.System),
            lambda: '%s with return_transform=True returned %r' % (what, type(out)))
    if not rt:
        k = G4.first_difference(G4.freeze((r,)), G4.freeze((out[0],)), bitwise=False)
        require(k is None, lambda: '%s: the system returned without return_transform differs from the one returned with it (%s)' % (what, k))
    return out


def _c2p_note(unit):
    return '' if unit == 1.0 else ', atol=%g, smallshift=[%g, %g, %g]' % ((1e-8 * unit,) + (0.001 * unit,) * 3)


def _c2p(am, system, setting, basis, entry='method', unit=1.0, rt=True, ss=None, keep=None, what='conventional_to_primitive', **kw):
    """conventional_to_primitive with the documented refusal turned into None.
    unit: the length unit of the cell.  Two documented arguments of the conversion are lengths in working units and are
    handed over in the unit of the cell when that is not 1: `atol` ("Absolute tolerance to use for numpy.isclose ... to check
    that the conventional cell has atoms in the expected lattice positions": compared with Cartesian distances system.dmag
    and, through Box.identifyfamily, with lattice parameters; default 1e-8) and `smallshift` ("small rigid body shift to apply
    to the atomic positions": added to atoms.pos; default [0.001, 0.001, 0.001]).  Neither default is documented as
    unit-aware.  (rotate's `tol` is compared with box-relative coordinates - "which atoms are inside the box", applied to
    atoms_prop('pos', scale=True) - so it is dimensionless and is never scaled; primitive_to_conventional has no tolerance.)
    ss: the documented default of smallshift written out as list / tuple / array ("array-like object"); keep: the argument
    objects handed over are appended as (name, object)"""
    args = dict(setting=setting)
    if unit != 1.0:
        args['atol'] = 1e-8 * unit
    if unit != 1.0 or ss:
        v = [0.001 * unit, 0.001 * unit, 0.001 * unit]
        args['smallshift'] = tuple(v) if ss == 'tuple' else np.array(v) if ss == 'array' else v
        if keep is not None:
            keep.append(('smallshift', args['smallshift']))
    if not basis:
        args['check_basis'] = False
    args.update(kw)
    try:
        return _convert(am, system, 'conventional_to_primitive', entry, rt, what, **args)
    except AssertionError as e:
        if 'atoms found' in str(e) and 'expected' in str(e):
            return None
        raise


_IMAGES = np.array(list(itertools.product((-2, -1, 0, 1, 2), repeat=3)), dtype=float)


def _dist_to_zero(V, pos, cent):
    """distance of every atom (rows of pos; lattice V decorated with the centering translations cent, relative) to the
    Cartesian point (0,0,0) modulo the centred lattice: reduced image and its 124 neighbours (numpy only)"""
    out = np.empty(len(pos))
    for j, r in enumerate(np.asarray(pos, dtype=float)):
        best = np.inf
        for ct in np.asarray(cent, dtype=float):
            s = cm.rel_coords(r, V) + ct
            s = s - np.rint(s)
            best = min(best, float(np.sqrt((((s[None, :] + _IMAGES) @ V) ** 2).sum(axis=1)).min()))
        out[j] = best
    return out


def _zero_site_class(V, pos, cent, k, negligible):
    """the input class of the open finding K_ZERO: conventional_to_primitive looks for "the atom near periodic (0,0,0)" with
    numpy.isclose(dmag, 0.0) - an undocumented absolute 1e-8 in working length units - and, when exactly one atom of the
    primitive cell answers, moves all atoms so that it sits exactly on (0,0,0).  In a cell given in metres (or any unit in which
    1e-8 is not far below the interatomic distances) that atom can be anywhere within 1e-8 of the origin, and the crystal is
    rigidly displaced by its position.  Class: exactly one atom of the primitive cell (the k centering copies of a motif atom
    are one primitive atom) lies within 1e-8 length units of Cartesian (0,0,0) modulo the lattice - decided with a 1e-6
    relative margin on the 1e-8 - and it is farther from it than `negligible`."""
    d = _dist_to_zero(V, pos, cent)
    d = d.reshape(-1, k).min(axis=1) if (k > 1 and len(d) % k == 0) else d
    n_hi = int(np.sum(d <= 1e-8 * (1 + 1e-6)))
    n_lo = int(np.sum(d <= 1e-8 * (1 - 1e-6)))
    inwin = d[d <= 1e-8 * (1 + 1e-6)]
    return bool(n_hi >= 1 and n_lo <= 1 and inwin.max() > negligible)


def oracle_centering(case):
    return with_units(case, _oracle_centering_keyed)


def _oracle_centering_keyed(case):
    """the centering oracle; a violation met after a conventional_to_primitive call on a cell of the K_ZERO class is keyed"""
    state = {}
    try:
        return _oracle_centering(case, state)
    except Violation as v:
        z = state.get('zero')
        if v.key is None and z is not None and _zero_site_class(*z):
            raise Violation(v.detail + ' [exactly one atom of the primitive cell lies within 1e-8 length units of (0,0,0) without being '
                            'on it: conventional_to_primitive takes it for "the atom at the lattice site" (numpy.isclose(dmag, 0.0), '
                            'absolute 1e-8 whatever the length unit) and moves it onto (0,0,0)]', key=K_ZERO)
        raise


def _judge_c2p(out, snap, V, o, pos0, setting, what, sc):
    """the oracle of conventional_to_primitive: out = (primitive system, transform) for the conventional cell (V, o, pos0)"""
    k = len(CENTERING[setting])
    N = len(pos0)
    p, T1 = out
    T1 = require_rotation(T1, what)
    require(N % k == 0 and p.natoms == N // k, lambda: '%s: %d atoms, expected %d/%d' % (what, p.natoms, N, k))
    require_props_present(p, what)
    Bp, bpo = require_lammps_inside(p, what)
    _lattice_is_centered(Bp @ T1, V, setting, what)
    tol = match_tol(V, o, Bp, p.atoms.pos, unit=sc)
    motif = cm.Motif(V, o, pos0, tol)
    # every primitive atom lies on a conventional atom (modulo the conventional lattice) and carries the
    # properties of it or of one of its centering copies (the final wrap of the primitive cell may move an
    # atom by a primitive lattice vector, so its identity is only defined modulo the centering)
    reading, rep = map_back(motif, snap, p, T1, o, None, what, tagdiv=k)
    # every conventional atom is represented by exactly one primitive atom modulo the primitive lattice
    ppos = np.asarray(p.atoms.pos, dtype=float)
    back = ppos @ T1 if reading == 1 else (ppos - bpo) @ T1 + o
    bo_back = bpo @ T1 if reading == 1 else o
    pm = cm.Motif(Bp @ T1, bo_back, back, tol)
    m = pm.match(pos0)
    cnt = pm.multiplicity(m.index)
    require(len(m.unmatched) == 0 and np.all(cnt == k),
            lambda: '%s: conventional atoms are not each represented once in the primitive crystal: unmatched %r, hits per primitive atom %r (expected %d)'
            % (what, m.unmatched.tolist(), cnt.tolist(), k))
    pt = np.asarray(p.atoms.atype)
    require(all(int(pt[m.index[j]]) == int(snap['atype'][j]) for j in range(N)),
            lambda: '%s: a conventional atom maps onto a primitive atom of another type' % what)
    return T1


def _judge_p2c(out, snap, V, o, pos0, setting, what, sc):
    """the oracle of primitive_to_conventional: out = (conventional system, transform) for the primitive cell (V, o, pos0)"""
    k = len(CENTERING[setting])
    N = len(pos0)
    c, T1 = out
    T1 = require_rotation(T1, what)
    require(c.natoms == N * k, lambda: '%s: %d atoms, expected %d x %d' % (what, c.natoms, N, k))
    require_props_present(c, what)
    Bc, bco = require_lammps_inside(c, what)
    # conventional cell vectors are lattice vectors of the primitive lattice, index k
    Q = cm.lattice_index(Bc @ T1, V)
    require(np.abs(Q - np.rint(Q)).max() <= 1e-7, lambda: '%s: conventional cell vectors are not lattice vectors of the primitive cell: indices\n%r' % (what, Q))
    dq = abs(float(np.linalg.det(Q)))
    require(abs(dq - k) <= 1e-6, lambda: '%s: conventional cell has %.9g primitive volumes, expected %d' % (what, dq, k))
    motif = cm.Motif(V, o, pos0, match_tol(V, o, Bc, c.atoms.pos, unit=sc))
    map_back(motif, snap, c, T1, o, k, what)
    return T1


def _oracle_centering(case, state):
    import atomman as am
    u = case['ucell']
    setting = case['setting']
    basis = bool(case['basis'])
    cf = bool(case.get('cf', True))
    rt = bool(case.get('rt', True))
    ss = case.get('ss')
    k = len(CENTERING[setting])
    labels = ucell_labels(u) | {'setting_' + setting, case['direction'], 'basis' if basis else 'nobasis'}
    if not rt:
        labels.add('opt_no_transform')
    if ss:
        labels.add('opt_smallshift')
    if basis and not cf:
        labels.add('opt_no_check_family')
    sys0, M, snap = prepare(am, case, labels)
    V, o, pos0 = M.V, M.o, M.pos
    entry = case.get('entry', 'method')
    labels.add('entry_' + entry)
    hnote = ''
    if case.get('hist') or case.get('forms') or case.get('props'):
        hnote = ' [unit cell given as %r, per-atom properties as %r, after the history %r]' % (
            case.get('forms') or DEFAULT_FORMS, case.get('props'), case.get('hist'))
    if not rt:
        hnote += ' [called without return_transform first]'
    N = len(pos0)
    sc = ucell_scale(u)
    hnote += _scale_note(sc)
    given = 't' if case.get('generic_t') else setting
    if case.get('generic_t'):
        labels.add('generic_t')
    named, extra_outs = [], []
    if case['direction'] == 'c2p2c':
        extra1 = {'check_family': False} if (basis and not cf) else {}
        what = "dump('conventional_to_primitive', setting=%r%s%s%s%s)%s" % (
            given, '' if basis else ', check_basis=False', ', check_family=False' if extra1 else '', _c2p_note(sc),
            ', smallshift as %s' % ss if ss else '', hnote)
        if sc < 1.0:
            state['zero'] = (V, pos0, CENTERING[setting], k, 1e-3 * match_tol(V, o, unit=sc))
        out = _c2p(am, sys0, given, basis, entry, unit=sc, rt=rt, ss=ss, keep=named, what=what, **extra1)
        fresh = []
        _c2p_args = [0.001 * sc] * 3
        for nm, a in named:
            ref = tuple(_c2p_args) if ss == 'tuple' else np.array(_c2p_args) if ss == 'array' else list(_c2p_args)
            require(args_frozen([(nm, a)]) == args_frozen([(nm, ref)]),
                    lambda: '%s: the argument %s was modified by the call: %r' % (what, nm, a))
        if out is None:
            require_untouched(sys0, snap, what)      # a refusal leaves its operand alone
            return labels | {'refusal'}
        T1 = _judge_c2p(out, snap, V, o, pos0, setting, what, sc)
        p = out[0]
        # and back
        what2 = what + " -> dump('primitive_to_conventional', setting=%r)" % setting
        require_untouched(sys0, snap, what)
        out2 = _convert(am, p, 'primitive_to_conventional', entry, rt, what2, setting=setting)
        c2, T2 = out2
        T2 = require_rotation(T2, what2)
        require(c2.natoms == N, lambda: '%s: %d atoms, the conventional cell had %d' % (what2, c2.natoms, N))
        require_props_present(c2, what2)
        Bc, bco = require_lammps_inside(c2, what2)
        _same_params(Bc, V, what2)
        T21 = T2 @ T1
        map_back(cm.Motif(V, o, pos0, match_tol(V, o, Bc, c2.atoms.pos, unit=sc)), snap, c2, T21, o, 1, what2, tagdiv=k)
        extra_outs.append(('the answer of the return conversion', out2))

        def call(system, keep):
            return _c2p(am, system, given, basis, entry, unit=sc, rt=True, ss=ss, keep=keep, what=what + ' [called again]', **extra1)

        def judge(o2, M2, snap2, note):
            _judge_c2p(o2, snap2, M2.V, M2.o, M2.pos, setting, what + note, sc)
    else:
        what = "dump('primitive_to_conventional', setting=%r)%s" % (setting, hnote)
        out = _convert(am, sys0, 'primitive_to_conventional', entry, rt, what, setting=setting)
        require_untouched(sys0, snap, what)
        T1 = _judge_p2c(out, snap, V, o, pos0, setting, what, sc)
        c = out[0]
        # and back
        extra = {} if not basis else {'check_family': False}
        what2 = what + " -> dump('conventional_to_primitive', setting=%r, %s%s)" % (given, 'check_family=False' if basis else 'check_basis=False', _c2p_note(sc))
        if sc < 1.0:
            state['zero'] = (V, pos0, CENTERING['p'], 1, 1e-3 * match_tol(V, o, unit=sc))
        out2 = _c2p(am, c, given, basis, entry, unit=sc, rt=rt, ss=ss, what=what2, **extra)
        if out2 is None:
            return labels | {'refusal'}
        p2, T2 = out2
        T2 = require_rotation(T2, what2)
        require(p2.natoms == N, lambda: '%s: %d atoms, the primitive cell had %d' % (what2, p2.natoms, N))
        require_props_present(p2, what2)
        Bp, bpo = require_lammps_inside(p2, what2)
        _same_params(Bp, V, what2)
        map_back(cm.Motif(V, o, pos0, match_tol(V, o, Bp, p2.atoms.pos, unit=sc)), snap, p2, T2 @ T1, o, 1, what2)
        extra_outs.append(('the answer of the return conversion', out2))

        def call(system, keep):
            return _convert(am, system, 'primitive_to_conventional', entry, True, what + ' [called again]', setting=setting)

        def judge(o2, M2, snap2, note):
            _judge_p2c(o2, snap2, M2.V, M2.o, M2.pos, setting, what + note, sc)
    if setting != 'p':
        labels.add('nt')
    if case.get('post'):
        lv = 'pure' if post_level(case.get('forms')) == 'pure' else 'rigid'
        ctx = PostCtx(am, case, labels, what, sys0, M, snap, out, named, call, judge, lv)
        ctx.extra_outs = extra_outs
        run_post(ctx)
    return labels


# ----------------------------------------------------------------------------- options (class H: enumerated, not sampled)
#
# Every operation of this property with every value of its options, as ORDERED pairs (thorough: also triples) in one process: the
# conversions share the setting tables of tools/miller.py and the return_transform / check_* switches, rotate shares its tol ladder and
# the Miller-Bravais reduction, all of them end in supersize + normalize.  For a pair (Y, X): X is called on its fixture and its answer
# entered in a ledger, Y is called on its own fixture, X is called again (same answer, the first one bit for bit what it was), and then X
# is judged IN FULL by the oracle of its clause - after Y has run in this process.

def _fixture(family, atoms, types):
    return {'family': family, 'abc': _family_abc(family, [0.31, 0.42, 0.63], [0.23, 0.52, 0.71]), 'rot': None, 'lh': False,
            'orel': [0.0, 0.0, 0.0], 'atoms': atoms, 'types': types,
            'vec': [[round(0.5 * i - 1.0 + 0.1 * c, 3) for c in range(3)] for i in range(len(atoms))], 'scale': 1.0}


def _options_ops():
    ops = []
    motif, mtypes = [[0.0, 0.0, 0.0], [0.21, 0.34, 0.47]], [1, 2]
    for setting in SETTINGS + ('t',):
        real = 't1' if setting == 't' else setting
        cent = CENTERING[real]
        atoms = [[(m[c] + ct[c]) % 1.0 for c in range(3)] for m in motif for ct in cent]
        types = [t for t in mtypes for _ in cent]
        for rt in (True, False):
            u = _fixture(SETTING_FAMILIES[real][0], atoms, types)
            u['vec'] = [u['vec'][i // len(cent)] for i in range(len(atoms))]
            ops.append({'clause': 'centering', 'name': 'c2p(%s%s)' % (setting, '' if rt else ', no transform'), 'rt': rt,
                        'case': {'ucell': u, 'setting': real, 'direction': 'c2p2c', 'basis': True, 'generic_t': setting == 't',
                                 'entry': 'method', 'forms': None, 'hist': [], 'cf': True, 'rt': rt, 'ss': None}})
    for setting in SETTINGS:
        for rt in (True, False):
            u = _fixture('triclinic', [list(m) for m in motif], list(mtypes))
            ops.append({'clause': 'centering', 'name': 'p2c(%s%s)' % (setting, '' if rt else ', no transform'), 'rt': rt,
                        'case': {'ucell': u, 'setting': setting, 'direction': 'p2c2p', 'basis': True, 'generic_t': False,
                                 'entry': 'function', 'forms': None, 'hist': [], 'cf': True, 'rt': rt, 'ss': None}})
    for fam, uv in (('cubic', CLASSIC[2]), ('hexagonal', [[2, -1, -1, 0], [0, 1, -1, 0], [0, 0, 0, -1]])):
        for opt in (None, 'tol_list', 'tol_tuple', 'tol_array', 'no_transform', 'tol_list_no_transform'):
            u = _fixture(fam, [[0.0, 0.0, 0.0], [0.5, 0.5, 0.0], [0.21, 0.34, 0.47]], [1, 1, 2])
            ops.append({'clause': 'rotate', 'name': 'rotate(%s, %s)' % ('3x4' if len(uv[0]) == 4 else '3x3', opt), 'rt': not (opt or '').endswith('no_transform'),
                        'case': {'ucell': u, 'uvws': uv, 'form': 'list' if opt != 'tol_array' else 'array', 'opt': opt, 'forms': None, 'hist': []}})
    for sizes in ([{'f': 'int', 'v': 2}, {'f': 'int', 'v': -1}, {'f': 'tuple', 'v': [-1, 1]}],
                  [{'f': 'np', 'v': -2}, {'f': 'np32', 'v': 2}, {'f': 'nptuple', 'v': [-1, 2]}],
                  [{'f': 'int', 'v': 1}, {'f': 'int', 'v': 1}, {'f': 'int', 'v': 1}]):
        u = _fixture('monoclinic', [[0.0, 0.0, 0.0], [0.21, 0.34, 0.47]], [1, 2])
        ops.append({'clause': 'supersize', 'name': 'supersize(%s)' % ', '.join(str(z['v']) for z in sizes), 'rt': True,
                    'case': {'ucell': u, 'sizes': sizes, 'forms': None, 'hist': []}})
    return ops


OPT_OPS = _options_ops()
_OPT_CENT = [i for i, op in enumerate(OPT_OPS) if op['clause'] == 'centering']
_OPT_REST = [i for i, op in enumerate(OPT_OPS) if op['clause'] != 'centering']


def options_cases(tier):
    cases = [{'x': i, 'y': [j]} for i in _OPT_CENT for j in _OPT_CENT] + [{'x': i, 'y': [j]} for i in _OPT_REST for j in _OPT_REST]
    # the two groups against one another: every operation of one group with four of the other, both orders (thorough: all)
    step = 1 if tier == 'thorough' else 9
    for a, i in enumerate(_OPT_CENT):
        for b, j in enumerate(_OPT_REST):
            if tier == 'thorough' or (a + 2 * b) % step == 0:
                cases.append({'x': i, 'y': [j]})
                cases.append({'x': j, 'y': [i]})
    if tier == 'thorough':
        full = [i for i in _OPT_CENT if OPT_OPS[i]['rt']]
        cases += [{'x': i, 'y': [j, k]} for i in full for j in full for k in full]
    return cases


def _options_raw(am, op):
    """-> system, zero-argument callable making the user-level call of the operation with its options"""
    case = op['case']
    system, M, snap = prepare(am, case, set())
    if op['clause'] == 'supersize':
        return system, lambda: (system.supersize(*[_size_arg(sz)[0] for sz in case['sizes']]),)
    if op['clause'] == 'rotate':
        kw = dict(return_transform=True) if op['rt'] else {}

        def call():
            r = system.rotate(_uvws_arg(case['uvws'], case['form']), **dict(kw, **_rotate_kwargs(case.get('opt'))))
            return r if isinstance(r, tuple) else (r,)
        return system, call
    style = 'conventional_to_primitive' if case['direction'] == 'c2p2c' else 'primitive_to_conventional'
    given = 't' if case.get('generic_t') else case['setting']

    def call():
        r = _dump(am, system, style, case['entry'], setting=given, **(dict(return_transform=True) if op['rt'] else {}))
        return r if isinstance(r, tuple) else (r,)
    return system, call


_OPT_ORACLES = {}


def oracle_options(case):
    import atomman as am
    X = OPT_OPS[case['x']]
    others = [OPT_OPS[j] for j in case['y']]
    what = '%s, then %s, then %s again' % (X['name'], ', '.join(Y['name'] for Y in others), X['name'])
    led = G4.Ledger()
    sx, call_x = _options_raw(am, X)
    out = call_x()
    led.add('the first answer of ' + X['name'], out)
    led.add('the system ' + X['name'] + ' was called on', sx)
    fx = G4.freeze(out)
    for Y in others:
        sy, call_y = _options_raw(am, Y)
        led.add('the answer of ' + Y['name'], call_y())
        led.add('the system ' + Y['name'] + ' was called on', sy)
        led.verify('the call ' + Y['name'], what)
    out2 = call_x()
    k = G4.first_difference(fx, G4.freeze(out2), bitwise=False)
    require(k is None, lambda: '%s: the second answer differs from the first (%s)' % (what, k))
    pr = G4.share_memory(out, out2)
    require(pr is None, lambda: '%s: the two answers share memory (%s / %s)' % (what, pr[0], pr[1]))
    led.add('the second answer of ' + X['name'], out2)
    led.verify('the second call of ' + X['name'], what)
    # the full oracle of the clause, after the other operations have run in this process
    if not _OPT_ORACLES:
        _OPT_ORACLES.update(supersize=_oracle_supersize, rotate=_oracle_rotate, centering=_oracle_centering_keyed)
    try:
        full = set(_OPT_ORACLES[X['clause']](X['case']))
    except Violation as v:
        raise Violation('%s [judged after %s had been called in the same process]' % (v.detail, ', '.join(Y['name'] for Y in others)), key=v.key) from None
    require('refusal' not in full, lambda: '%s: the conversion refused its fixture' % what)
    led.verify('the judged call of ' + X['name'], what)
    labels = {'x_' + X['clause'], 'y_' + others[-1]['clause'], 'same_clause' if X['clause'] == others[-1]['clause'] else 'cross_clause'}
    if not X['rt'] or not all(Y['rt'] for Y in others):
        labels.add('no_transform')
    if len(others) > 1:
        labels.add('triple')
    if any(Y is not X for Y in others):
        labels.add('nt')
    return labels


_POST = {'post': 0.1, 'post_mut_in': 0.03, 'post_mut_out': 0.03, 'post_twin': 0.015, 'post_again': 0.015, 'post_rejudged': 0.03}
_CELLS = {'almost': 0.045, 'edge': 0.038, 'sym': 0.04, 'sym_tri_neg': 0.012, 'origin_half': 0.02, 'props_dtype': 0.15, 'vec_decades': 0.05}

CLAUSES = [
    Clause('supersize', oracle_supersize, supersize_cases, quick=5600, thorough=130000,
           min_share=dict({'nt': 0.3, 'onface': 0.28, 'two_sided': 0.12, 'arg_np': 0.08, 'mults_distinct': 0.15, 'origin_small': 0.12,
                           'multitype': 0.3, 'hist': 0.18, 'hist_origin': 0.06, 'forms': 0.28, 'whole': 0.05,
                           'scaled': 0.22, 'scale_1': 0.22, 'scale_si': 0.055, 'scale_small': 0.15, 'scale_big': 0.08,
                           'units': 0.025, 'arg_narrow': 0.18, 'pos_narrowint': 0.02}, **dict(_POST, **_CELLS)),
           desc='supersize: count, box, origin, volume; every replica maps back onto one original atom with its type/tag/vector, each original N times, no coincidences; all input forms and dtypes, after histories, under other working units; answers kept in a ledger while the caller overwrites what it handed in / got out and calls again'),
    Clause('rotate', oracle_rotate, rotate_cases, quick=15500, thorough=330000,
           min_share=dict({'nt': 0.4, 'onface': 0.28, 'detneg': 0.2, 'hex4': 0.05, 'bigdet': 0.2, 'nearface': 0.05,
                           'origin_small': 0.12, 'lefthanded': 0.03, 'rigid_rot': 0.08, 'multitype': 0.3, 'form_float': 0.048,
                           'hist': 0.18, 'hist_origin': 0.06, 'forms': 0.26, 'whole': 0.04, 'opt': 0.15,
                           'scaled': 0.22, 'scale_1': 0.22, 'scale_si': 0.057, 'scale_small': 0.15, 'scale_big': 0.08,
                           'units': 0.025, 'form_narrow': 0.06, 'form_noisy': 0.015, 'uvws_tri_neg': 0.05, 'post_mut_args_live': 0.012},
                          **dict(_POST, **_CELLS)),
           desc='rotate: proper rotation returned, box = T.(uvws.vects), LAMMPS form, atoms inside, count/volume x|det|, map-back through T with multiplicity |det|; all input forms, dtypes and options, after histories, under other working units; answers kept in a ledger while the caller overwrites what it handed in / got out and calls again'),
    Clause('refusal', oracle_refusal, refusal_cases, quick=2200, thorough=32000,
           min_share={'nt': 0.9, 'coplanar': 0.08, 'nonint': 0.09, 'parallel': 0.05, 'shape': 0.049, 'hist': 0.2, 'forms': 0.22,
                      'scaled': 0.2, 'scale_1': 0.22, 'scale_si': 0.05, 'scale_small': 0.15, 'scale_big': 0.054,
                      'units': 0.03, 'almost': 0.047, 'sym': 0.04, 'nonint_near': 0.018, 'props_dtype': 0.15},
           desc='coplanar / parallel / non-integer (also 1e-4 off an integer) / wrong-shape vector sets raise the documented ValueError and leave the system and the argument untouched (whatever its history, under other working units)'),
    Clause('centering', oracle_centering, centering_cases, quick=5000, thorough=110000,
           min_share=dict({'nt': 0.45, 'c2p2c': 0.3, 'p2c2p': 0.15, 'setting_t1': 0.07, 'setting_t2': 0.07, 'setting_f': 0.08,
                           'nobasis': 0.12, 'multitype': 0.3, 'hist': 0.15, 'hist_origin': 0.04, 'forms': 0.24, 'entry_function': 0.09,
                           'scaled': 0.22, 'scale_1': 0.22, 'scale_si': 0.057, 'scale_small': 0.16, 'scale_big': 0.054,
                           'units': 0.028, 'opt_smallshift': 0.12, 'opt_no_transform': 0.05, 'opt_no_check_family': 0.08}, **dict(_POST, **dict(_CELLS, sym_tri_neg=0.008, origin_half=0.015))),
           max_share={'refusal': 0.05},
           desc='conventional<->primitive conversions for p,a,b,c,i,f,t1,t2: same crystal, primitive lattice = centred lattice, N/k atoms, and the two conversions undo one another; all input forms, both entry points, every option, after histories, under other working units; answers kept in a ledger while the caller overwrites what it handed in / got out and calls again'),
    Clause('options', oracle_options, enumerate=options_cases, min_share={'nt': 0.45, 'no_transform': 0.1, 'cross_clause': 0.045},
           desc='every operation with every value of its options (9+8 settings x return_transform, rotate tol forms x return_transform x 3x3 / 3x4, supersize multiplier forms) as ordered pairs (thorough: triples of conversions) in one process: same answer before and after, earlier answers bit for bit what they were, then the full oracle of the clause'),
]
