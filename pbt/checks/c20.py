"""C20 - Path integrators have their nominal order and relaxation finds the saddle."""
import functools
import math

import numpy as np
from hypothesis import strategies as st

from ..core import Clause, Violation, require
from .. import gens

RULE = ("taylor/order: matrices A (d x d, d=1..6, spectral norm scaled to <= 3, dense / triangular (non-normal) / "
        "diagonal), states y single (d,) or batched (n,d), steps h in [1e-3,0.5], rate law y'=Ay given as a Python "
        "callable with and without extra keyword arguments; gradient: smooth functions sum a_i sin(w_i.x+phi_i) + "
        "sum b_i exp(v_i.x) + quadratic + cubic terms in d=1..4 with analytic gradient and third-derivative bound, "
        "coordinates of leading shape (), (n,), (m,n), shift in [1e-6,1e-2]; relax: two-minimum surfaces "
        "E = h0((x/a)^2-1)^2 + k(y - c((x/a)^2-1))^2 (minima (+-a,0), saddle (0,-c), barrier h0, no other critical "
        "point) rigidly rotated/shifted, strings of 7-25 images, straight or bent, ends displaced from the minima, "
        "time step 0.1-0.25/lambda_max, euler and rk integrators, default and explicit options through create_path. "
        "Non-trivial: taylor/order: d>=2 and A non-normal; gradient: d>=2 and leading shape not (); relax: bent "
        "initial string on a rotated surface with c != 0")
ASSUMPTIONS = ["numpy/scipy linear algebra and scipy.linalg.expm are correct",
               "relaxation tolerances (end images 1e-3 a, saddle 5e-3 a, barrier 1e-4 h0) are the stated discretisation "
               "tolerances of the property's relax clause, calibrated on the unchanged tree with a factor >= 5 margin"]
LEVEL_TEXT = ("generated linear rate laws (all dimensions 1-6, normal and non-normal matrices, batched states, keyword "
              "pass-through) judged by the Taylor polynomial of exp(hA) and a rigorous one-step error bracket; generated "
              "smooth functions judged by analytic gradients with a third-derivative error bound; generated members of a "
              "two-minimum surface family with closed-form minima, saddle and barrier relaxed by the string method")
TECHNIQUE = ("reference-formula oracles (Taylor polynomial, expm error bracket, analytic gradient + remainder bound, "
             "closed-form critical points) over generated inputs")
WALL = {'quick': 70, 'thorough': 600}

K_RK = 'C20:rungekutta:stage-sign'
K_GK = 'C20:create_path:default-gradientkwargs'


# ----------------------------------------------------------------------------- linear rate laws

@st.composite
def matrices(draw):
    d = draw(st.integers(1, 6))
    kind = draw(st.sampled_from(['dense', 'dense', 'upper', 'diag', 'skew']))
    ent = gens.nice(-1.0, 1.0, 3)
    A = [[draw(ent) for _ in range(d)] for _ in range(d)]
    if kind == 'upper':
        A = [[A[i][j] if j >= i else 0.0 for j in range(d)] for i in range(d)]
    elif kind == 'diag':
        A = [[A[i][j] if j == i else 0.0 for j in range(d)] for i in range(d)]
    elif kind == 'skew':
        A = [[(A[i][j] if j > i else (-A[j][i] if j < i else 0.0)) for j in range(d)] for i in range(d)]
    norm = draw(gens.nice(0.05, 3.0, 3))
    return {'A': A, 'kind': kind, 'norm': norm}


def mat(case):
    A = np.array(case['A'], dtype=float)
    n = np.linalg.norm(A, 2)
    if n > 0:
        A = A * (case['norm'] / n)
    return A


@st.composite
def linear_cases(draw):
    m = draw(matrices())
    d = len(m['A'])
    batched = draw(st.booleans())
    n = draw(st.integers(1, 5)) if batched else 1
    ytype = draw(st.sampled_from(['float', 'float', 'floatlist', 'int', 'intlist', 'float_ro', 'float_strided', 'float_F', 'int16', 'float32']))
    ent = gens.nice(-2.0, 2.0, 3) if ytype.startswith('float') else st.integers(-3, 3)
    y = [[draw(ent) for _ in range(d)] for _ in range(n)]
    dec = None
    if batched and ytype.startswith('float') and ytype != 'float32' and draw(st.booleans()):
        # rows of very different magnitude in one call: every row is judged relative to its own size
        dec = [draw(st.integers(-8, 8)) for _ in range(n)]
    if not batched:
        y = y[0]
    h = draw(gens.nice(1e-3, 0.5, 4))
    if draw(st.integers(0, 5)) == 0:
        h = draw(st.sampled_from([1e-9, 1e-7, 1e-5, 1e-4, 0.75, 1.0, 1.5, 2.0]))
    return {'m': m, 'y': y, 'ytype': ytype, 'h': h, 'method': draw(st.sampled_from(['euler', 'rk'])),
            'kw': draw(st.sampled_from([None, 'scale', 'offset'])), 'dec': dec, 'other': [draw(gens.nice(-2.0, 2.0, 3)) for _ in range(d)]}


def start_vectors(case):
    """the float64 values of the start vector(s) the case describes"""
    y = np.array(case['y'], dtype=float)
    if case.get('dec'):
        y = y * (10.0 ** np.array(case['dec'], dtype=float))[:, None]
    if case.get('ytype') == 'float32':
        y = y.astype(np.float32).astype(float)
    return y


def _rate(A, kw):
    """rate law y' = A y (row-vector batches: y @ A.T); optional keyword arguments must be passed through"""
    if kw is None:
        return (lambda y: y @ A.T), {}
    if kw == 'scale':
        return (lambda y, s=None, t=None: (y @ A.T) * s / t), {'s': 3.0, 't': 3.0}
    return (lambda y, b=None: y @ A.T + (b - 1.5)), {'b': 1.5}


def _poly(A, h, y, p):
    out = np.array(y, dtype=float)
    term = np.array(y, dtype=float)
    for k in range(1, p + 1):
        term = (term @ A.T) * (h / k)
        out = out + term
    return out


def _buggy_rk(A, h, y):
    f = lambda v: v @ A.T
    k1 = h * f(y); k2 = h * f(y - 0.5 * k1); k3 = h * f(y - 0.5 * k2); k4 = h * f(y - k3)
    return y + k1 / 6 + k2 / 3 + k3 / 3 + k4 / 6


def _step(case, A, y, h):
    """one step from the start vector given in the type the case asks for (float/int ndarray; lists are passed through
    np.asarray by the rate law only - the integrators document 'array-like' but add to it, so lists go in as arrays of
    their natural dtype); the same object is stepped twice: the caller's vector must still give the same step"""
    from atomman.mep import integrator
    fxn = integrator.euler if case['method'] == 'euler' else integrator.rungekutta
    rate, kwargs = _rate(A, case['kw'])
    yt = case.get('ytype', 'float')
    if yt == 'int16':
        arg = np.array(y, dtype=np.int16)
    elif yt.startswith('int'):
        arg = np.array(y, dtype=int)
    elif yt == 'float32':
        arg = np.array(y, dtype=np.float32)
    else:
        arg = np.array(y, dtype=float)
        if yt == 'float_ro':
            arg.setflags(write=False)
        elif yt == 'float_F':
            arg = np.asfortranarray(arg)
        elif yt == 'float_strided':
            big = np.full(tuple(2 * k for k in arg.shape), 7.25); sl = tuple(slice(None, None, 2) for _ in arg.shape)
            big[sl] = arg; arg = big[sl]
    before = arg.tobytes()
    raw = fxn(rate, arg, h, **kwargs)
    require(arg.tobytes() == before, lambda: '%s changed the start vector it was given' % case['method'])
    require(not (isinstance(raw, np.ndarray) and np.shares_memory(raw, arg)), lambda: '%s returned memory of its argument' % case['method'])
    got = np.array(raw, dtype=float)
    again = np.array(fxn(rate, arg, h, **kwargs), dtype=float)
    require(got.shape == again.shape and np.array_equal(got, again),
            lambda: '%s: stepping the same start vector object twice gives different results (%r then %r): the integrator '
                    'changed its argument' % (case['method'], got.tolist(), again.tolist()))
    # a later step from another start vector (and with another step size) must not reach the result handed out earlier
    if case.get('other') is not None and isinstance(raw, np.ndarray):
        o = np.array(case['other'], dtype=float)
        fxn(rate, (np.zeros_like(np.array(y, dtype=float)) + o), 0.5 * h + 0.01, **kwargs)
        require(np.array_equal(np.array(raw, dtype=float), got), lambda: '%s: the result handed out earlier changed after a later step: was %r, is %r'
                % (case['method'], got.tolist(), np.asarray(raw).tolist()))
    return got


def _lin_labels(case, A):
    labs = {case['method'], 'd%d' % A.shape[0], case['m']['kind'], 'kw_' + str(case['kw']), 'y' + case.get('ytype', 'float')}
    if case.get('dec') and len(set(case['dec'])) > 1:
        labs.add('row_decades')
        if max(case['dec']) - min(case['dec']) >= 8:
            labs.add('row_span8')
    if not 1e-3 <= case['h'] <= 0.5:
        labs.add('h_extreme')
    normal = np.abs(A @ A.T - A.T @ A).max() <= 1e-12 * max(1.0, np.abs(A).max() ** 2)
    if not normal:
        labs.add('nonnormal')
        if A.shape[0] >= 2:
            labs.add('nt')
    if np.ndim(case['y']) == 2:
        labs.add('batched')
    return labs


def oracle_taylor(case):
    A = mat(case['m'])
    y = start_vectors(case)
    h = float(case['h'])
    p = 1 if case['method'] == 'euler' else 4
    got = _step(case, A, y, h)
    require(got.shape == y.shape, lambda: '%s returned shape %r for state shape %r' % (case['method'], got.shape, y.shape))
    exp = _poly(A, h, y, p)
    # every row relative to its own magnitude (offset keyword: the rate law adds b - 1.5 = 0 exactly)
    ymax = np.maximum(np.abs(y).max(axis=-1, keepdims=True), 1e-300)
    eps = 6e-8 if case.get('ytype') == 'float32' else 2.3e-16
    tol = 64 * eps * ymax * (1 + h * np.linalg.norm(A, 2)) ** 4 * A.shape[0]
    err = (np.abs(got - exp) / tol).max() * tol.max()
    tol = tol.max()
    if err > tol:
        key = None
        if p == 4 and np.abs(got - _buggy_rk(A, h, y)).max() <= tol:
            key = K_RK
        raise Violation('%s step on y\'=Ay differs from the degree-%d Taylor polynomial of exp(hA) y by %.3g (tol %.3g); '
                        'h=%g |A|=%g got %r expected %r' % (case['method'], p, err, tol, h, np.linalg.norm(A, 2), got.tolist(), exp.tolist()), key)
    return _lin_labels(case, A)


def oracle_order(case):
    """one-step error against expm(hA) y: rigorous bracket | e(h) - L | <= tailf N with L, N the norms of the first two
    omitted Taylor terms, at h and h/2; when N <= 0.04 L the ratio e(h)/e(h/2) lies within 20 % of 2^(p+1)"""
    from scipy.linalg import expm
    A = mat(case['m'])
    if case.get('ytype') == 'float32' or case.get('dec'):
        case = dict(case, ytype='float', dec=None)        # the order bracket is a norm over the batch in double precision
    y = np.array(case['y'], dtype=float)
    if y.ndim == 1:
        y = y[None, :]
    h = float(case['h'])
    p = 1 if case['method'] == 'euler' else 4
    labs = _lin_labels(case, A)
    ynorm = max(np.linalg.norm(y), 1e-300)
    es, Ls, Ns = [], [], []
    for hh in (h, h / 2):
        got = _step(case, A, y, hh)
        exact = y @ expm(hh * A).T
        e = np.linalg.norm(got - exact)
        t = y.copy()
        for k in range(1, p + 2):
            t = (t @ A.T) * (hh / k)
        L = np.linalg.norm(t)
        N = np.linalg.norm((t @ A.T) * (hh / (p + 2)))
        floor = 200 * 2.3e-16 * ynorm * A.shape[0]
        # tail of the series after the first omitted term: sum_{j>=0} |hA|^j (p+2)!/(p+2+j)! times N  (<= 1.53 for |hA| <= 1.5)
        xh = hh * np.linalg.norm(A, 2)
        tailf, tj = 0.0, 1.0
        for j in range(60):
            tailf += tj
            tj *= xh / (p + 3 + j)
        tailf *= 1.0 + 1e-9
        if abs(e - L) > tailf * N + floor:
            key = K_RK if (p == 4 and np.abs(got - _buggy_rk(A, hh, y)).max() <= floor) else None
            raise Violation('%s: one-step error %.6g at h=%g is not the first omitted Taylor term %.6g (+- %.3g): the step is '
                            'not of order %d' % (case['method'], e, hh, L, tailf * N + floor, p), key)
        es.append(e); Ls.append(L); Ns.append(N)
    if Ns[0] <= 0.04 * Ls[0] and Ls[1] > 1e4 * 2.3e-16 * ynorm * A.shape[0]:
        ratio = es[0] / es[1]
        want = 2.0 ** (p + 1)
        require(0.8 * want <= ratio <= 1.25 * want,
                lambda: '%s: error ratio e(h)/e(h/2) = %.4g, expected %.4g +- 20%% (h=%g)' % (case['method'], ratio, want, h))
        labs.add('ratio_checked')
    return labs


# ----------------------------------------------------------------------------- gradient

@st.composite
def gradient_cases(draw):
    d = draw(st.integers(1, 4))
    c1 = gens.nice(-1.5, 1.5, 3)
    nsin = draw(st.integers(0, 3)); nexp = draw(st.integers(0, 2))
    sins = [{'a': draw(c1), 'w': [draw(c1) for _ in range(d)], 'phi': draw(c1)} for _ in range(nsin)]
    exps = [{'b': draw(c1), 'v': [draw(gens.nice(-0.8, 0.8, 3)) for _ in range(d)]} for _ in range(nexp)]
    quad = [[draw(c1) for _ in range(d)] for _ in range(d)]
    cub = [draw(c1) for _ in range(d)] if draw(st.booleans()) else [0.0] * d
    lin = [draw(c1) for _ in range(d)]
    lead = draw(st.sampled_from(['', 'n', 'mn']))
    shape = {'': [], 'n': [draw(st.integers(1, 5))], 'mn': [draw(st.integers(1, 3)), draw(st.integers(1, 3))]}[lead]
    npts = int(np.prod(shape)) if shape else 1
    pts = [[draw(gens.nice(-2.0, 2.0, 3)) for _ in range(d)] for _ in range(npts)]
    shift = draw(st.sampled_from([None, 1e-6, 1e-5, 1e-4, 1e-3, 1e-2])) if draw(st.booleans()) else draw(gens.nice(1e-6, 1e-2, 7))
    form = draw(st.sampled_from(['f64', 'f64', 'f32', 'ro', 'strided', 'F', 'int', 'int', 'int16']))
    dec = None
    if form in ('f64', 'ro', 'strided', 'F') and draw(st.integers(0, 2)) == 0:
        # evaluation points of very different magnitude in one call (no exponential terms then): each judged on its own
        dec = [draw(st.integers(-6, 3)) for _ in range(npts)]
        exps = []
    if form.startswith('int'):
        pts = [[float(draw(st.integers(-3, 3))) for _ in range(d)] for _ in range(npts)]
    return {'d': d, 'sins': sins, 'exps': exps, 'quad': quad, 'cub': cub, 'lin': lin, 'shape': shape, 'pts': pts,
            'shift': shift, 'aslist': draw(st.booleans()), 'f32': draw(st.integers(0, 4)) == 0, 'form': form, 'dec': dec,
            'other': [draw(gens.nice(-2.0, 2.0, 3)) for _ in range(d)]}


def _fun(case):
    d = case['d']
    Q = np.array(case['quad'], dtype=float).reshape(d, d)
    cub = np.array(case['cub'], dtype=float)
    lin = np.array(case['lin'], dtype=float)

    def f(x):
        x = np.asarray(x, dtype=float)
        out = x @ lin + np.einsum('...i,ij,...j->...', x, Q, x) + (x ** 3) @ cub
        for s in case['sins']:
            out = out + s['a'] * np.sin(x @ np.array(s['w']) + s['phi'])
        for e in case['exps']:
            out = out + e['b'] * np.exp(x @ np.array(e['v']))
        return out

    def grad(x):
        x = np.asarray(x, dtype=float)
        g = lin + x @ (Q + Q.T) + 3 * cub * x ** 2
        for s in case['sins']:
            g = g + (s['a'] * np.cos(x @ np.array(s['w']) + s['phi']))[..., None] * np.array(s['w'])
        for e in case['exps']:
            g = g + (e['b'] * np.exp(x @ np.array(e['v'])))[..., None] * np.array(e['v'])
        return g

    def third_bound(x, shift):
        """max over the segment x +- shift e_j of |d^3 f / dx_j^3|, per point and axis"""
        x = np.asarray(x, dtype=float)
        b = np.zeros(x.shape) + 6 * np.abs(cub)
        for s in case['sins']:
            b = b + abs(s['a']) * np.abs(np.array(s['w'])) ** 3
        for e in case['exps']:
            v = np.array(e['v'])
            b = b + (abs(e['b']) * np.exp(x @ v))[..., None] * np.abs(v) ** 3 * np.exp(np.abs(v) * shift)
        return b

    def fmag(x):
        x = np.asarray(x, dtype=float)
        m = np.abs(x) @ np.abs(lin) + np.einsum('...i,ij,...j->...', np.abs(x), np.abs(Q), np.abs(x)) + (np.abs(x) ** 3) @ np.abs(cub)
        for s in case['sins']:
            m = m + abs(s['a'])
        for e in case['exps']:
            m = m + abs(e['b']) * np.exp(x @ np.array(e['v']))
        return m

    return f, grad, third_bound, fmag


def oracle_gradient(case):
    from atomman.mep.gradient import central_difference
    d = case['d']
    f, grad, third, fmag = _fun(case)
    x = np.array(case['pts'], dtype=float)
    if case.get('dec'):
        x = x * (10.0 ** np.array(case['dec'], dtype=float))[:, None]
    x = x.reshape(list(case['shape']) + [d])
    form = case.get('form', 'f64')
    isint = form.startswith('int')
    f32 = (form == 'f32' or (bool(case.get('f32')) and form == 'f64')) and not case['aslist'] and not case.get('dec')
    if f32:
        # evaluation points handed over as a float32 array (the values the function sees are those float32 numbers);
        # the bound allows one float32 rounding of the result
        x = x.astype(np.float32).astype(float)
    if isint:
        arg = x.astype(int).tolist() if case['aslist'] else x.astype(np.int16 if form == 'int16' else int)
    elif case['aslist']:
        arg = x.tolist()
    elif f32:
        arg = x.astype(np.float32)
    elif form == 'ro':
        arg = x.copy(); arg.setflags(write=False)
    elif form == 'F':
        arg = np.asfortranarray(x)
    elif form == 'strided':
        big = np.full(tuple(2 * k for k in x.shape), 7.25); sl = tuple(slice(None, None, 2) for _ in x.shape)
        big[sl] = x; arg = big[sl]
    else:
        arg = x.copy()
    before = arg.tobytes() if isinstance(arg, np.ndarray) else repr(arg)
    if case['shift'] is None:
        raw = central_difference(f, arg); shift = 1e-5
    else:
        shift = float(case['shift'])
        raw = central_difference(f, arg, shift=shift)
    require((arg.tobytes() if isinstance(arg, np.ndarray) else repr(arg)) == before, 'central_difference changed the coordinates it was given')
    got = np.array(raw, dtype=float)
    require(got.shape == x.shape, lambda: 'gradient shape %r for coord shape %r' % (got.shape, x.shape))
    # a later evaluation elsewhere must not reach the array handed out earlier
    if case.get('other') is not None and isinstance(raw, np.ndarray):
        central_difference(f, np.zeros_like(x) + np.array(case['other'], dtype=float), shift=2 * shift)
        require(np.array_equal(np.array(raw, dtype=float), got), lambda: 'the gradient handed out earlier changed after a later call: was %r, is %r'
                % (got.tolist(), np.asarray(raw).tolist()))
    exact = grad(x)
    # truncation shift^2/6 |f'''| + rounding: each f value carries ~ (terms) eps |f| and x+-shift carries eps|x| -> eps |grad|;
    # every point against its own magnitudes
    xmag = np.abs(x).max(axis=-1, keepdims=True)
    bound = shift ** 2 / 6 * third(x, shift) * 1.0001 + (40 * 2.3e-16 * (fmag(x) + 1.0)[..., None] / shift) \
        + 1e-14 * (np.abs(exact) + 1) + 2.3e-16 * (xmag + 1) / shift * (np.abs(exact) + 1)
    if f32:
        bound = bound + 1.2e-7 * (np.abs(exact) + 1e-30) + 1e-38
    err = np.abs(got - exact)
    bad = err > bound
    require(not bad.any(), lambda: 'central_difference differs from the analytic gradient by %.3g (bound %.3g, shift %g): got %r exact %r'
            % (err[bad].max(), bound[bad].max(), shift, got.tolist(), exact.tolist()))
    labs = {'d%d' % d, 'lead%d' % len(case['shape']), 'list' if case['aslist'] else ('float32' if f32 else 'array'),
            'default_shift' if case['shift'] is None else 'shift', 'form_' + ('int' if isint else ('f64' if form == 'f32' else form))}
    if isint:
        labs.add('int_list' if case['aslist'] else 'int_array')
    if case.get('dec') and len(set(case['dec'])) > 1:
        labs.add('pt_decades')
    # second order: halving the shift divides the truncation error by 4 where truncation dominates rounding
    tb = shift ** 2 / 6 * third(x, 0.0)
    rb = 40 * 2.3e-16 * (fmag(x) + 1.0)[..., None] / shift
    if case['shift'] is not None and shift >= 2e-4 and not f32 and not case.get('dec'):
        g2 = np.asarray(central_difference(f, arg, shift=shift / 2))
        e1, e2 = np.abs(got - exact), np.abs(g2 - exact)
        dom = (e1 > 1e3 * rb) & (e1 > 1e-9)
        if dom.any():
            # fifth-derivative contamination is O(shift^2) relative: allow 3.5..4.6
            ratio = e1[dom] / np.maximum(e2[dom], 1e-300)
            require(np.all((ratio > 3.3) & (ratio < 4.9)), lambda: 'error ratio on halving shift = %r (expected ~4): not second order' % ratio.tolist())
            labs.add('ratio_checked')
    if d >= 2 and case['shape']:
        labs.add('nt')
    return labs


# ----------------------------------------------------------------------------- relaxation

@st.composite
def relax_cases(draw):
    a = draw(gens.nice(0.6, 2.0, 3))
    h0 = draw(gens.nice(0.5, 3.0, 3))
    # transverse stiffness within a factor 4 of the longitudinal one (8 h0/a^2 at the minima): keeps the number of
    # relaxation steps needed for convergence (~ condition number / dtfac) inside the step budget of the oracle
    k = round(draw(gens.nice(0.25, 4.0, 3)) * 4 * h0 / a ** 2, 4)
    generic = draw(st.sampled_from([True, True, True, False]))
    nz = lambda lo, hi, dg: gens.nice(lo, hi, dg).map(lambda v: v if abs(v) > 0.05 * hi else 0.3 * hi)
    c = draw(nz(-0.6, 0.6, 3) if generic else st.one_of(st.just(0.0), gens.nice(-0.6, 0.6, 3)))
    rot = draw(nz(-180.0, 180.0, 1) if generic else st.one_of(st.just(0.0), gens.nice(-180.0, 180.0, 1)))
    t = [draw(gens.nice(-3.0, 3.0, 2)), draw(gens.nice(-3.0, 3.0, 2))] if draw(st.booleans()) else [0.0, 0.0]
    n = draw(st.integers(7, 25))
    bend = draw(nz(-0.5, 0.5, 3) if generic else st.one_of(st.just(0.0), gens.nice(-0.5, 0.5, 3)))
    e0 = [draw(gens.nice(-0.2, 0.2, 3)), draw(gens.nice(-0.2, 0.2, 3))]
    e1 = [draw(gens.nice(-0.2, 0.2, 3)), draw(gens.nice(-0.2, 0.2, 3))]
    return {'a': a, 'h0': h0, 'k': k, 'c': c, 'rot': rot, 't': t, 'n': n, 'bend': bend, 'e0': e0, 'e1': e1,
            'dtfac': draw(st.sampled_from([0.1, 0.15, 0.25])), 'integ': draw(st.sampled_from(['rk', 'rk', 'rungekutta', 'euler'])),
            'opts': draw(st.sampled_from(['default', 'default', 'explicit_none', 'shift', 'empty', 'callable'])),
            'onecall': draw(st.booleans()), 'prior': draw(st.sampled_from([None, None, 'other_path_settings', 'coord_replaced']))}


def _surface(case):
    a, h0, k, c = case['a'], case['h0'], case['k'], case['c']
    th = math.radians(case['rot'])
    R = np.array([[math.cos(th), -math.sin(th)], [math.sin(th), math.cos(th)]])
    t = np.array(case['t'], dtype=float)

    def local(q):
        return (np.asarray(q, dtype=float) - t) @ R        # = R^T (q - t) for row vectors

    def E(q):
        p = local(q)
        u = (p[..., 0] / a) ** 2 - 1
        return h0 * u ** 2 + k * (p[..., 1] - c * u) ** 2

    def gradE(q):
        p = local(q)
        x, y = p[..., 0], p[..., 1]
        u = (x / a) ** 2 - 1
        w = y - c * u
        gx = (2 * h0 * u - 2 * k * w * c) * 2 * x / a ** 2
        gy = 2 * k * w
        return np.stack([gx, gy], axis=-1) @ R.T

    glob = lambda p: np.asarray(p, dtype=float) @ R.T + t
    return E, gradE, glob


def _lam_max(case):
    a, h0, k, c = case['a'], case['h0'], case['k'], case['c']
    # Hessian (local frame) sampled over the region the string visits; bound by Gershgorin
    lam = 0.0
    for x in np.linspace(-1.35 * a, 1.35 * a, 41):
        for y in np.linspace(-abs(c) - 0.6 * a, abs(c) + 0.6 * a, 21):
            u = (x / a) ** 2 - 1; w = y - c * u
            ux = 2 * x / a ** 2; uxx = 2 / a ** 2
            hxx = 2 * h0 * (ux ** 2 + u * uxx) + 2 * k * ((c * ux) ** 2 - w * c * uxx)
            hxy = -2 * k * c * ux
            hyy = 2 * k
            lam = max(lam, abs(hxx) + abs(hxy), abs(hyy) + abs(hxy))
    return lam


def oracle_relax(case):
    import atomman.mep as mep
    a, h0, c, n = case['a'], case['h0'], case['c'], case['n']
    E, gradE, glob = _surface(case)
    # initial string from near (-a,0) to near (+a,0) in the local frame, optionally bent
    s = np.linspace(0.0, 1.0, n)
    p0 = np.array([-a + case['e0'][0] * a, case['e0'][1] * a]); p1 = np.array([a + case['e1'][0] * a, case['e1'][1] * a])
    loc = p0[None, :] + s[:, None] * (p1 - p0)[None, :]
    loc[:, 1] += case['bend'] * a * np.sin(np.pi * s)
    coord = glob(loc)
    lam = _lam_max(case)
    dt = case['dtfac'] / lam
    opts = case['opts']
    kw = {}
    if opts == 'explicit_none':
        kw = dict(gradientfxn='cdiff', gradientkwargs=None, integratorfxn=case['integ'])
    elif opts == 'shift':
        kw = dict(gradientfxn='central_difference', gradientkwargs={'shift': 1e-6 * a}, integratorfxn=case['integ'])
    elif opts == 'empty':
        kw = dict(gradientkwargs={}, integratorfxn=case['integ'])
    elif opts == 'callable':
        kw = dict(gradientfxn=lambda fxn, q: gradE(q), gradientkwargs={}, integratorfxn=case['integ'])
    prior = case.get('prior')
    if prior == 'other_path_settings':
        # another path made earlier in this process with default options, whose own settings dict is then edited: the
        # judged path (also default options) must not inherit anything from it
        other = mep.create_path(coord[::-1].copy(), E) if opts in ('default', 'explicit_none') else mep.create_path(coord[::-1].copy(), E, gradientkwargs={})
        other.gradientkwargs['shift'] = 0.3 * a
        other.grad_energy()
    first_coord = coord
    if prior == 'coord_replaced':
        # the object first holds other points (whose gradient is read), then gets the judged points through the setter
        first_coord = coord[::-1] * 0.9 + 0.05 * a
    try:
        path = mep.create_path(first_coord.tolist() if n % 2 else first_coord.copy(), E, **kw)
    except TypeError as e:
        if 'gradientkwargs must be None or a dict' in str(e) and kw.get('gradientkwargs') is None:
            raise Violation('create_path(coord, energyfxn%s) with gradientkwargs left at its documented default None raised '
                            'TypeError(%s)' % ('' if opts == 'default' else ', ...', e), K_GK)
        raise
    labs = {'opts_' + opts, case['integ'], 'n%s' % ('<=12' if n <= 12 else '>12')}
    if prior:
        labs.add('prior_' + prior)
    # the gradient of the path's own points follows the points: read it, replace / edit the coordinates, read it again
    if prior == 'coord_replaced':
        path.grad_energy(); path.force; path.energy()
        path.coord = coord.copy()
    if True:
        g_obj = np.asarray(path.grad_energy(), dtype=float)
        g_ref = gradE(np.asarray(path.coord, dtype=float))
        shift_used = 1e-6 * a if opts == 'shift' else 1e-5
        # truncation shift^2/6 |E'''| (|E'''| <~ 3 lam/a on this family) + rounding eps |E|/shift (<~ 2.3e-10 lam a), both far below 1e-7 lam a
        gtol = (0.0 if opts == 'callable' else 50 * shift_used ** 2 * lam / a) + 1e-7 * (np.abs(g_ref).max() + lam * a)
        require(g_obj.shape == g_ref.shape and np.abs(g_obj - g_ref).max() <= gtol,
                lambda: 'path.grad_energy() differs from the analytic gradient at the path points by %.3g (tol %.3g)%s'
                % (np.abs(g_obj - g_ref).max(), gtol, ' after the coordinates were replaced' if prior == 'coord_replaced' else ''))
    # one plain step: end images move downhill, path keeps its image count
    p1s = path.step(timestep=dt)
    require(np.asarray(p1s.coord).shape == (n, 2), lambda: 'step() changed the path shape to %r' % (np.asarray(p1s.coord).shape,))
    # relaxation (steps needed ~ ln(1e-6)/(dtfac * lam_min/lam_max))
    tolr = 2e-6 * a * 2 * min(case['k'], 4 * h0 / a ** 2)      # |grad| floor ~ 2e-6 a lambda_min -> residual offsets ~ 2e-6 a
    nsteps = int(min(6000, 40 / case['dtfac'] * max(4.0, lam / (2 * min(case['k'], 4 * h0 / a ** 2)))))
    relaxed = path.relax(relaxsteps=nsteps, climbsteps=0, timestep=dt, tolerance=tolr, verbose=False)
    rc = np.asarray(relaxed.coord, dtype=float)
    # the oracle's own step budget may run out before the string has converged (stiff member of the family, small stable
    # time step): that is inconclusive, not a violation.  Convergence is measured with one further step.
    probe = np.asarray(relaxed.step(timestep=dt).coord, dtype=float)
    if np.linalg.norm(probe - rc, axis=-1).max() / dt > 50 * tolr:
        labs.add('not_converged_skipped')
        return labs
    mins = glob(np.array([[-a, 0.0], [a, 0.0]]))
    d0, d1 = np.linalg.norm(rc[0] - mins[0]), np.linalg.norm(rc[-1] - mins[1])
    require(d0 <= 1e-3 * a and d1 <= 1e-3 * a, lambda: 'after relax(%d steps, dt=%.4g) the end images are %.3g and %.3g away from the '
            'minima (tolerance %.3g); ends %r %r minima %r' % (nsteps, dt, d0, d1, 1e-3 * a, rc[0].tolist(), rc[-1].tolist(), mins.tolist()))
    en = E(rc)
    # (the discretised string need not lie exactly on the minimum energy path - an image next to the saddle may sit a
    # little above the barrier, and the property does not promise a unimodal profile - so only the stated clauses are judged)
    # ISMPath.relax picks the climbing image as a *strict* local energy maximum; an exactly symmetric string with an even
    # image count has its two top images tied to rounding and then (documented behaviour: "points that are local energy
    # maxima") no image climbs.  The tie is a measure-zero input: exempt, counted.
    srt = np.sort(en)
    if srt[-1] - srt[-2] <= 1e-14 * h0:
        labs.add('tie_exempt')
        return labs
    if case.get('onecall'):
        # relaxation and climbing requested in one relax() call (the relaxation phase converges before its step limit)
        climbed = path.relax(relaxsteps=nsteps, climbsteps=nsteps, timestep=dt, tolerance=tolr, verbose=False)
        labs.add('onecall')
    else:
        climbed = relaxed.relax(relaxsteps=0, climbsteps=nsteps, timestep=dt, tolerance=tolr, verbose=False)
    cc = np.asarray(climbed.coord, dtype=float)
    ec = E(cc)
    top = int(np.argmax(ec))
    saddle = glob(np.array([0.0, -c]))
    ds = np.linalg.norm(cc[top] - saddle)
    require(ds <= 5e-3 * a, lambda: 'after climbing the highest image %r is %.3g from the saddle %r (tolerance %.3g)' % (cc[top].tolist(), ds, saddle.tolist(), 5e-3 * a))
    g = np.linalg.norm(gradE(cc[top]))
    require(g <= 1e-2 * h0 / a, lambda: '|grad E| at the climbed image = %.3g (tolerance %.3g)' % (g, 1e-2 * h0 / a))
    require(abs(ec[top] - h0) <= 1e-4 * h0, lambda: 'energy of the climbed image %.8g differs from the true barrier %.8g' % (ec[top], h0))
    d0, d1 = np.linalg.norm(cc[0] - mins[0]), np.linalg.norm(cc[-1] - mins[1])
    require(d0 <= 1e-3 * a and d1 <= 1e-3 * a, lambda: 'after climbing the end images are %.3g and %.3g away from the minima' % (d0, d1))
    if case['bend'] != 0:
        labs.add('bent')
    if case['rot'] != 0:
        labs.add('rotated')
    if case['bend'] != 0 and case['rot'] != 0 and c != 0:
        labs.add('nt')
    return labs


CLAUSES = [
    Clause('taylor', oracle_taylor, linear_cases, quick=16000, thorough=400000, min_share={'nt': 0.19, 'batched': 0.19, 'rk': 0.2, 'yint': 0.04, 'yfloat32': 0.04, 'yfloat_strided': 0.04, 'row_decades': 0.048, 'h_extreme': 0.07},
           desc='euler / rungekutta step on y\'=Ay equals the degree-1 / degree-4 Taylor polynomial of exp(hA) y; shapes and keyword pass-through'),
    Clause('order', oracle_order, linear_cases, quick=8000, thorough=200000, min_share={'nt': 0.19, 'ratio_checked': 0.05},
           desc='one-step error against expm(hA) y is the first omitted Taylor term (rigorous bracket) and falls by 2^(p+1) on halving h'),
    Clause('gradient', oracle_gradient, gradient_cases, quick=8000, thorough=200000, min_share={'nt': 0.19, 'ratio_checked': 0.02, 'float32': 0.033, 'int_list': 0.05, 'int_array': 0.05, 'pt_decades': 0.03, 'form_strided': 0.03},
           desc='central_difference against the analytic gradient within shift^2/6 max|f\'\'\'| + rounding; ratio 4 on halving the shift; shapes'),
    Clause('relax', oracle_relax, relax_cases, quick=160, thorough=4000, nshards=16, min_share={'nt': 0.3, 'prior_other_path_settings': 0.1, 'prior_coord_replaced': 0.1}, max_share={'not_converged_skipped': 0.15},
           desc='string relaxation on the two-minimum family: ends reach the minima, one interior maximum, climbing image reaches the saddle, gradient vanishes, energy = barrier'),
]
