"""C02 - Periodic separation is a lattice image of the direct one and the nearest such.

Observation points: atomman.dvect, atomman.dmag, System.dvect, System.dmag, atomman.displacement.
Reference code: pbt/oracles/nearest_image.py (numpy only) plus the few lines below; nothing here calls the
function it judges, except the `displacement` clause which (as the property says) compares displacement()
with dvect() atom by atom *in addition to* the independent lattice / 27-candidate oracles.

Tolerances (derived, no calibration constant):
  every candidate component  d0_j + x b0_j + y b1_j + z b2_j  is formed with <= 4 roundings of quantities bounded
  by  sc = |d0| + |b0| + |b1| + |b2|,  so atomman's and my value of the same image differ by <= 4 eps sc per
  component, lengths by <= 7 eps sc.   ATOL = 32 eps sc  is used for every length / vector comparison
  (plus 1e-12 relative where the property speaks of equal lengths).  Two images count as "tied" (either may
  legitimately win) when their lengths differ by less than 1e-9 relative + 256 eps sc.
  Integrality of (d - d0).V^-1:  64 eps (sc * ||V^-1||_1col + cond(V)).
"""
import numpy as np

from ..core import Clause, Violation, HarnessError, require
from .. import gens, gens_c02
from ..oracles import nearest_image as NI

RULE = ("cells as C01 (LAMMPS triangular form, lengths 0.5-50, tilts up to 1.5 lengths, crystal families, optional rigid "
        "rotation and origin), plus dyadic cells (all arithmetic exact, exact ties and faces) and integer cells with "
        "integer-valued float Cartesian points; point sets one-to-one / one-to-many (either side) / many-to-many, 70 % "
        "inside [0,1]^3 (faces included), 30 % in [-3,4]^3, partly built as 'near partner wrapped through a face'; "
        "inputs spelled as ndarray / strided view / list / tuple / int-typed list, through am.dvect, am.dmag, System.dvect/dmag "
        "with float positions, with atom indices (int, numpy int, list, array, slice, negative, boolean mask) and mixed; "
        "EVERY case is evaluated under all 8 "
        "periodicity settings.  Non-trivial: under at least one setting with a periodic axis the winning image of "
        "at least one pair is not the direct separation (displacement: same, with a reference cell chosen)")
ASSUMPTIONS = ["numpy linear algebra is correct",
               "Box.vects / Box.origin return the cell that dvect documents to use (Box is judged by C01); the oracle "
               "reads the cell from box.vects so that Box's zeroing of components below 1e-9 max|vects| is not charged to dvect",
               "exhaustive nearest-image search radius proven in pbt/oracles/nearest_image.py (Cauchy-Schwarz on the dual basis)",
               "points exactly on a face (relative coordinate 0 or 1) count as lying in the cell"]
LEVEL_TEXT = ("Random cells (orthogonal, tilted, rotated, shifted origin, exact dyadic/integer), every one of the 8 "
              "periodicity settings per case, point sets of all broadcast shapes and input spellings through the five public "
              "entry points; true nearest image decided by an exhaustive lattice search with proven radius.")
TECHNIQUE = "integrality of (d-d0).V^-1, 27-candidate minimum, exhaustive nearest-image search, atom-by-atom dvect comparison"
WALL = {'quick': 60, 'thorough': 560}

EPS = 2.220446049250313e-16
PBCS = gens.PBCS


# ----------------------------------------------------------------------------- building inputs

def _spell(P, flat, how):
    A = P[0] if flat else P
    if how == 'array':
        return np.array(A, dtype=float)
    if how == 'fview':      # non-contiguous view with the same values
        W = np.zeros(A.shape[:-1] + (6,), dtype=float)
        W[..., ::2] = A
        return W[..., ::2]
    if how == 'intlist':    # plain Python ints (only for the free functions: System.* documents ints as indices)
        if np.all(A == np.rint(A)):
            return np.rint(A).astype(int).tolist()
        return A.tolist()
    if how == 'list':
        return A.tolist()
    return tuple(tuple(r) for r in A.tolist()) if A.ndim == 2 else tuple(A.tolist())


def _spell_pbc(pbc, how):
    if how == 'list':
        return [bool(x) for x in pbc]
    if how == 'tuple':
        return tuple(bool(x) for x in pbc)
    return np.array(pbc, dtype=bool)


def _index(lo, n, natoms, how):
    """an index object selecting atoms lo..lo+n-1 (in that order)"""
    ids = list(range(lo, lo + n))
    if how in ('int', 'npint') and n == 1:
        return int(lo) if how == 'int' else np.int64(lo)
    if how == 'slice':
        return slice(lo, lo + n)
    if how == 'neg':
        return [i - natoms for i in ids]
    if how == 'array':
        return np.array(ids, dtype=np.int64)
    if how == 'mask':
        m = np.zeros(natoms, dtype=bool)
        m[lo:lo + n] = True
        return m
    return ids


class Setup:
    """atomman objects and reference numbers for one pairs case"""

    def __init__(self, case):
        import atomman as am
        self.am = am
        c = case['cell']
        self.box = am.Box(vects=gens.cell_vects(c), origin=gens.cell_origin(c))
        self.V = np.array(self.box.vects, dtype=float)
        self.o = np.array(self.box.origin, dtype=float)
        A0, A1 = np.array(case['p0'], dtype=float), np.array(case['p1'], dtype=float)
        if case['cart']:
            self.P0, self.P1 = A0, A1
            self.S0 = self.S1 = None
        else:
            self.S0, self.S1 = A0, A1
            self.P0, self.P1 = A0 @ self.V + self.o, A1 @ self.V + self.o
        self.n0, self.n1 = len(self.P0), len(self.P1)
        self.N = max(self.n0, self.n1)
        self.B0 = np.broadcast_to(self.P0, (self.N, 3)) if self.n0 == 1 else self.P0
        self.B1 = np.broadcast_to(self.P1, (self.N, 3)) if self.n1 == 1 else self.P1
        self.D0 = self.B1 - self.B0
        self.bsum = float(np.linalg.norm(self.V, axis=1).sum())
        self.sc = np.linalg.norm(self.D0, axis=1) + self.bsum
        self.atol = 32 * EPS * self.sc
        self.inv = np.linalg.inv(self.V)
        self.cond = float(np.linalg.cond(self.V))
        self.route = case['route']
        self.case = case
        self.system = None
        if self.route != 'func':
            pos = np.vstack([self.P0, self.P1])
            self.system = am.System(atoms=am.Atoms(pos=pos), box=self.box, pbc=[True, True, True])
            self.natoms = len(pos)

    def args(self):
        case = self.case
        if self.route == 'sys_idx':
            return (_index(0, self.n0, self.natoms, case['idx']), _index(self.n0, self.n1, self.natoms, case['idx']))
        how = case['spell']
        if self.route == 'sys_mix':
            return (_spell(self.P0, case['flat0'], 'list' if how == 'intlist' else how),
                    _index(self.n0, self.n1, self.natoms, case['idx']))
        if how == 'intlist' and self.route != 'func':
            how = 'list'
        return (_spell(self.P0, case['flat0'], how), _spell(self.P1, case['flat1'], how))

    def call(self, what, pbc):
        """what = 'dvect' | 'dmag'; returns the raw result"""
        a0, a1 = self.args()
        if self.route == 'func':
            return getattr(self.am, what)(a0, a1, self.box, _spell_pbc(pbc, self.case['pbcspell']))
        self.system.pbc = _spell_pbc(pbc, self.case['pbcspell'])
        return getattr(self.system, what)(a0, a1)

    def dvect(self, pbc):
        raw = self.call('dvect', pbc)
        d = np.asarray(raw)
        where = 'dvect[%s] pbc=%r' % (self.route, pbc)
        require(d.dtype.kind == 'f', lambda: '%s returned dtype %r' % (where, d.dtype))
        # one row per broadcast pair; a single pair may come back as the bare vector (System.* does that)
        require(d.shape == (self.N, 3) or (self.N == 1 and d.shape == (3,)),
                lambda: '%s returned shape %r for inputs of %d and %d points' % (where, d.shape, self.n0, self.n1))
        d = d.reshape(-1, 3)
        require(bool(np.all(np.isfinite(d))), lambda: '%s returned non-finite values %r' % (where, d))
        return np.array(d, dtype=float)

    def dmag(self, pbc):
        raw = self.call('dmag', pbc)
        m = np.asarray(raw)
        where = 'dmag[%s] pbc=%r' % (self.route, pbc)
        require(m.dtype.kind == 'f', lambda: '%s returned dtype %r' % (where, m.dtype))
        require(m.shape == (self.N,) or (self.N == 1 and m.shape == ()),
                lambda: '%s returned shape %r for inputs of %d and %d points' % (where, m.shape, self.n0, self.n1))
        m = m.reshape(-1)
        require(bool(np.all(np.isfinite(m))), lambda: '%s returned non-finite values %r' % (where, m))
        return np.array(m, dtype=float)

    def labels(self):
        case = self.case
        labs = gens.cell_labels(case['cell'])
        labs.add('shape_%s-%s' % ('1' if self.n0 == 1 else 'N', '1' if self.n1 == 1 else 'N'))
        labs.add('route_' + self.route)
        if self.route in ('sys_idx', 'sys_mix'):
            labs.add('idx_' + case['idx'])
        if self.route != 'sys_idx':
            labs.add('spell_' + case['spell'])
            if case['spell'] == 'intlist' and self.route == 'func' and np.all(self.P0 == np.rint(self.P0)) and np.all(self.P1 == np.rint(self.P1)):
                labs.add('int_typed_positions')
        labs.add('kind_' + case['kind'].split('+')[0])
        if '+near' in case['kind']:
            labs.add('near')
        if NI.is_orthogonal_exact(self.V):
            labs.add('ortho')
        if self.cond > 1e3:
            labs.add('cond>1e3')
        return labs


# ----------------------------------------------------------------------------- reference pieces (numpy only)

_SHIFTS = {}
for _p in PBCS:
    _n, _ = NI.candidates27(np.zeros(3), np.eye(3), _p)
    _SHIFTS[tuple(_p)] = _n.astype(float)


def candidates(D0, V, pbc):
    """(N,M,3) candidate vectors d0 + n.V and their lengths (N,M); M = 27, 9, 3 or 1; column 0 is n = 0"""
    n = _SHIFTS[tuple(bool(x) for x in pbc)]
    C = D0[:, None, :] + (n @ V)[None, :, :]
    return n, C, np.sqrt((C * C).sum(axis=2))


def check_lattice(d, D0, V, inv, pbc, sc, cond, where):
    """d - d0 is an integer combination of the periodic cell vectors; returns the integer shifts (N,3)"""
    r = (d - D0) @ inv
    n = np.rint(r)
    ninv = float(np.abs(inv).sum(axis=0).max())
    tol = 64 * EPS * (sc * ninv + cond)
    dev = np.abs(r - n)
    bad = dev > tol[:, None]
    if bad.any():
        i = int(np.argmax(bad.any(axis=1)))
        raise Violation('%s: pair %d: (d - d0).V^-1 = %r is not integer (deviation %.3g, tol %.3g); d=%r d0=%r'
                        % (where, i, r[i].tolist(), dev[i].max(), tol[i], d[i].tolist(), D0[i].tolist()))
    for ax in range(3):
        if not pbc[ax] and np.any(n[:, ax] != 0):
            i = int(np.argmax(n[:, ax] != 0))
            raise Violation('%s: pair %d: shifted by %d cell vectors along NON-periodic axis %d; d=%r d0=%r'
                            % (where, i, int(n[i, ax]), ax, d[i].tolist(), D0[i].tolist()))
    rec = D0 + n @ V
    err = np.abs(d - rec).max(axis=1)
    # n.V with |n| possibly > 1 has one more rounding per term; 32 eps sc covers |n| <= 1, scale with |n|
    lim = 32 * EPS * sc * np.maximum(1.0, np.abs(n).max(axis=1))
    if np.any(err > lim):
        i = int(np.argmax(err > lim))
        raise Violation('%s: pair %d: d differs from d0 + n.V (n=%r) by %.3g (tol %.3g)' % (where, i, n[i].tolist(), err[i], lim[i]))
    return n


def check_best27(d, L27, atol, where, C=None):
    Ld = np.sqrt((d * d).sum(axis=1))
    exc = Ld[:, None] - L27 * (1 + 1e-12) - atol[:, None]
    if np.any(exc > 0):
        i, j = np.unravel_index(int(np.argmax(exc)), exc.shape)
        raise Violation('%s: pair %d: |d| = %.17g is longer than candidate #%d of length %.17g%s (d=%r)'
                        % (where, i, Ld[i], j, L27[i, j], '' if C is None else ' = %r' % C[i, j].tolist(), d[i].tolist()))
    return Ld


def nontrivial_labels(L27, Ld, atol, pbc, labs):
    """winning image is not the direct separation (direct candidate strictly longer than the result)"""
    if any(pbc) and np.any(L27[:, 0] > Ld * (1 + 1e-9) + 8 * atol):
        labs.add('nt')
        if not all(pbc):
            labs.add('nt_mixed')


# ----------------------------------------------------------------------------- clause oracles

def oracle_lattice(case):
    S = Setup(case)
    labs = S.labels()
    for pbc in PBCS:
        d = S.dvect(pbc)
        where = 'dvect[%s] pbc=%r' % (S.route, pbc)
        n = check_lattice(d, S.D0, S.V, S.inv, pbc, S.sc, S.cond, where)
        if np.any(n != 0):
            labs.add('nt')
            if not all(pbc):
                labs.add('nt_mixed')
            if np.any((n != 0).sum(axis=1) >= 2):
                labs.add('multi_axis_shift')
    return labs


def oracle_best27(case):
    S = Setup(case)
    labs = S.labels()
    for pbc in PBCS:
        d = S.dvect(pbc)
        where = 'dvect[%s] pbc=%r' % (S.route, pbc)
        _, C, L27 = candidates(S.D0, S.V, pbc)
        Ld = check_best27(d, L27, S.atol, where, C)
        nontrivial_labels(L27, Ld, S.atol, pbc, labs)
        if not any(pbc):
            err = np.abs(d - S.D0).max(axis=1)
            require(bool(np.all(err <= S.atol)), lambda: '%s: no periodic axis but d != p1 - p0 (max diff %.3g)' % (where, err.max()))
    return labs


def oracle_mag(case):
    S = Setup(case)
    labs = S.labels()
    for pbc in PBCS:
        d = S.dvect(pbc)
        m = S.dmag(pbc)
        where = 'dmag[%s] pbc=%r' % (S.route, pbc)
        Ld = np.sqrt((d * d).sum(axis=1))
        diff = np.abs(m - Ld)
        lim = 1e-12 * Ld + S.atol
        if np.any(diff > lim):
            i = int(np.argmax(diff - lim))
            raise Violation('%s: pair %d: dmag = %.17g but |dvect| = %.17g (diff %.3g, tol %.3g)' % (where, i, m[i], Ld[i], diff[i], lim[i]))
        # consequence of the two statements together: the scalar distance is not longer than any of the 27 candidates
        _, C, L27 = candidates(S.D0, S.V, pbc)
        exc = m[:, None] - L27 * (1 + 1e-12) - S.atol[:, None]
        if np.any(exc > 0):
            i, j = np.unravel_index(int(np.argmax(exc)), exc.shape)
            raise Violation('%s: pair %d: dmag = %.17g is longer than candidate #%d of length %.17g' % (where, i, m[i], j, L27[i, j]))
        require(bool(np.all(m >= 0)), lambda: '%s: negative distance %r' % (where, m))
        nontrivial_labels(L27, Ld, S.atol, pbc, labs)
    return labs


def oracle_true_nearest(case):
    if case['cart']:
        raise HarnessError('true_nearest expects relative coordinates')
    S = Setup(case)
    labs = S.labels()
    V = S.V
    ortho = NI.is_orthogonal_exact(V)
    wmin = float(NI.perp_widths(V).min())
    in0 = np.all((S.S0 >= 0) & (S.S0 <= 1), axis=1)
    in1 = np.all((S.S1 >= 0) & (S.S1 <= 1), axis=1)
    incell = np.broadcast_to(in0, (S.N,)) & np.broadcast_to(in1, (S.N,))
    onface = (np.broadcast_to(np.any((S.S0 == 0) | (S.S0 == 1), axis=1), (S.N,))
              | np.broadcast_to(np.any((S.S1 == 0) | (S.S1 == 1), axis=1), (S.N,))) & incell
    for pbc in PBCS:
        d = S.dvect(pbc)
        where = 'dvect[%s] pbc=%r' % (S.route, pbc)
        Ld = np.sqrt((d * d).sum(axis=1))
        ni = NI.NearestImage(V, pbc)
        _, C, L27 = candidates(S.D0, V, pbc)
        nontrivial_labels(L27, Ld, S.atol, pbc, labs)
        for i in range(S.N):
            atol = float(S.atol[i])
            res = ni.search(S.D0[i], tie_rel=1e-9, tie_abs=8 * atol)
            Ls = res['L']
            # the search is exhaustive, so a lattice image can never be shorter than its minimum
            require(Ld[i] >= Ls * (1 - 1e-12) - atol,
                    lambda: '%s: pair %d: |d| = %.17g is SHORTER than the true nearest image %.17g (n=%r): d is not a lattice image of d0=%r'
                    % (where, i, Ld[i], Ls, res['n'].tolist(), S.D0[i].tolist()))
            if not incell[i]:
                labs.add('premise_fails_outside')
                if Ld[i] > Ls * (1 + 1e-9) + 8 * atol:
                    labs.add('beyond27')
                continue
            if ortho:
                premise = True
            elif Ls < 0.5 * wmin * (1 - 1e-9):
                premise = True
            else:
                premise = False
                labs.add('premise_fails_incell' if Ls > 0.5 * wmin * (1 + 1e-9) else 'band_exempt')
                if Ld[i] > Ls * (1 + 1e-9) + 8 * atol:
                    labs.add('beyond27')
            if not premise:
                continue
            tilted_cell = not ortho
            if any(pbc):
                labs.add('premise_tilted' if tilted_cell else 'premise_ortho')
                if onface[i]:
                    labs.add('premise_onface')
                if np.any(res['n'] != 0):
                    labs.add('premise_wrapped')
                    if tilted_cell:
                        labs.add('premise_tilted_wrapped')
            require(abs(Ld[i] - Ls) <= 1e-12 * Ls + atol,
                    lambda: '%s: pair %d: both points in the cell, %s, but |d| = %.17g and the true nearest image has length %.17g '
                            '(shift n=%r, d0=%r, d=%r, half min width %.6g)'
                    % (where, i, 'cell orthogonal' if ortho else 'L* < w_min/2', Ld[i], Ls, res['n'].tolist(),
                       S.D0[i].tolist(), d[i].tolist(), 0.5 * wmin))
            if res['ntie'] == 1:
                labs.add('unique_vector_checked')
                err = float(np.abs(d[i] - res['vec']).max())
                require(err <= atol, lambda: '%s: pair %d: unique nearest image is %r (n=%r) but d = %r (diff %.3g, tol %.3g)'
                        % (where, i, res['vec'].tolist(), res['n'].tolist(), d[i].tolist(), err, atol))
            else:
                labs.add('tie')
    return labs


def _same_choice(a, b, L27, atol):
    """two results for the same pair: equal lengths; equal vectors when the shortest of the 27 candidates is unique"""
    La, Lb = float(np.linalg.norm(a)), float(np.linalg.norm(b))
    if abs(La - Lb) > 1e-12 * max(La, Lb) + atol:
        return 'lengths differ: %.17g vs %.17g' % (La, Lb)
    Lmin = float(L27.min())
    ntie = int(np.sum(L27 <= Lmin * (1 + 1e-9) + 8 * atol))
    if ntie == 1 and float(np.abs(a - b).max()) > atol:
        return 'vectors differ: %r vs %r (unique shortest candidate)' % (a.tolist(), b.tolist())
    return None


def oracle_displacement(case):
    import atomman as am
    c0, c1 = case['cell0'], case['cell1']
    box0 = am.Box(vects=gens.cell_vects(c0), origin=gens.cell_origin(c0))
    box1 = am.Box(vects=gens.cell_vects(c1), origin=gens.cell_origin(c1))
    V0, V1 = np.array(box0.vects, dtype=float), np.array(box1.vects, dtype=float)
    P0 = np.array(case['rel0'], dtype=float) @ V0 + np.array(box0.origin, dtype=float)
    P1 = np.array(case['rel1'], dtype=float) @ V1 + np.array(box1.origin, dtype=float)
    N = len(P0)
    ref = case['ref']
    labs = {'mode_' + case['mode'], 'ref_' + str(ref)}
    labs |= {'cell0_' + l for l in gens.cell_labels(c0)}
    D0 = P1 - P0
    pbc_other = PBCS[case['pbc_other']]
    sys0 = am.System(atoms=am.Atoms(pos=P0.copy()), box=box0, pbc=pbc_other)
    sys1 = am.System(atoms=am.Atoms(pos=P1.copy()), box=box1, pbc=pbc_other)
    use_final = ref in ('final', 'default')
    refsys, refbox, Vr = (sys1, box1, V1) if use_final else (sys0, box0, V0)
    if np.abs(V0 - V1).max() > 1e-6 * np.abs(V0).max():
        labs.add('boxes_differ')
    if ref is None:
        disp = np.asarray(am.displacement(sys0, sys1, box_reference=None))
        require(disp.shape == (N, 3), lambda: 'displacement(None) returned shape %r for %d atoms' % (disp.shape, N))
        err = np.abs(disp - D0).max()
        require(err <= 4 * EPS * max(np.abs(P0).max(), np.abs(P1).max()),
                lambda: 'displacement(box_reference=None) differs from pos_1 - pos_0 by %.3g' % err)
        if np.any(np.abs(D0) > 0):
            labs.add('nt_direct')
        return labs
    inv = np.linalg.inv(Vr)
    cond = float(np.linalg.cond(Vr))
    sc = np.linalg.norm(D0, axis=1) + float(np.linalg.norm(Vr, axis=1).sum())
    atol = 32 * EPS * sc
    for pbc in PBCS:
        refsys.pbc = pbc
        if pbc != pbc_other:
            labs.add('pbc_differ')
        if ref == 'default':
            disp = np.asarray(am.displacement(sys0, sys1))
        else:
            disp = np.asarray(am.displacement(sys0, sys1, box_reference=ref))
        where = 'displacement(box_reference=%r) ref pbc=%r other pbc=%r' % (ref, pbc, pbc_other)
        require(disp.shape == (N, 3) and disp.dtype.kind == 'f', lambda: '%s returned shape %r dtype %r for %d atoms' % (where, disp.shape, disp.dtype, N))
        require(bool(np.all(np.isfinite(disp))), lambda: '%s returned non-finite values' % where)
        disp = np.array(disp, dtype=float)
        check_lattice(disp, D0, Vr, inv, pbc, sc, cond, where)
        _, C, L27 = candidates(D0, Vr, pbc)
        Ld = check_best27(disp, L27, atol, where, C)
        # atom by atom against the separation function itself under the reference cell
        for i in range(N):
            one = np.asarray(am.dvect(P0[i], P1[i], refbox, pbc), dtype=float).reshape(3)
            msg = _same_choice(disp[i], one, L27[i], float(atol[i]))
            require(msg is None, lambda: '%s: atom %d: displacement vs dvect of the same atom: %s' % (where, i, msg))
        if any(pbc) and np.any(L27[:, 0] > Ld * (1 + 1e-9) + 8 * atol):
            labs.add('nt')
            if pbc != pbc_other:
                labs.add('nt_pbc_differ')
            if 'boxes_differ' in labs:
                labs.add('nt_boxes_differ')
    refsys.pbc = pbc_other
    return labs


_ROUTES = {'route_sys_idx': 0.1, 'route_sys_pos': 0.05, 'route_sys_mix': 0.045}
_SHAPES = {'shape_1-N': 0.12, 'shape_N-1': 0.12, 'shape_N-N': 0.12, 'shape_1-1': 0.12}
_COMMON = dict(_ROUTES, **_SHAPES, nt=0.36, nt_mixed=0.36, tilted=0.33, rotated=0.19, origin=0.23, kind_dyadic=0.045,
               kind_intcart=0.02)

CLAUSES = [
    Clause('lattice', oracle_lattice, gens_c02.general, quick=12000, thorough=200000,
           min_share=dict(_COMMON, multi_axis_shift=0.22, idx_mask=0.02, idx_slice=0.02, idx_neg=0.02, idx_int=0.025,
                          idx_npint=0.015, spell_fview=0.05, spell_tuple=0.05, spell_list=0.05, spell_intlist=0.04),
           desc='d - (p1-p0) is an integer combination of the cell vectors, zero along non-periodic directions, for all 8 pbc; '
                'one result row per broadcast pair; am.dvect and System.dvect (positions, atom indices, mixed)'),
    Clause('best27', oracle_best27, gens_c02.general, quick=12000, thorough=200000, min_share=dict(_COMMON),
           desc='|d| is not longer than any of the 27 (9/3/1) candidates with shifts -1,0,+1 on periodic axes, for all 8 pbc'),
    Clause('mag', oracle_mag, gens_c02.general, quick=10000, thorough=160000,
           min_share=dict(_COMMON, idx_mask=0.02, idx_slice=0.02, idx_int=0.025),
           desc='dmag equals |dvect| (same route, same inputs) and is not longer than any candidate; one value per broadcast pair'),
    Clause('true_nearest', oracle_true_nearest, gens_c02.premise_heavy, quick=10000, thorough=160000,
           min_share={'nt': 0.35, 'premise_tilted': 0.2, 'premise_tilted_wrapped': 0.1, 'premise_ortho': 0.2,
                      'premise_fails_incell': 0.2, 'premise_onface': 0.19, 'unique_vector_checked': 0.4, 'tie': 0.02,
                      'beyond27': 0.08, 'kind_dyadic': 0.08},
           desc='both points in the cell and (cell orthogonal or L* < half the smallest perpendicular width) => |d| equals the '
                'minimum L* of an exhaustive lattice search (vector too when the minimiser is unique); always |d| >= L*'),
    Clause('displacement', oracle_displacement, gens_c02.displacement_cases, quick=8000, thorough=120000,
           min_share={'nt': 0.3, 'nt_pbc_differ': 0.3, 'nt_boxes_differ': 0.2, 'ref_initial': 0.14, 'ref_default': 0.07,
                      'ref_None': 0.07, 'ref_final': 0.2},
           desc="displacement(s0, s1, box_reference) under 'final'/default, 'initial', None: lattice + 27-candidate oracles under "
                'the reference cell and pbc, and equal to dvect atom by atom; all 8 pbc of the reference system'),
]
