"""C02 - Periodic separation is a lattice image of the direct one and the nearest such.

Observation points: atomman.dvect, atomman.dmag, System.dvect, System.dmag, atomman.displacement.
Reference code: pbt/oracles/nearest_image.py (numpy only) plus the few lines below; nothing here calls the
function it judges, except the `displacement` clause which (as the property says) compares displacement()
with dvect() atom by atom *in addition to* the independent lattice / 27-candidate oracles.

Every clause also runs on objects with a HISTORY (Setup / oracle_displacement): the Box object first describes another
cell, the judged functions are called on it (and judged by judge_pairs with the same oracles), the same object is then
changed in place through a public setter and only then the case proper is evaluated; and on the documented input forms
(read-only / column-major / integer-typed arrays, whole-number positions that Atoms stores as integers).

PROCESS history: every array handed out by a judged call (the warm-up calls, the 8 calls of the case, the atom-by-atom
dvect calls of the displacement clause, calls with other numbers of pairs made afterwards) is entered in a Ledger with a
snapshot taken at return time; after all calls every one of them must still equal its snapshot, results of different calls
must not share memory, and the caller's input arrays must be unchanged (a result that a later call overwrites is not the
separation of ITS points any more).  FLOATING DTYPE: positions stored / passed as float32 or float16 (Atoms keeps the
dtype); the positions are rounded to that dtype first, so the values atomman is given are exact and the float64 tolerances
below apply unchanged (only displacement(box_reference=None), documented as "the straight difference between the
positions", is judged in the precision of numpy's result type for that difference).

Every case is expressed in a LENGTH UNIT: cell vectors, origin and positions are all multiplied by 10^k (k = 0 in 3 of 8
cases, else -12..6; 1e-10 = a crystal in SI metres, which atomman's working units may be).  The docstrings of the five
entry points state no length unit and no absolute tolerance (checked in dvect.pyx, dmag.pyx, displacement.py,
System.dvect/dmag: none in the code either; Box's clean-up of vector components is relative, 1e-9 max|vects|), so the
same oracles apply, and every tolerance below is relative to the size of the cell (sc) or dimensionless.

Generator classes carried over from the other properties (seeded regressions of rounds 1-4) and where they live here:
  A  result ledger            Ledger (results of every judged call, warm-up calls and calls with other numbers of pairs / other
                              reference cells included), re-judged bit for bit after all later calls; results of two calls must not
                              share memory                                              labels ledger, ledger_mixed_counts, ledger_warm
  B  caller-side mutation     inputs bit-identical after every call (position arrays, index arrays, pbc flags, the Box, the periodicity
                              and storage of the Systems: Ledger.add_input, Setup.call, _sys_state); Setup.reuse / the 'reuse' stage of
                              oracle_displacement: the caller overwrites in place the arrays it was handed OUT and asks again with the
                              SAME objects (same bits), overwrites in place the position arrays / pbc flags it handed IN and the
                              positions its Systems hand out, asks again, re-defines the Box through its setter, asks again; earlier
                              answers must not move.  (System.pbc keeps a bool ndarray it is given and hands it out again - the
                              in-place edit of it is a documented way of changing the periodicity, so THAT array is not overwritten
                              behind the System's back)                                  labels reuse, reuse_inputs, reuse_system
  C  storage / input dtypes   float32 / float16 (there since round 4), big-endian float storage and arguments, whole-number positions
                              as int8 ... uint64 / big-endian / bool ndarrays and as nested lists of numpy scalars with the largest or
                              smallest coordinate ON the limit of the dtype, narrow / unsigned / big-endian index arrays and scalars;
                              read-only, strided, Fortran-ordered, list, tuple were there        labels pos_be, arg_be, be_stored,
                              arg_narrowint, arg_npscalars, arg_unsigned, arg_int8_16, arg_int_be, arg_at_limit, idx_i8arr ...
  D  working units            does not apply: dvect, dmag, System.dvect/dmag and displacement convert no unit, have no default or
                              tolerance expressed in a unit and cache nothing derived from one (reset_units() cannot reach them); what
                              a unit change does to their INPUT - the same crystal in another length unit - is the 'scale' of every
                              case (labels scaled, unit<=1e-7 ...), there since the C17-c1 round
  E  near-threshold values    kind 'thresh': separations within 1e-3..1e-13 (relative) of HALF a cell vector, i.e. the direct separation
                              and an image almost - not exactly - equally long (exact ties were there: dyadic cells), points within
                              1e-3..1e-15 of a face on either side, cells whose tilts are 1e-3..1e-13 lx (Box's documented clean-up of
                              components below 1e-9 max|vects| is modelled by reading the cell back from the Box)
                                                                                          labels near_tie, near_face, tiny_tilt_kept
  F  many decades             kind 'decades' (and displacement 'special'): the separations of the rows of ONE call span 10^0..10^-14 of
                              the cell; rows whose direct separation wins outright are judged to THEIR OWN size (Setup.row_own: 16 eps
                              |p1-p0|; applied to every case), and every row of the many-row call equals the same pair alone
                                                                                          labels row_own, decades8, rows_alone
  G  exactly structured       cell['sym']: cell vectors relabelled, Cartesian axes permuted and mirrored without arithmetic:
                              upper-triangular cells, triangular cells with negative diagonal, left-handed cells, signed permutations
                              of orthogonal cells, cyclic relabellings (exact halves / eighths and integer cells were there)
                                                                                          labels sym, sym_upper, sym_negdiag, ...
  H  enumerated options       clause option_pairs: every ORDERED pair of (entry point, periodicity) states - 8 entry points / reference
                              cells x 8 settings - on the same Box and System objects, then the first again.  (The 8 settings per case
                              in 16 of their orders, both orders of dvect / dmag and the other reference cells after the chosen one
                              were there, sampled)                                        labels nt, nt_entries_differ, system_state_shared

Tolerances (derived, no calibration constant):
  every candidate component  d0_j + x b0_j + y b1_j + z b2_j  is formed with <= 4 roundings of quantities bounded
  by  sc = |d0| + |b0| + |b1| + |b2|,  so atomman's and my value of the same image differ by <= 4 eps sc per
  component, lengths by <= 7 eps sc.   ATOL = 32 eps sc  is used for every length / vector comparison
  (plus 1e-12 relative where the property speaks of equal lengths).  Two images count as "tied" (either may
  legitimately win) when their lengths differ by less than 1e-9 relative + 256 eps sc.
  Integrality of (d - d0).V^-1:  64 eps (sc * ||V^-1||_1col + cond(V)).
"""
import numpy as np

from ..core import Clause, Violation, HarnessError, require
from .. import gens, gens_c02
from ..oracles import nearest_image as NI

RULE = ("cells as C01 (LAMMPS triangular form, lengths 0.5-50, tilts up to 1.5 lengths, crystal families, optional rigid "
        "rotation and origin), every one expressed in a length unit 10^k (cell vectors, origin and positions multiplied by it; "
        "k = 0 in 3 of 8 cases, else -12..6 with SI metres 1e-10 favoured; all tolerances relative to the cell size), plus dyadic cells (all arithmetic exact, exact ties and faces) and integer cells with "
        "integer-valued float Cartesian points; point sets one-to-one / one-to-many (either side) / many-to-many, 70 % "
        "inside [0,1]^3 (faces included), 30 % in [-3,4]^3, partly built as 'near partner wrapped through a face'; "
        "inputs spelled as ndarray / strided view / column-major / read-only / int-typed ndarray / list / tuple / int-typed list, "
        "through am.dvect, am.dmag, System.dvect/dmag "
        "with float positions, with atom indices (int, numpy int, list, array, slice, negative, boolean mask) and mixed, on systems "
        "that store whole-number positions as integers; 40 % of the cases on objects with a HISTORY: the Box object first describes "
        "another cell, dvect/dmag are called (and judged) in that state, a short-lived other Box is used, and the same Box is then "
        "changed in place into the cell of the case through every public way (vects=, set(...) in its five forms, set_vectors, "
        "System.box_set with and without scale, System.wrap) and the atoms are given their positions through every public setter; "
        "displacement(): the same histories on both systems, systems built with scale=True / safecopy / a shared Box, "
        "whole-number positions stored as integers; positions stored in / passed as float32 (1 case in 4) or float16 (1 in 8, units "
        "0.01..10) arrays after rounding them to that dtype (displacement: either or both systems); every array handed out by a "
        "judged call (warm-up calls included) is compared with a snapshot taken at return time after all later calls with the same "
        "and (2 cases in 3) other numbers of pairs / other reference cells, and results of different calls must not share memory; "
        "cells also in their exactly structured versions (cell vectors relabelled, axes permuted and mirrored: upper-triangular, "
        "negative diagonal, left-handed), near-threshold pairs (almost half a cell vector apart, almost on a face, almost-zero tilts), "
        "separations spanning 14 decades in one call (rows judged to their own size and against the pair alone), whole-number positions "
        "in int8..uint64 / big-endian / bool arrays at the limits of the dtype, big-endian float storage; in half the cases the caller "
        "then overwrites in place what it was handed out and what it handed in and asks again with the same objects; every ordered pair "
        "of (entry point, periodicity) states enumerated on the same objects; "
        "EVERY case is evaluated under all 8 "
        "periodicity settings (order varied).  Non-trivial: under at least one setting with a periodic axis the winning image of "
        "at least one pair is not the direct separation (displacement: same, with a reference cell chosen)")
ASSUMPTIONS = ["numpy linear algebra is correct",
               "Box.vects / Box.origin return the cell that dvect documents to use (Box is judged by C01); the oracle "
               "reads the cell from box.vects so that Box's zeroing of components below 1e-9 max|vects| is not charged to dvect",
               "exhaustive nearest-image search radius proven in pbt/oracles/nearest_image.py (Cauchy-Schwarz on the dual basis)",
               "points exactly on a face (relative coordinate 0 or 1) count as lying in the cell"]
LEVEL_TEXT = ("Random cells (orthogonal, tilted, rotated, shifted origin, exact dyadic/integer), every one of the 8 "
              "periodicity settings per case, point sets of all broadcast shapes and input spellings through the five public "
              "entry points; true nearest image decided by an exhaustive lattice search with proven radius; exactly structured cells, "
              "near-threshold and many-decades point sets, narrow / unsigned / big-endian dtypes, caller-side mutation of everything "
              "handed in and out, and all 64 x 64 ordered pairs of (entry point, periodicity) states.")
TECHNIQUE = "integrality of (d-d0).V^-1, 27-candidate minimum, exhaustive nearest-image search, atom-by-atom dvect comparison"
WALL = {'quick': 60, 'thorough': 560}

EPS = 2.220446049250313e-16
PBCS = gens.PBCS


# ----------------------------------------------------------------------------- building inputs

def _whole64(A):
    """whole numbers that an int64 (and a float64) holds exactly"""
    return bool(np.all(A == np.rint(A)) and np.all(np.abs(A) <= 2.0 ** 53))


def int_dtype(idt, A):
    """the integer dtype named `idt` if it holds every value of the whole-number array A exactly, else None"""
    if idt is None or not np.all(A == np.rint(A)):
        return None
    if idt == 'bool':
        return np.dtype(bool) if np.all((A == 0) | (A == 1)) else None
    dt = np.dtype(idt)
    ii = np.iinfo(dt)
    if float(A.min()) < max(int(ii.min), -2 ** 53) or float(A.max()) > min(int(ii.max), 2 ** 53):
        return None
    return dt


def _spell(P, flat, how, dtype=float, idt=None):
    """`dtype`: floating dtype of the ndarray spellings (the values of P are exactly representable in it); `idt`: integer
    dtype of the spellings 'narrowint' / 'npscalars' (used when it holds the whole-number values of P exactly)"""
    A = P[0] if flat else P
    if how in ('narrowint', 'npscalars'):
        # whole numbers in a narrow / unsigned / big-endian / bool array, or as nested lists of numpy scalars of that dtype
        # (only for the free functions: System.* documents ints as indices)
        dt = int_dtype(idt, A)
        if dt is None:
            how = 'intarray' if how == 'narrowint' else 'intlist'
        else:
            I = np.rint(A).astype(np.int64).astype(dt) if dt.kind != 'u' else np.rint(A).astype(np.uint64).astype(dt)
            if not np.array_equal(I.astype(float), A):
                raise HarnessError('integer spelling %r does not hold %r' % (dt, A.tolist()))
            if how == 'narrowint':
                return I
            sc = I.astype(dt.newbyteorder('='))
            return [[v for v in row] for row in sc] if sc.ndim == 2 else [v for v in sc]
    if how == 'array':
        return np.array(A, dtype=dtype)
    if how == 'fview':      # non-contiguous view with the same values
        W = np.zeros(A.shape[:-1] + (6,), dtype=dtype)
        W[..., ::2] = A
        return W[..., ::2]
    if how == 'readonly':   # the caller's array must not be written to
        R = np.array(A, dtype=dtype)
        R.setflags(write=False)
        return R
    if how == 'forder':     # column-major memory layout
        return np.asfortranarray(np.array(A, dtype=dtype))
    if how == 'intarray':   # integer-typed ndarray (only for the free functions: System.* documents ints as indices)
        if _whole64(A):
            return np.rint(A).astype(np.int64)
        return np.array(A, dtype=dtype)
    if how == 'intlist':    # plain Python ints (only for the free functions: System.* documents ints as indices)
        if _whole64(A):
            return np.rint(A).astype(int).tolist()
        return A.tolist()
    if how == 'list':
        return A.tolist()
    return tuple(tuple(r) for r in A.tolist()) if A.ndim == 2 else tuple(A.tolist())


def _spell_pbc(pbc, how):
    if how == 'list':
        return [bool(x) for x in pbc]
    if how == 'tuple':
        return tuple(bool(x) for x in pbc)
    return np.array(pbc, dtype=bool)


def _index(lo, n, natoms, how):
    """an index object selecting atoms lo..lo+n-1 (in that order)"""
    ids = list(range(lo, lo + n))
    if how in ('int', 'npint') and n == 1:
        return int(lo) if how == 'int' else np.int64(lo)
    if how == 'slice':
        return slice(lo, lo + n)
    if how == 'neg':
        return [i - natoms for i in ids]
    if how == 'array':
        return np.array(ids, dtype=np.int64)
    if how == 'i8arr':
        return np.array(ids, dtype=np.int8)
    if how == 'u8arr':
        return np.array(ids, dtype=np.uint8)
    if how == 'bearr':
        return np.array(ids, dtype='>i4')
    if how == 'u64s':
        return np.uint64(lo) if n == 1 else np.array(ids, dtype=np.uint64)
    if how == 'i16neg':
        return np.int16(lo - natoms) if n == 1 else np.array([i - natoms for i in ids], dtype=np.int16)
    if how == 'mask':
        m = np.zeros(natoms, dtype=bool)
        m[lo:lo + n] = True
        return m
    return ids


# ----------------------------------------------------------------------------- object history (shared by all clauses)

def _int_form(P, form):
    """whole-number positions in an integer-typed spelling (Atoms then stores them as an integer array)"""
    I = np.rint(P).astype(np.int64)
    if form == 'intlist':
        return I.tolist()
    if form == 'int32':
        return I.astype(np.int32)
    return I


def _angle(u, v):
    return float(np.degrees(np.arccos(np.dot(u, v) / (np.linalg.norm(u) * np.linalg.norm(v)))))


def _peek(box):
    """derived Box quantities (one of them, reciprocal_vects, is cached inside the Box)"""
    return (box.reciprocal_vects, box.volume, box.a, box.alpha, box.cvect, box.is_lammps_norm())


def mutate_box(box, system, how, cell, pbcw):
    """turn the Box OBJECT `box` (held by `system`, if there is one) in place into `cell` through the public way `how`;
    'wrap' instead lets System.wrap() extend the box along its non-periodic directions.  Returns the way actually used."""
    Vt, ot = gens_c02.cell_vects(cell), gens_c02.cell_origin(cell)
    if how in ('set_lengths', 'set_hi_los', 'set_abc') and (cell.get('rot') or cell.get('lefthanded') or cell.get('sym')):
        how = 'set_vects'           # those three describe LAMMPS-oriented cells only
    if how == 'set_hi_los' and np.abs(ot).max() > 1e6 * min(abs(float(cell[k])) * float(cell.get('scale', 1.0)) for k in ('lx', 'ly', 'lz')):
        how = 'set_lengths'         # lo/hi bounds cannot describe a cell that is below the rounding of its own origin
    if how == 'sys_box_set_scale' and system is not None and np.asarray(system.atoms.pos).dtype.itemsize < 8:
        how = 'sys_box_set'         # re-scaling narrow-float positions between cells of very different size leaves the dtype's range
    if system is None and (how.startswith('sys_') or how == 'wrap'):
        raise HarnessError('history %r needs a System' % how)
    unit = float(cell.get('scale', 1.0))
    lx, ly, lz, xy, xz, yz = (float(cell[k]) * unit for k in ('lx', 'ly', 'lz', 'xy', 'xz', 'yz'))
    if how == 'vects=':
        box.vects = Vt
        box.origin = ot
    elif how == 'sys_box_vects=':
        system.box.vects = Vt.tolist()
        system.box.origin = ot.tolist()
    elif how == 'set_vects':
        box.set(vects=Vt.tolist(), origin=ot.tolist())
    elif how == 'set_avect':
        box.set(avect=Vt[0], bvect=Vt[1], cvect=Vt[2], origin=ot)
    elif how == 'set_vectors':
        box.set_vectors(Vt[0].tolist(), Vt[1].tolist(), Vt[2].tolist(), origin=ot.tolist())
    elif how == 'set_lengths':
        box.set(lx=lx, ly=ly, lz=lz, xy=xy, xz=xz, yz=yz, origin=ot)
    elif how == 'set_hi_los':
        box.set(xlo=ot[0], xhi=ot[0] + lx, ylo=ot[1], yhi=ot[1] + ly, zlo=ot[2], zhi=ot[2] + lz, xy=xy, xz=xz, yz=yz)
    elif how == 'set_abc':
        box.set(a=float(np.linalg.norm(Vt[0])), b=float(np.linalg.norm(Vt[1])), c=float(np.linalg.norm(Vt[2])),
                alpha=_angle(Vt[1], Vt[2]), beta=_angle(Vt[0], Vt[2]), gamma=_angle(Vt[0], Vt[1]), origin=ot)
    elif how == 'sys_box_set':
        system.box_set(vects=Vt, origin=ot)
    elif how == 'sys_box_set_scale':
        system.box_set(vects=Vt, origin=ot, scale=True)
    elif how == 'wrap':
        system.pbc = pbcw
        system.wrap()
    else:
        raise HarnessError('unknown history step %r' % how)
    return how


# ways that leave atoms.pos alone (the only ones used when the positions are stored as integers: assigning to an
# integer-typed per-atom property keeps its dtype - documented Atoms behaviour "new values are saved over the old ones" -
# so moving such atoms is not meaningful and is kept out of the history)
_STILL = ('vects=', 'sys_box_vects=', 'set_vects', 'set_avect', 'set_vectors', 'set_lengths', 'set_hi_los', 'set_abc', 'sys_box_set')


def set_positions(system, P, S, how, moved_by_scale):
    """give the atoms of `system` the Cartesian positions P (= relative S in the current box) through a public setter"""
    if how == 'keep' and not moved_by_scale:
        how = 'slice'
    if how == 'prop_scaled' and S is None:
        how = 'prop'
    if how == 'keep':           # box_set(scale=True) has moved the atoms along with the box: judge what it left
        pass
    elif how == 'slice':
        system.atoms.pos[:] = P
    elif how == 'attr':
        system.atoms.pos = np.array(P)
    elif how == 'view':
        system.atoms.view['pos'] = P.tolist()
    elif how == 'prop':
        system.atoms_prop('pos', value=np.array(P))
    elif how == 'prop_scaled':
        system.atoms_prop('pos', value=np.array(S), scale=True)
    else:
        raise HarnessError('unknown position setter %r' % how)
    return how


def unit_labels(unit):
    """labels for the length unit 10^k the case is expressed in"""
    if unit == 1.0:
        return {'unit_1'}
    labs = {'scaled'}
    if unit <= 1e-7:
        labs.add('unit<=1e-7')      # squared lengths below 1e-10 (SI metres: 1e-20)
    elif unit < 1.0:
        labs.add('unit_1e-6..0.1')
    else:
        labs.add('unit>=10')
    return labs


def nt_unit_labels(labs):
    """non-trivial cases per class of length unit"""
    if 'nt' in labs:
        for u in ('unit_1', 'unit<=1e-7', 'unit_1e-6..0.1', 'unit>=10'):
            if u in labs:
                labs.add('nt_' + u)
    return labs


def wrap_pbc(i):
    """periodicity for a history wrap(): never all three periodic, so that the box is extended"""
    return PBCS[i % 7]


_FDT = {'f32': np.float32, 'f16': np.float16, 'f64be': np.dtype('>f8'), 'f32be': np.dtype('>f4')}


def float_dtype(name, unit):
    """the narrow floating dtype of a case, or None for float64.  float16 (largest finite value 65504, spacing 6e-8 near
    zero) only for length units in which the positions of the generated cells are inside its range; else float32"""
    if name not in _FDT:
        return None
    if name == 'f16' and not (1e-2 <= unit <= 10.0):
        return np.float32
    return _FDT[name]


def narrow(X, dt):
    """X rounded to the floating dtype dt (float32 if a value leaves the range of float16), as an array of that dtype"""
    X = np.asarray(X, dtype=float)
    R = X.astype(dt)
    if not np.all(np.isfinite(R)):
        R = X.astype(np.float32)
    if not np.all(np.isfinite(R)):
        raise HarnessError('positions outside the range of float32')
    return R


class Ledger:
    """every array a judged call handed out (and every ndarray it was given), with a snapshot taken at return time.  The
    property speaks about the separation RETURNED for two points: the array the caller holds must stay that separation
    whatever is computed afterwards, so at the end of a case each one is compared with its snapshot (which was judged by
    the oracles when it was taken), and results of different calls must not share memory."""

    def __init__(self):
        self.results = []
        self.inputs = []

    def add(self, raw, where):
        if isinstance(raw, np.ndarray):
            self.results.append((raw, np.array(raw, copy=True), where))
        return raw

    def add_input(self, arr, where):
        if isinstance(arr, np.ndarray) and not any(arr is a for a, _, _ in self.inputs):
            self.inputs.append((arr, np.array(arr, copy=True), where))
        return arr

    def check_inputs(self):
        for arr, snap, where in self.inputs:
            if not np.array_equal(arr, snap):
                raise Violation('the input array of %s was changed: %r -> %r' % (where, snap.tolist(), arr.tolist()))

    def rebase(self, arr):
        """the CALLER has overwritten `arr` in place (after check_inputs): from now on it must keep its new content"""
        self.inputs = [(a, np.array(a, copy=True) if (a is arr or np.shares_memory(a, arr)) else snap, where)
                       for a, snap, where in self.inputs]
        self.results = [(a, np.array(a, copy=True) if (a is arr or np.shares_memory(a, arr)) else snap, where)
                        for a, snap, where in self.results]

    def verify(self, labs):
        res = self.results
        for raw, snap, where in res:
            if not (raw.shape == snap.shape and np.array_equal(raw, snap, equal_nan=True)):
                raise Violation('the array returned by %s was %r at return time and is %r after later calls'
                                % (where, snap.tolist(), raw.tolist()))
        self.check_inputs()
        for i in range(len(res)):
            a = res[i][0]
            for j in range(i + 1, len(res)):
                if np.shares_memory(a, res[j][0]):
                    raise Violation('the arrays returned by two calls share memory: %s / %s' % (res[i][2], res[j][2]))
            for arr, _, where in self.inputs:
                if np.shares_memory(a, arr):
                    raise Violation('the array returned by %s shares memory with an input array (%s)' % (res[i][2], where))
        if len(res) >= 2:
            labs.add('ledger')
            if len({r[0].size for r in res}) >= 2:
                labs.add('ledger_mixed_counts')


def judge_pairs(d, m, B0, B1, V, pbc, where):
    """the lattice, 27-candidate and length oracles for one call of dvect (d) and/or dmag (m) on pairs B0[i] -> B1[i]"""
    D0 = B1 - B0
    sc = np.linalg.norm(D0, axis=1) + float(np.linalg.norm(V, axis=1).sum())
    atol = 32 * EPS * sc
    _, C, L27 = candidates(D0, V, pbc)
    Ld = None
    if d is not None:
        d = np.asarray(d, dtype=float).reshape(-1, 3)
        require(d.shape == D0.shape, lambda: '%s: dvect returned %d rows for %d pairs' % (where, len(d), len(D0)))
        check_lattice(d, D0, V, np.linalg.inv(V), pbc, sc, float(np.linalg.cond(V)), where)
        Ld = check_best27(d, L27, atol, where, C)
    if m is not None:
        m = np.asarray(m, dtype=float).reshape(-1)
        require(m.shape == (len(D0),), lambda: '%s: dmag returned %d values for %d pairs' % (where, len(m), len(D0)))
        exc = m[:, None] - L27 * (1 + 1e-12) - atol[:, None]
        if np.any(exc > 0):
            i, j = np.unravel_index(int(np.argmax(exc)), exc.shape)
            raise Violation('%s: pair %d: dmag = %.17g is longer than candidate #%d of length %.17g' % (where, i, m[i], j, L27[i, j]))
        # and it is the length of a lattice image: not shorter than the shortest of the candidates unless a farther image wins,
        # which cannot be decided here; compared with |dvect| when both were asked for
        if Ld is not None:
            diff = np.abs(m - Ld)
            lim = 1e-12 * Ld + atol
            if np.any(diff > lim):
                i = int(np.argmax(diff - lim))
                raise Violation('%s: pair %d: dmag = %.17g but |dvect| = %.17g' % (where, i, m[i], Ld[i]))


def _ghost(am, cell, pbc, ledger):
    """a short-lived other Box is used by both functions and dropped (its id may be taken over by the next Box)"""
    g = am.Box(vects=gens_c02.cell_vects(cell), origin=gens_c02.cell_origin(cell))
    V = np.array(g.vects, dtype=float)
    B0 = np.array([[0.1, 0.2, 0.3]]) @ V + np.array(g.origin)
    B1 = np.array([[0.9, 0.8, 0.1]]) @ V + np.array(g.origin)
    where = 'short-lived box pbc=%r' % (pbc,)
    judge_pairs(ledger.add(am.dvect(B0, B1, g, pbc), 'dvect ' + where), ledger.add(am.dmag(B0, B1, g, pbc), 'dmag ' + where),
                B0, B1, V, pbc, where)
    del g


class Setup:
    """atomman objects and reference numbers for one pairs case"""

    def __init__(self, case):
        import atomman as am
        self.am = am
        self.case = case
        self.route = case['route']
        c = case['cell']
        hist = case.get('hist')
        cart = case['cart']
        A0, A1 = np.array(case['p0'], dtype=float), np.array(case['p1'], dtype=float)
        self.unit = float(c.get('scale', 1.0))
        if cart:        # Cartesian positions are given in units of the cell's length scale
            A0, A1 = A0 * self.unit, A1 * self.unit
        self.n0, self.n1 = len(A0), len(A1)
        self.natoms = self.n0 + self.n1
        whole = cart and bool(np.all(A0 == np.rint(A0)) and np.all(A1 == np.rint(A1)))
        self.intstore = whole and self.route != 'func' and case.get('postype', 'float') != 'float'
        self.labs = set()
        self.ledger = Ledger()
        # narrow floating dtype in which the positions are stored / passed (values rounded to it first: exact inputs)
        self.fdt = None if self.intstore else float_dtype(case.get('fdtype', 'f64'), self.unit)
        fdt = self.fdt
        how = hist['how'] if hist else None
        if hist and self.intstore and how not in _STILL:
            how = 'sys_box_set'
        need_sys = self.route != 'func' or (hist is not None and (how.startswith('sys_') or how == 'wrap' or hist['wform'] == 'sys'))

        def exact(X):
            """float64 array of the values of X rounded to the storage dtype"""
            return X if fdt is None else narrow(X, fdt).astype(float)

        def cartesian(V, o, widen=False):
            if cart and not widen:
                return exact(A0), exact(A1)
            if cart:
                inv = np.linalg.inv(V)
                R0, R1 = (A0 - o) @ inv, (A1 - o) @ inv
            else:
                R0, R1 = A0, A1
            if widen:       # most atoms outside the box, so that wrap() has something to do
                R0, R1 = 1.5 * R0 - 0.25, 1.5 * R1 - 0.25
            return exact(R0 @ V + o), exact(R1 @ V + o)

        # ---- the Box object in its first state
        if hist is None:
            first = c
        else:
            pbcw = wrap_pbc(hist['wpbc']) if how == 'wrap' else PBCS[hist['wpbc']]
            if hist.get('ghost'):
                _ghost(am, hist['cell'], pbcw, self.ledger)
            first = c if how == 'wrap' else hist['cell']
        self.box = am.Box(vects=gens_c02.cell_vects(first), origin=gens_c02.cell_origin(first))
        self.system = None
        if need_sys:
            Vf, of = np.array(self.box.vects, dtype=float), np.array(self.box.origin, dtype=float)
            Q0, Q1 = cartesian(Vf, of, widen=(how == 'wrap'))
            pos = np.vstack([Q0, Q1])
            if self.intstore:
                pos = _int_form(pos, case['postype'])
            elif fdt is not None:
                pos = narrow(pos, fdt)
            self.system = am.System(atoms=am.Atoms(pos=pos), box=self.box, pbc=[True, True, True])
            if self.intstore:
                # (since fix 2a7c2bf Atoms stores whole-number input as floats; integer storage is labelled when it still occurs)
                self.labs.add('int_stored_positions' if self.system.atoms.pos.dtype.kind in 'iu' else 'int_given_positions')
        # ---- history on these objects
        self.labs |= unit_labels(self.unit)
        if hist is not None:
            self.labs.add('hist')
            if float(hist['cell'].get('scale', 1.0)) != self.unit and how != 'wrap':
                self.labs.add('hist_other_unit')
            Vf, of = np.array(self.box.vects, dtype=float), np.array(self.box.origin, dtype=float)
            if hist.get('peek'):
                _peek(self.box)
            if hist['warm'] != 'none':
                Q0, Q1 = cartesian(Vf, of, widen=(how == 'wrap'))
                if hist['wform'] == 'sys':      # judged for the positions the System really holds
                    held = np.array(self.system.atoms.pos, dtype=float)
                    Q0, Q1 = held[:self.n0], held[self.n0:]
                N = max(self.n0, self.n1)
                B0 = np.broadcast_to(Q0, (N, 3)) if self.n0 == 1 else Q0
                B1 = np.broadcast_to(Q1, (N, 3)) if self.n1 == 1 else Q1
                wd, wm = hist['warm'] in ('dvect', 'both'), hist['warm'] in ('dmag', 'both')
                where = 'before the box was changed in place [%s] pbc=%r' % (hist['wform'], pbcw)
                d = m = None
                if hist['wform'] == 'sys':
                    self.system.pbc = pbcw
                    i0, i1 = list(range(self.n0)), list(range(self.n0, self.natoms))
                    if wm:
                        m = self.system.dmag(i0, i1)
                    if wd:
                        d = self.system.dvect(i0, i1)
                else:
                    W0, W1 = (Q0, Q1) if fdt is None else (narrow(Q0, fdt), narrow(Q1, fdt))
                    self.ledger.add_input(W0, 'warm-up pos_0')
                    self.ledger.add_input(W1, 'warm-up pos_1')
                    if wm:
                        m = am.dmag(W0, W1, self.box, pbcw)
                    if wd:
                        d = am.dvect(W0, W1, self.box, pbcw)
                # handed out now, judged now, and compared with this state again after all later calls (Ledger)
                self.ledger.add(d, 'dvect ' + where)
                self.ledger.add(m, 'dmag ' + where)
                judge_pairs(d, m, B0, B1, Vf, pbcw, where)
                self.labs.add('hist_warm_' + hist['warm'])
                self.labs.add('hist_warm')
            how = mutate_box(self.box, self.system, how, c, pbcw)
            self.labs.add('hist_' + how)
            if hist.get('peek'):
                _peek(self.box)
        # ---- the state that is judged
        self.V = np.array(self.box.vects, dtype=float)
        self.o = np.array(self.box.origin, dtype=float)
        if hist is not None and np.abs(self.V - Vf).max() > 1e-6 * np.abs(Vf).max():
            self.labs.add('hist_changed')
            if 'hist_warm' in self.labs:
                self.labs.add('hist_warm_changed')
        if cart:
            self.P0, self.P1 = exact(A0), exact(A1)
            self.S0 = self.S1 = None
        else:
            self.S0, self.S1 = A0, A1
            self.P0, self.P1 = exact(A0 @ self.V + self.o), exact(A1 @ self.V + self.o)
        if self.system is not None:
            if hist is not None and not self.intstore:
                sp = set_positions(self.system, np.vstack([self.P0, self.P1]),
                                   None if cart else np.vstack([self.S0, self.S1]), hist['setpos'], how == 'sys_box_set_scale')
                self.labs.add('setpos_' + sp)
            # the positions the System really holds are the ones the separation is judged for
            held = np.array(self.system.atoms.pos, dtype=float)
            require(held.shape == (self.natoms, 3), lambda: 'harness: system holds positions of shape %r' % (held.shape,))
            self.P0, self.P1 = held[:self.n0], held[self.n0:]
            sdt = self.system.atoms.pos.dtype
            if sdt.kind == 'f' and sdt.itemsize < 8:
                self.labs.add('pos_f%d' % (8 * sdt.itemsize))
            if sdt.byteorder == '>':
                self.labs.add('pos_be')
            self.ledger.add_input(self.system.atoms.pos, 'system.atoms.pos')
        # dtype of the ndarray spellings: the narrow one if it holds the judged positions exactly (a System whose first state
        # was outside the range of float16 stores float32, and its setters round to that), else the next wider one
        self.adt = float
        for dt in ((fdt, np.float32) if fdt is not None else ()):
            with np.errstate(over='ignore'):
                if all(np.array_equal(X.astype(dt).astype(float), X) for X in (self.P0, self.P1)):
                    self.adt = dt
                    break
        if self.system is None and self.adt is not float:
            self.labs.add('pos_f%d' % (8 * np.dtype(self.adt).itemsize))
            if np.dtype(self.adt).byteorder == '>':
                self.labs.add('pos_be')
        if self.route in ('func', 'sys_pos', 'sys_mix') and self.adt is not float:
            self.labs.add('arg_f%d' % (8 * np.dtype(self.adt).itemsize))
            if np.dtype(self.adt).byteorder == '>':
                self.labs.add('arg_be')
        if fdt is not None and not cart:
            # the positions really used are rounded ones: their relative coordinates (for the in-cell premise) are recomputed
            inv = np.linalg.inv(self.V)
            self.S0, self.S1 = (self.P0 - self.o) @ inv, (self.P1 - self.o) @ inv
        self.N = max(self.n0, self.n1)
        self.B0 = np.broadcast_to(self.P0, (self.N, 3)) if self.n0 == 1 else self.P0
        self.B1 = np.broadcast_to(self.P1, (self.N, 3)) if self.n1 == 1 else self.P1
        self.D0 = self.B1 - self.B0
        self.bsum = float(np.linalg.norm(self.V, axis=1).sum())
        self.sc = np.linalg.norm(self.D0, axis=1) + self.bsum
        self.atol = 32 * EPS * self.sc
        self.inv = np.linalg.inv(self.V)
        self.cond = float(np.linalg.cond(self.V))
        r = case.get('pbcrot', 0)
        order = PBCS[r % 8:] + PBCS[:r % 8]
        self.pbcs = order[::-1] if r >= 8 else order
        self._cand = {}

    def args(self):
        case = self.case
        if self.route == 'sys_idx':
            return (_index(0, self.n0, self.natoms, case['idx']), _index(self.n0, self.n1, self.natoms, case['idx']))
        how = case['spell']
        dt = self.adt
        if self.route != 'func':    # System.* documents integers as atom indices: whole numbers are spelled as floats there
            how = {'intlist': 'list', 'intarray': 'array', 'narrowint': 'array', 'npscalars': 'list'}.get(how, how)
        else:
            how = {'narrowint': 'intarray', 'npscalars': 'intlist'}.get(how, how) if case.get('idt') is None else how
        if self.route == 'sys_mix':
            return (_spell(self.P0, case['flat0'], how, dt), _index(self.n0, self.n1, self.natoms, case['idx']))
        idt = case.get('idt')
        return (_spell(self.P0, case['flat0'], how, dt, idt), _spell(self.P1, case['flat1'], how, dt, idt))

    def call(self, what, pbc):
        """what = 'dvect' | 'dmag'; returns the raw result (entered in the ledger together with the arrays it was given).  The
        objects handed in (Box, System periodicity, pbc flags) must be what they were after the call."""
        a0, a1 = self.args()
        where = '%s[%s] pbc=%r' % (what, self.route, pbc)
        self.ledger.add_input(a0, where + ' pos_0')
        self.ledger.add_input(a1, where + ' pos_1')
        flags = _spell_pbc(pbc, self.case['pbcspell'])
        if self.route == 'func':
            raw = getattr(self.am, what)(a0, a1, self.box, flags)
        else:
            self.system.pbc = flags
            raw = getattr(self.system, what)(a0, a1)
            require(self.system.pbc.tolist() == [bool(x) for x in pbc],
                    lambda: '%s changed the periodicity of the System to %r' % (where, self.system.pbc.tolist()))
        require([bool(x) for x in flags] == [bool(x) for x in pbc], lambda: '%s changed the pbc flags it was given to %r' % (where, flags))
        require(np.array_equal(self.box.vects, self.V) and np.array_equal(self.box.origin, self.o),
                lambda: '%s changed the Box it was given: vects %r origin %r' % (where, self.box.vects.tolist(), self.box.origin.tolist()))
        return self.ledger.add(raw, where)

    def cand(self, pbc):
        """the candidates of the case under pbc, and which rows are DIRECT: the direct separation is shorter than every other
        candidate by more than 1e-6 relative (no image can win, whatever the rounding)"""
        key = tuple(bool(x) for x in pbc)
        if key not in self._cand:
            _, C, L27 = candidates(self.D0, self.V, pbc)
            direct = np.all(L27[:, :1] * (1 + 1e-6) < L27[:, 1:], axis=1) if L27.shape[1] > 1 else np.ones(self.N, dtype=bool)
            if L27.shape[1] > 1:
                two = np.sort(L27, axis=1)[:, :2]
                gap = (two[:, 1] - two[:, 0]) / np.where(two[:, 1] > 0, two[:, 1], 1.0)
                if np.any((gap > 1e-13) & (gap < 1e-3)):
                    self.labs.add('near_tie')       # the two shortest candidates are almost, but not, equally long
            self._cand[key] = (C, L27, direct, np.sqrt((self.D0 * self.D0).sum(axis=1)))
        return self._cand[key]

    def row_own(self, d, m, pbc, where):
        """rows whose direct separation wins outright are that separation, each to ITS OWN size: p1 - p0 is one rounding per
        component, its length three more; nothing in the statement lets the other rows of the call, or the cell, enter"""
        _, _, direct, L0 = self.cand(pbc)
        if d is not None:
            err = np.abs(d - self.D0).max(axis=1)
            bad = direct & (err > 16 * EPS * L0)
            if bad.any():
                i = int(np.argmax(bad))
                raise Violation('%s: pair %d: the direct separation %r wins outright (next candidate > 1e-6 longer) but d = %r '
                                '(differs by %.3g = %.3g of its own length; other rows up to %.3g long)'
                                % (where, i, self.D0[i].tolist(), d[i].tolist(), err[i], err[i] / L0[i], L0.max()))
        if m is not None:
            err = np.abs(m - L0)
            bad = direct & (err > 16 * EPS * L0)
            if bad.any():
                i = int(np.argmax(bad))
                raise Violation('%s: pair %d: the direct separation of length %.17g wins outright but dmag = %.17g '
                                '(relative difference %.3g; other rows up to %.3g long)' % (where, i, L0[i], m[i], err[i] / L0[i], L0.max()))
        if any(pbc) and direct.any():
            self.labs.add('row_own')
            nz = L0[direct & (L0 > 0)]
            if len(nz) >= 2 and nz.max() >= 1e8 * nz.min():
                self.labs.add('decades8')

    def singles(self, labs):
        """one array, rows of very different size: every row of the many-row call equals the call with that row alone"""
        am = self.am
        pbc = self.pbcs[-1]
        where = 'rows one by one, pbc=%r' % (pbc,)
        B0, B1 = np.array(self.B0, dtype=float), np.array(self.B1, dtype=float)
        self.ledger.add_input(B0, where + ' pos_0')
        self.ledger.add_input(B1, where + ' pos_1')
        D = np.asarray(self.ledger.add(am.dvect(B0, B1, self.box, pbc), 'dvect ' + where), dtype=float).reshape(-1, 3)
        M = np.asarray(self.ledger.add(am.dmag(B0, B1, self.box, pbc), 'dmag ' + where), dtype=float).reshape(-1)
        judge_pairs(D, M, B0, B1, self.V, pbc, where)
        self.row_own(D, M, pbc, where)
        _, L27, direct, L0 = self.cand(pbc)
        for i in range(self.N):
            one = np.asarray(self.ledger.add(am.dvect(B0[i], B1[i], self.box, pbc), 'dvect of row %d alone' % i), dtype=float).reshape(3)
            mone = float(np.asarray(self.ledger.add(am.dmag(B0[i], B1[i], self.box, pbc), 'dmag of row %d alone' % i), dtype=float).reshape(()))
            tol = 16 * EPS * float(L0[i]) if direct[i] else float(self.atol[i])
            msg = _same_choice(D[i], one, L27[i], tol)
            require(msg is None, lambda: '%s: row %d of the %d-row call vs the same pair alone: %s' % (where, i, self.N, msg))
            require(abs(M[i] - mone) <= 1e-12 * mone + tol,
                    lambda: '%s: row %d of the %d-row dmag call is %.17g, the same pair alone %.17g' % (where, i, self.N, M[i], mone))
        labs.add('rows_alone')

    def reuse(self, labs):
        """caller-side mutation: the caller overwrites in place what it was handed OUT, asks again with the SAME input objects,
        overwrites in place what it handed IN (positions, pbc flags; the positions its System hands out) and asks again, then
        re-defines the Box through its setter and asks again.  Every answer is judged for the values the objects hold at the
        time of the call; the answers given before must not move (ledger)."""
        am = self.am
        self.ledger.check_inputs()
        V = self.V
        dt = self.adt
        X0, X1 = np.array(self.P0, dtype=dt), np.array(self.P1, dtype=dt)
        flags = np.array(self.pbcs[1], dtype=bool)
        box = self.box
        garbage = -7.25 * float(np.abs(V).max())

        def ask(stage, V):
            F0, F1 = np.array(X0, dtype=float), np.array(X1, dtype=float)
            N = max(len(F0), len(F1))
            B0 = np.broadcast_to(F0, (N, 3)) if len(F0) == 1 else F0
            B1 = np.broadcast_to(F1, (N, 3)) if len(F1) == 1 else F1
            pbc = [bool(x) for x in flags]
            where = 'same input objects, %s, pbc=%r' % (stage, pbc)
            d = am.dvect(X0, X1, box, flags)
            m = am.dmag(X0, X1, box, flags)
            require(np.array_equal(np.array(X0, dtype=float), F0) and np.array_equal(np.array(X1, dtype=float), F1)
                    and flags.tolist() == pbc, lambda: '%s: the arrays handed in were changed by the call' % where)
            judge_pairs(d, m, B0, B1, V, pbc, where)
            return d, m

        d1, m1 = ask('first call', V)
        kept = (np.array(d1, copy=True), np.array(m1, copy=True))
        for out in (d1, m1):        # the caller uses the arrays it was handed for something else
            if out.flags.writeable:
                out[...] = garbage
            self.ledger.add(out, 'a result array the caller has overwritten')
        d2, m2 = ask('after the caller overwrote the results of the first call', V)
        require(np.array_equal(d2, kept[0]) and np.array_equal(m2, kept[1]),
                lambda: 'the same call with the same objects gave %r / %r first and %r / %r after the caller had overwritten the '
                        'arrays it was handed' % (kept[0].tolist(), kept[1].tolist(), d2.tolist(), m2.tolist()))
        self.ledger.add(d2, 'dvect, second call with the same objects')
        self.ledger.add(m2, 'dmag, second call with the same objects')
        # the input arrays get other positions IN PLACE (points moved by fractions of the cell vectors), the flags other values
        with np.errstate(over='ignore'):
            Y0 = (np.array(X0, dtype=float) + np.array([0.37, -0.21, 0.45]) @ V).astype(dt)
            Y1 = (np.array(X1, dtype=float) + np.array([-0.45, 0.33, -0.12]) @ V).astype(dt)
        if np.all(np.isfinite(Y0)) and np.all(np.isfinite(Y1)):
            X0[...] = Y0
            X1[...] = Y1
            flags[...] = self.pbcs[2]
            d3, m3 = ask('after the caller overwrote the positions and flags in place', V)
            self.ledger.add(d3, 'dvect, call after the inputs were overwritten in place')
            self.ledger.add(m3, 'dmag, call after the inputs were overwritten in place')
            labs.add('reuse_inputs')
        # the System route: the positions the System hands out are overwritten in place, same index objects
        s = self.system
        if s is not None and s.atoms.pos.dtype.kind == 'f':
            i0, i1 = np.arange(self.n0), np.arange(self.n0, self.natoms)
            self.ledger.add_input(i0, 'index array 0')
            self.ledger.add_input(i1, 'index array 1')
            for stage in ('before', 'after the caller overwrote system.atoms.pos in place'):
                held = np.array(s.atoms.pos, dtype=float)
                H0, H1 = held[:self.n0], held[self.n0:]
                N = self.N
                B0 = np.broadcast_to(H0, (N, 3)) if self.n0 == 1 else H0
                B1 = np.broadcast_to(H1, (N, 3)) if self.n1 == 1 else H1
                pbc = self.pbcs[3] if stage == 'before' else self.pbcs[4]
                s.pbc = pbc
                where = 'System, same index objects, %s, pbc=%r' % (stage, pbc)
                d = self.ledger.add(s.dvect(i0, i1), 'dvect ' + where)
                m = self.ledger.add(s.dmag(i0, i1), 'dmag ' + where)
                judge_pairs(d, m, B0, B1, np.array(s.box.vects, dtype=float), pbc, where)
                if stage == 'before':
                    pos = s.atoms.pos
                    with np.errstate(over='ignore'):
                        Y = (held + np.array([0.29, 0.41, -0.35]) @ V).astype(pos.dtype)
                    if not np.all(np.isfinite(Y)):
                        break
                    pos[...] = Y
                    self.ledger.rebase(pos)
                    labs.add('reuse_system')
        # the Box is re-defined through its setter: same object, same position arrays
        box.vects = V * np.array([[1.25], [0.8], [1.1]])
        V2 = np.array(box.vects, dtype=float)
        d4, m4 = ask('after the caller re-defined the Box through its setter', V2)
        self.ledger.add(d4, 'dvect, call after the Box was re-defined')
        self.ledger.add(m4, 'dmag, call after the Box was re-defined')
        labs.add('reuse')

    def finish(self, labs):
        """after the 8 judged calls of the case (all with the same number of pairs): optionally judged calls with OTHER numbers
        of pairs, the rows of a many-decades array one by one, the caller-side mutation stage; then every array handed out
        since the objects were made is compared with its snapshot"""
        am, k = self.am, int(self.case.get('after', 0))
        pbc = self.pbcs[0]
        extra = []
        if k & 1:       # one pair more
            extra.append((np.vstack([self.B0, self.B1[:1]]), np.vstack([self.B1, self.B0[:1]])))
        if k & 2:       # a single pair (for N = 1: two pairs)
            extra.append((self.B0[-1:], self.B1[-1:]) if self.N > 1 else (np.vstack([self.B0, self.B0]), np.vstack([self.B1, self.B1])))
        for B0, B1 in extra:
            B0, B1 = np.array(B0, dtype=float), np.array(B1, dtype=float)
            where = 'afterwards, %d pairs, pbc=%r' % (len(B0), pbc)
            d = self.ledger.add(am.dvect(B0, B1, self.box, pbc), 'dvect ' + where)
            m = self.ledger.add(am.dmag(B0, B1, self.box, pbc), 'dmag ' + where)
            judge_pairs(d, m, B0, B1, self.V, pbc, where)
            labs.add('after_other_count')
        if self.case['kind'] == 'decades':
            self.singles(labs)
        if self.case.get('reuse'):
            self.reuse(labs)
        labs |= self.labs
        self.ledger.verify(labs)
        for f in ('decades8', 'reuse', 'sym', 'sym_upper', 'near_tie', 'tiny_tilt'):
            if f in labs and 'nt' in labs:
                labs.add('nt_' + f)
        if 'hist_warm' in labs and 'ledger' in labs:
            labs.add('ledger_warm')
        for f in ('pos_f32', 'pos_f16'):
            if f in labs and 'nt' in labs:
                labs.add('nt_' + f)
        return nt_unit_labels(labs)

    def dvect(self, pbc):
        raw = self.call('dvect', pbc)
        d = np.asarray(raw)
        where = 'dvect[%s] pbc=%r' % (self.route, pbc)
        require(d.dtype.kind == 'f', lambda: '%s returned dtype %r' % (where, d.dtype))
        # one row per broadcast pair; a single pair may come back as the bare vector (System.* does that)
        require(d.shape == (self.N, 3) or (self.N == 1 and d.shape == (3,)),
                lambda: '%s returned shape %r for inputs of %d and %d points' % (where, d.shape, self.n0, self.n1))
        d = d.reshape(-1, 3)
        require(bool(np.all(np.isfinite(d))), lambda: '%s returned non-finite values %r' % (where, d))
        d = np.array(d, dtype=float)
        self.row_own(d, None, pbc, where)
        return d

    def dmag(self, pbc):
        raw = self.call('dmag', pbc)
        m = np.asarray(raw)
        where = 'dmag[%s] pbc=%r' % (self.route, pbc)
        require(m.dtype.kind == 'f', lambda: '%s returned dtype %r' % (where, m.dtype))
        require(m.shape == (self.N,) or (self.N == 1 and m.shape == ()),
                lambda: '%s returned shape %r for inputs of %d and %d points' % (where, m.shape, self.n0, self.n1))
        m = m.reshape(-1)
        require(bool(np.all(np.isfinite(m))), lambda: '%s returned non-finite values %r' % (where, m))
        m = np.array(m, dtype=float)
        self.row_own(None, m, pbc, where)
        return m

    def labels(self):
        case = self.case
        labs = gens.cell_labels(case['cell']) | self.labs
        labs.add('shape_%s-%s' % ('1' if self.n0 == 1 else 'N', '1' if self.n1 == 1 else 'N'))
        labs.add('route_' + self.route)
        if self.route in ('sys_idx', 'sys_mix'):
            labs.add('idx_' + case['idx'])
        if self.route != 'sys_idx':
            labs.add('spell_' + case['spell'])
            if case['spell'] in ('intlist', 'intarray') and self.route == 'func' and _whole64(self.P0) and _whole64(self.P1):
                labs.add('int_typed_positions')
        labs.add('kind_' + case['kind'].split('+')[0])
        if '+near' in case['kind']:
            labs.add('near')
        if '+face' in case['kind']:
            labs.add('near_face')
        if '+tie' in case['kind']:
            labs.add('half_vector_pairs')
        c = case['cell']
        labs |= gens_c02.sym_labels(c)
        if any(0 < abs(c[t]) <= 1e-4 * c[r] for t, r in (('xy', 'lx'), ('xz', 'lx'), ('yz', 'ly'))):
            labs.add('tiny_tilt')
            aV = np.abs(self.V)
            if np.any((aV > 0) & (aV <= 1e-4 * aV.max())):
                labs.add('tiny_tilt_kept')      # (Box zeroes components below 1e-9 of its largest one: the rest is really there)
        if self.route == 'func' and case['spell'] in ('narrowint', 'npscalars'):
            dts = [int_dtype(case.get('idt'), X) for X in (self.P0, self.P1)]
            got = [dt for dt in dts if dt is not None]
            if got:
                labs.add('arg_' + case['spell'])
                if any(dt.kind in 'ub' for dt in got):
                    labs.add('arg_unsigned')
                if any(dt.byteorder == '>' for dt in got):
                    labs.add('arg_int_be')
                if any(dt.itemsize <= 2 for dt in got):
                    labs.add('arg_int8_16')
                if case.get('lim'):
                    labs.add('arg_at_limit')
        if NI.is_orthogonal_exact(self.V):
            labs.add('ortho')
        if self.cond > 1e3:
            labs.add('cond>1e3')
        return labs


# ----------------------------------------------------------------------------- reference pieces (numpy only)

_SHIFTS = {}
for _p in PBCS:
    _n, _ = NI.candidates27(np.zeros(3), np.eye(3), _p)
    _SHIFTS[tuple(_p)] = _n.astype(float)


def candidates(D0, V, pbc):
    """(N,M,3) candidate vectors d0 + n.V and their lengths (N,M); M = 27, 9, 3 or 1; column 0 is n = 0"""
    n = _SHIFTS[tuple(bool(x) for x in pbc)]
    C = D0[:, None, :] + (n @ V)[None, :, :]
    return n, C, np.sqrt((C * C).sum(axis=2))


def check_lattice(d, D0, V, inv, pbc, sc, cond, where):
    """d - d0 is an integer combination of the periodic cell vectors; returns the integer shifts (N,3)"""
    r = (d - D0) @ inv
    n = np.rint(r)
    ninv = float(np.abs(inv).sum(axis=0).max())
    tol = 64 * EPS * (sc * ninv + cond)
    dev = np.abs(r - n)
    bad = dev > tol[:, None]
    if bad.any():
        i = int(np.argmax(bad.any(axis=1)))
        raise Violation('%s: pair %d: (d - d0).V^-1 = %r is not integer (deviation %.3g, tol %.3g); d=%r d0=%r'
                        % (where, i, r[i].tolist(), dev[i].max(), tol[i], d[i].tolist(), D0[i].tolist()))
    # (where the separation is so much larger than the cell that rounding alone moves (d - d0).V^-1 by half a unit, rint() of
    # it is noise, not a shift: nothing can be said about such a pair here; the length oracles still apply to it)
    resolved = tol < 0.25
    for ax in range(3):
        if not pbc[ax] and np.any((n[:, ax] != 0) & resolved):
            i = int(np.argmax((n[:, ax] != 0) & resolved))
            raise Violation('%s: pair %d: shifted by %d cell vectors along NON-periodic axis %d; d=%r d0=%r'
                            % (where, i, int(n[i, ax]), ax, d[i].tolist(), D0[i].tolist()))
    rec = D0 + n @ V
    err = np.abs(d - rec).max(axis=1)
    # n.V with |n| possibly > 1 has one more rounding per term; 32 eps sc covers |n| <= 1, scale with |n|
    lim = 32 * EPS * sc * np.maximum(1.0, np.abs(n).max(axis=1))
    if np.any(err > lim):
        i = int(np.argmax(err > lim))
        raise Violation('%s: pair %d: d differs from d0 + n.V (n=%r) by %.3g (tol %.3g)' % (where, i, n[i].tolist(), err[i], lim[i]))
    return n


def check_best27(d, L27, atol, where, C=None):
    Ld = np.sqrt((d * d).sum(axis=1))
    exc = Ld[:, None] - L27 * (1 + 1e-12) - atol[:, None]
    if np.any(exc > 0):
        i, j = np.unravel_index(int(np.argmax(exc)), exc.shape)
        raise Violation('%s: pair %d: |d| = %.17g is longer than candidate #%d of length %.17g%s (d=%r)'
                        % (where, i, Ld[i], j, L27[i, j], '' if C is None else ' = %r' % C[i, j].tolist(), d[i].tolist()))
    return Ld


def nontrivial_labels(L27, Ld, atol, pbc, labs):
    """winning image is not the direct separation (direct candidate strictly longer than the result)"""
    if any(pbc) and np.any(L27[:, 0] > Ld * (1 + 1e-9) + 8 * atol):
        labs.add('nt')
        if not all(pbc):
            labs.add('nt_mixed')


# ----------------------------------------------------------------------------- clause oracles

def oracle_lattice(case):
    S = Setup(case)
    labs = S.labels()
    for pbc in S.pbcs:
        d = S.dvect(pbc)
        where = 'dvect[%s] pbc=%r' % (S.route, pbc)
        n = check_lattice(d, S.D0, S.V, S.inv, pbc, S.sc, S.cond, where)
        if np.any(n != 0):
            labs.add('nt')
            if not all(pbc):
                labs.add('nt_mixed')
            if np.any((n != 0).sum(axis=1) >= 2):
                labs.add('multi_axis_shift')
    return S.finish(labs)


def oracle_best27(case):
    S = Setup(case)
    labs = S.labels()
    for pbc in S.pbcs:
        d = S.dvect(pbc)
        where = 'dvect[%s] pbc=%r' % (S.route, pbc)
        _, C, L27 = candidates(S.D0, S.V, pbc)
        Ld = check_best27(d, L27, S.atol, where, C)
        nontrivial_labels(L27, Ld, S.atol, pbc, labs)
        if not any(pbc):
            err = np.abs(d - S.D0).max(axis=1)
            require(bool(np.all(err <= S.atol)), lambda: '%s: no periodic axis but d != p1 - p0 (max diff %.3g)' % (where, err.max()))
    return S.finish(labs)


def oracle_mag(case):
    S = Setup(case)
    labs = S.labels()
    for pbc in S.pbcs:
        if case.get('magfirst'):
            labs.add('dmag_first')
            m = S.dmag(pbc)
            d = S.dvect(pbc)
        else:
            d = S.dvect(pbc)
            m = S.dmag(pbc)
        where = 'dmag[%s] pbc=%r' % (S.route, pbc)
        Ld = np.sqrt((d * d).sum(axis=1))
        diff = np.abs(m - Ld)
        lim = 1e-12 * Ld + S.atol
        if np.any(diff > lim):
            i = int(np.argmax(diff - lim))
            raise Violation('%s: pair %d: dmag = %.17g but |dvect| = %.17g (diff %.3g, tol %.3g)' % (where, i, m[i], Ld[i], diff[i], lim[i]))
        # consequence of the two statements together: the scalar distance is not longer than any of the 27 candidates
        _, C, L27 = candidates(S.D0, S.V, pbc)
        exc = m[:, None] - L27 * (1 + 1e-12) - S.atol[:, None]
        if np.any(exc > 0):
            i, j = np.unravel_index(int(np.argmax(exc)), exc.shape)
            raise Violation('%s: pair %d: dmag = %.17g is longer than candidate #%d of length %.17g' % (where, i, m[i], j, L27[i, j]))
        require(bool(np.all(m >= 0)), lambda: '%s: negative distance %r' % (where, m))
        nontrivial_labels(L27, Ld, S.atol, pbc, labs)
    return S.finish(labs)


def oracle_true_nearest(case):
    if case['cart']:
        raise HarnessError('true_nearest expects relative coordinates')
    S = Setup(case)
    labs = S.labels()
    V = S.V
    ortho = NI.is_orthogonal_exact(V)
    wmin = float(NI.perp_widths(V).min())
    in0 = np.all((S.S0 >= 0) & (S.S0 <= 1), axis=1)
    in1 = np.all((S.S1 >= 0) & (S.S1 <= 1), axis=1)
    incell = np.broadcast_to(in0, (S.N,)) & np.broadcast_to(in1, (S.N,))
    onface = (np.broadcast_to(np.any((S.S0 == 0) | (S.S0 == 1), axis=1), (S.N,))
              | np.broadcast_to(np.any((S.S1 == 0) | (S.S1 == 1), axis=1), (S.N,))) & incell
    for pbc in S.pbcs:
        d = S.dvect(pbc)
        where = 'dvect[%s] pbc=%r' % (S.route, pbc)
        Ld = np.sqrt((d * d).sum(axis=1))
        ni = NI.NearestImage(V, pbc)
        _, C, L27 = candidates(S.D0, V, pbc)
        nontrivial_labels(L27, Ld, S.atol, pbc, labs)
        for i in range(S.N):
            atol = float(S.atol[i])
            res = ni.search(S.D0[i], tie_rel=1e-9, tie_abs=8 * atol)
            Ls = res['L']
            # the search is exhaustive, so a lattice image can never be shorter than its minimum
            require(Ld[i] >= Ls * (1 - 1e-12) - atol,
                    lambda: '%s: pair %d: |d| = %.17g is SHORTER than the true nearest image %.17g (n=%r): d is not a lattice image of d0=%r'
                    % (where, i, Ld[i], Ls, res['n'].tolist(), S.D0[i].tolist()))
            if not incell[i]:
                labs.add('premise_fails_outside')
                if Ld[i] > Ls * (1 + 1e-9) + 8 * atol:
                    labs.add('beyond27')
                continue
            if ortho:
                premise = True
            elif Ls < 0.5 * wmin * (1 - 1e-9):
                premise = True
            else:
                premise = False
                labs.add('premise_fails_incell' if Ls > 0.5 * wmin * (1 + 1e-9) else 'band_exempt')
                if Ld[i] > Ls * (1 + 1e-9) + 8 * atol:
                    labs.add('beyond27')
            if not premise:
                continue
            tilted_cell = not ortho
            if any(pbc):
                labs.add('premise_tilted' if tilted_cell else 'premise_ortho')
                if onface[i]:
                    labs.add('premise_onface')
                if np.any(res['n'] != 0):
                    labs.add('premise_wrapped')
                    if tilted_cell:
                        labs.add('premise_tilted_wrapped')
            require(abs(Ld[i] - Ls) <= 1e-12 * Ls + atol,
                    lambda: '%s: pair %d: both points in the cell, %s, but |d| = %.17g and the true nearest image has length %.17g '
                            '(shift n=%r, d0=%r, d=%r, half min width %.6g)'
                    % (where, i, 'cell orthogonal' if ortho else 'L* < w_min/2', Ld[i], Ls, res['n'].tolist(),
                       S.D0[i].tolist(), d[i].tolist(), 0.5 * wmin))
            if res['ntie'] == 1:
                labs.add('unique_vector_checked')
                err = float(np.abs(d[i] - res['vec']).max())
                require(err <= atol, lambda: '%s: pair %d: unique nearest image is %r (n=%r) but d = %r (diff %.3g, tol %.3g)'
                        % (where, i, res['vec'].tolist(), res['n'].tolist(), d[i].tolist(), err, atol))
            else:
                labs.add('tie')
    return S.finish(labs)


def _same_choice(a, b, L27, atol):
    """two results for the same pair: equal lengths; equal vectors when the shortest of the 27 candidates is unique"""
    La, Lb = float(np.linalg.norm(a)), float(np.linalg.norm(b))
    if abs(La - Lb) > 1e-12 * max(La, Lb) + atol:
        return 'lengths differ: %.17g vs %.17g' % (La, Lb)
    Lmin = float(L27.min())
    ntie = int(np.sum(L27 <= Lmin * (1 + 1e-9) + 8 * atol))
    if ntie == 1 and float(np.abs(a - b).max()) > atol:
        return 'vectors differ: %r vs %r (unique shortest candidate)' % (a.tolist(), b.tolist())
    return None


def _sys_state(s):
    """what a System handed to displacement() must still be afterwards (positions are in the ledger)"""
    return (s.pbc.tolist(), s.box.vects.tobytes(), s.box.origin.tobytes(), s.natoms, s.atoms.pos.dtype.str)


def _judge_displacement(am, sys0, sys1, ref, pbcs, pbc_other, labs, ledger, final=True, unit=1.0, stage=''):
    """displacement(sys0, sys1, ref) in the state the two systems are in NOW, for each periodicity setting in `pbcs` of the
    reference system (the other one keeps pbc_other); every array handed out is entered in `ledger`"""
    box0, box1 = sys0.box, sys1.box
    V0, V1 = np.array(box0.vects, dtype=float), np.array(box1.vects, dtype=float)
    P0, P1 = np.array(sys0.atoms.pos, dtype=float), np.array(sys1.atoms.pos, dtype=float)
    N = len(P0)
    D0 = P1 - P0
    use_final = ref in ('final', 'default')
    refsys, refbox, Vr = (sys1, box1, V1) if use_final else (sys0, box0, V0)
    if final and np.abs(V0 - V1).max() > 1e-6 * np.abs(V0).max():
        labs.add('boxes_differ')
    if ref is None:
        disp = np.asarray(ledger.add(am.displacement(sys0, sys1, box_reference=None), 'displacement(None)' + stage))
        require(disp.shape == (N, 3), lambda: 'displacement(None)%s returned shape %r for %d atoms' % (stage, disp.shape, N))
        # "None computes the straight difference between the positions": judged in the precision of numpy's result type of
        # that difference (float32 when BOTH systems store float32 positions; float64 for every other combination met here)
        rt = np.result_type(sys0.atoms.pos.dtype, sys1.atoms.pos.dtype)
        eps = float(np.finfo(rt).eps) if rt.kind == 'f' else EPS
        err = np.abs(np.array(disp, dtype=float) - D0).max()
        require(err <= 4 * eps * max(np.abs(P0).max(), np.abs(P1).max()),
                lambda: 'displacement(box_reference=None)%s differs from pos_1 - pos_0 by %.3g' % (stage, err))
        # ... and every component is ONE subtraction: correct to its own size (atoms that hardly move next to atoms that do)
        dev = np.abs(np.array(disp, dtype=float) - D0)
        require(bool(np.all(dev <= 2 * eps * np.abs(D0))),
                lambda: 'displacement(box_reference=None)%s: component %r of pos_1 - pos_0 = %r came out as %r'
                % (stage, np.unravel_index(int(np.argmax(dev - 2 * eps * np.abs(D0))), dev.shape), D0.tolist(), np.array(disp, dtype=float).tolist()))
        nz = np.linalg.norm(D0, axis=1)
        nz = nz[nz > 0]
        if final and len(nz) >= 2 and nz.max() >= 1e8 * nz.min():
            labs.add('decades8')
        if final and np.any(np.abs(D0) > 0):
            labs.add('nt_direct')
        return
    inv = np.linalg.inv(Vr)
    cond = float(np.linalg.cond(Vr))
    sc = np.linalg.norm(D0, axis=1) + float(np.linalg.norm(Vr, axis=1).sum())
    atol = 32 * EPS * sc
    for pbc in pbcs:
        refsys.pbc = pbc
        if final and pbc != pbc_other:
            labs.add('pbc_differ')
        where = 'displacement(box_reference=%r)%s ref pbc=%r other pbc=%r' % (ref, stage, pbc, pbc_other)
        before = (_sys_state(sys0), _sys_state(sys1))
        if ref == 'default':
            disp = np.asarray(ledger.add(am.displacement(sys0, sys1), where))
        else:
            disp = np.asarray(ledger.add(am.displacement(sys0, sys1, box_reference=ref), where))
        require((_sys_state(sys0), _sys_state(sys1)) == before, lambda: '%s changed the periodicity / box / storage of a system it was given' % where)
        require(disp.shape == (N, 3) and disp.dtype.kind == 'f', lambda: '%s returned shape %r dtype %r for %d atoms' % (where, disp.shape, disp.dtype, N))
        require(bool(np.all(np.isfinite(disp))), lambda: '%s returned non-finite values' % where)
        disp = np.array(disp, dtype=float)
        check_lattice(disp, D0, Vr, inv, pbc, sc, cond, where)
        _, C, L27 = candidates(D0, Vr, pbc)
        Ld = check_best27(disp, L27, atol, where, C)
        # atoms whose direct separation wins outright: that separation, each to ITS OWN size (see Setup.row_own)
        L0 = L27[:, 0]
        direct = np.all(L27[:, :1] * (1 + 1e-6) < L27[:, 1:], axis=1) if L27.shape[1] > 1 else np.ones(N, dtype=bool)
        err = np.abs(disp - D0).max(axis=1)
        bad = direct & (err > 16 * EPS * L0)
        if bad.any():
            i = int(np.argmax(bad))
            raise Violation('%s: atom %d: the direct separation %r wins outright (next candidate > 1e-6 longer) but the displacement '
                            'is %r (differs by %.3g of its own length; other atoms move by up to %.3g)'
                            % (where, i, D0[i].tolist(), disp[i].tolist(), err[i] / L0[i], L0.max()))
        if final and any(pbc) and direct.any():
            labs.add('row_own')
            nz = L0[direct & (L0 > 0)]
            if len(nz) >= 2 and nz.max() >= 1e8 * nz.min():
                labs.add('decades8')
        if final and L27.shape[1] > 1:
            two = np.sort(L27, axis=1)[:, :2]
            gap = (two[:, 1] - two[:, 0]) / np.where(two[:, 1] > 0, two[:, 1], 1.0)
            if np.any((gap > 1e-13) & (gap < 1e-3)):
                labs.add('near_tie')
        # atom by atom against the separation function itself under the reference cell
        for i in range(N):
            one = np.asarray(ledger.add(am.dvect(P0[i], P1[i], refbox, pbc), 'dvect of atom %d, %s' % (i, where)), dtype=float).reshape(3)
            msg = _same_choice(disp[i], one, L27[i], 16 * EPS * float(L0[i]) if direct[i] else float(atol[i]))
            require(msg is None, lambda: '%s: atom %d: displacement vs dvect of the same atom: %s' % (where, i, msg))
        if final and any(pbc) and np.any(L27[:, 0] > Ld * (1 + 1e-9) + 8 * atol):
            labs.add('nt')
            if pbc != pbc_other:
                labs.add('nt_pbc_differ')
            if 'boxes_differ' in labs:
                labs.add('nt_boxes_differ')
            if 'hist_changed' in labs:
                labs.add('nt_hist_changed')
            if ('int_stored_0' in labs or 'int_given_0' in labs) and np.any(np.abs(disp / unit - np.rint(disp / unit)) > 1e-3):
                labs.add('nt_int0_fractional')
            for f in ('f32_both', 'f16_both', 'narrow_both'):
                if f in labs:
                    labs.add('nt_' + f)
    refsys.pbc = pbc_other


def oracle_displacement(case):
    import atomman as am
    c = [case['cell0'], case['cell1']]
    hist = case.get('hist')
    cart = bool(case.get('cart'))
    itype = case.get('itype')
    build = case.get('build', 'abs')
    R = [np.array(case['rel0'], dtype=float), np.array(case['rel1'], dtype=float)]
    unit = float(c[0].get('scale', 1.0))
    if cart:        # Cartesian positions are given in units of the cells' common length scale
        R = [R[0] * unit, R[1] * unit]
    # whole numbers stay whole in a unit 10^k >= 1 only; otherwise the same positions are ordinary floats
    ints = [cart and itype in ('0', 'both') and bool(np.all(R[0] == np.rint(R[0]))),
            cart and itype in ('1', 'both') and bool(np.all(R[1] == np.rint(R[1])))]
    ref = case['ref']
    labs = {'mode_' + case['mode'], 'ref_' + str(ref)}
    ledger = Ledger()
    fstore = case.get('fstore') or ['f64', 'f64']
    fdts = [float_dtype(fstore[k], unit) for k in (0, 1)]
    labs |= {'cell0_' + l for l in gens.cell_labels(c[0])}
    labs |= gens_c02.sym_labels(c[0])
    labs |= unit_labels(unit)
    pbc_other = PBCS[case['pbc_other']]
    hows = [None, None]
    if hist is not None:
        labs.add('hist')
        if any(float(hist['cell%d' % k].get('scale', 1.0)) != unit for k in (0, 1)):
            labs.add('hist_other_unit')
        hows = [hist['how0'], hist['how1']]
        for k in (0, 1):
            if ints[k] and hows[k] not in _STILL:
                hows[k] = 'sys_box_set'         # integer-stored atoms are not moved (see _STILL)
    if build == 'sharedbox' and (case['mode'] != 'same' or 'wrap' in hows):
        build = 'abs'
    if cart:
        build = 'abs'
    labs.add('build_' + build)

    def positions(k, V, o, widen=False):
        """(Cartesian, relative or None) of system k in the cell V, o"""
        if cart and not widen:
            return R[k], None
        S = (R[k] - o) @ np.linalg.inv(V) if cart else R[k]
        if widen:
            S = 1.5 * S - 0.25
        return S @ V + o, S

    # ---- the two System objects in their first state
    systems = []
    for k in (0, 1):
        first = c[k] if (hist is None or hows[k] == 'wrap') else hist['cell%d' % k]
        if k == 1 and build == 'sharedbox':
            box = systems[0].box
        else:
            box = am.Box(vects=gens_c02.cell_vects(first), origin=gens_c02.cell_origin(first))
        P, S = positions(k, np.array(box.vects, dtype=float), np.array(box.origin, dtype=float), widen=(hows[k] == 'wrap'))
        if ints[k]:
            require(bool(np.all(P == np.rint(P))), lambda: 'harness: positions of system %d are not whole numbers' % k)
            system = am.System(atoms=am.Atoms(pos=_int_form(P, case['iform'])), box=box, pbc=pbc_other)
            labs.add(('int_stored_%d' if system.atoms.pos.dtype.kind in 'iu' else 'int_given_%d') % k)
        elif build == 'scale':
            # (System unscales into the array it was given: a dtype whose range the Cartesian positions leave is not used)
            fd = fdts[k] if fdts[k] is None or narrow(P, fdts[k]).dtype == np.dtype(fdts[k]) else np.float32
            system = am.System(atoms=am.Atoms(pos=np.array(S) if fd is None else narrow(S, fd)), box=box, pbc=pbc_other, scale=True)
        elif build == 'safecopy':
            system = am.System(atoms=am.Atoms(pos=np.array(P) if fdts[k] is None else narrow(P, fdts[k])), box=box, pbc=pbc_other, safecopy=True)
        else:
            system = am.System(atoms=am.Atoms(pos=np.array(P) if fdts[k] is None else narrow(P, fdts[k])), box=box, pbc=pbc_other)
        systems.append(system)
    sys0, sys1 = systems
    # ---- history on these objects
    if hist is not None:
        V_first = [np.array(s.box.vects, dtype=float) for s in systems]
        if hist['warm']:
            labs.add('hist_warm')
            _judge_displacement(am, sys0, sys1, ref, [PBCS[hist['wpbc']]], pbc_other, labs, ledger, final=False,
                                stage=' [before the systems were changed in place]')
        for k in (0, 1):
            if k == 1 and build == 'sharedbox':
                hows[1] = 'vects='
            hows[k] = mutate_box(systems[k].box, systems[k], hows[k], c[k], wrap_pbc(hist['wpbc']))
            systems[k].pbc = pbc_other
            labs.add('hist_' + hows[k])
        for k in (0, 1):
            if not ints[k]:
                box = systems[k].box
                P, S = positions(k, np.array(box.vects, dtype=float), np.array(box.origin, dtype=float))
                set_positions(systems[k], P, S, hist['setpos'], hows[k] == 'sys_box_set_scale')
        refk = 1 if ref in ('final', 'default') else 0
        if ref is not None and np.abs(np.array(systems[refk].box.vects) - V_first[refk]).max() > 1e-6 * np.abs(V_first[refk]).max():
            labs.add('hist_changed')
    # ---- the judged state (the positions the systems really hold, in whatever dtype Atoms keeps them, are exact numbers)
    kinds = [s.atoms.pos.dtype for s in systems]
    for k in (0, 1):
        if kinds[k].kind == 'f' and kinds[k].itemsize < 8:
            labs.add('f%d_stored_%d' % (8 * kinds[k].itemsize, k))
        if kinds[k].byteorder == '>':
            labs.add('be_stored')
    if all(d.kind == 'f' and d.itemsize < 8 for d in kinds):
        labs.add('narrow_both')
        if all(d.itemsize == 4 for d in kinds):
            labs.add('f32_both')
        if all(d.itemsize == 2 for d in kinds):
            labs.add('f16_both')
    for k in (0, 1):
        ledger.add_input(systems[k].atoms.pos, 'system_%d.atoms.pos' % k)
    _judge_displacement(am, sys0, sys1, ref, PBCS, pbc_other, labs, ledger, unit=unit)
    if case.get('after'):
        # the same two systems under the other reference cells (judged alike), then every array handed out so far is
        # compared with what it was when it was returned
        labs.add('after_other_ref')
        for other in ('initial', 'final', None):
            if other != ('final' if ref == 'default' else ref):
                _judge_displacement(am, sys0, sys1, other, [pbc_other], pbc_other, labs, ledger, final=False,
                                    stage=' [afterwards]')
    if case.get('reuse'):
        # caller-side mutation: the caller overwrites the array it was handed, moves the atoms of both systems IN PLACE (the
        # arrays atoms.pos hands out), asks again with the same System objects; then re-defines the boxes through their setters
        ledger.check_inputs()
        kw = {} if ref == 'default' else {'box_reference': ref}
        first = am.displacement(sys0, sys1, **kw)
        kept = np.array(first, copy=True)
        if first.flags.writeable:
            first[...] = -7.25 * unit
        ledger.add(first, 'a displacement array the caller has overwritten')
        again = ledger.add(am.displacement(sys0, sys1, **kw), 'displacement, second call with the same objects')
        require(np.array_equal(again, kept), lambda: 'the same displacement call gave %r first and %r after the caller had overwritten '
                                                     'the array it was handed' % (kept.tolist(), again.tolist()))
        moved = False
        for k, frac in ((0, [0.31, -0.27, 0.44]), (1, [-0.38, 0.12, 0.23])):
            pos = systems[k].atoms.pos
            if pos.dtype.kind != 'f':
                continue
            with np.errstate(over='ignore'):
                Y = (np.array(pos, dtype=float) + np.array(frac) @ np.array(systems[k].box.vects, dtype=float)).astype(pos.dtype)
            if np.all(np.isfinite(Y)):
                pos[...] = Y
                ledger.rebase(pos)
                moved = True
        if moved:
            labs.add('reuse_inputs')
        _judge_displacement(am, sys0, sys1, ref, [PBCS[(case['pbc_other'] + 3) % 8], PBCS[(case['pbc_other'] + 6) % 8]], pbc_other, labs,
                            ledger, final=False, stage=' [after the caller moved the atoms in place]')
        for k, f in ((0, [[1.2], [0.9], [1.05]]), (1, [[0.85], [1.15], [1.1]])):
            if k == 1 and systems[1].box is systems[0].box:
                continue
            systems[k].box.vects = np.array(systems[k].box.vects, dtype=float) * np.array(f)
        _judge_displacement(am, sys0, sys1, ref, [PBCS[(case['pbc_other'] + 5) % 8]], pbc_other, labs, ledger, final=False,
                            stage=' [after the caller re-defined the boxes through their setter]')
        labs.add('reuse')
    ledger.verify(labs)
    for f in ('decades8', 'reuse', 'sym', 'sym_upper', 'near_tie', 'be_stored'):
        if f in labs and 'nt' in labs:
            labs.add('nt_' + f)
    return nt_unit_labels(labs)


# ----------------------------------------------------------------------------- enumerated option pairs (class H)

# four atoms of system 0 (relative coordinates) and where they are in system 1: every atom crosses at least one face, every
# axis is crossed by some atom, two atoms cross two / three faces at once - so each of the 8 periodicity settings gives other
# separations, and a setting left over from another call shows
_H_S0 = np.array([[0.05, 0.10, 0.92], [0.95, 0.06, 0.50], [0.08, 0.93, 0.04], [0.50, 0.96, 0.91]])
_H_S1 = np.array([[0.97, 0.12, 0.90], [0.03, 0.95, 0.52], [0.91, 0.05, 0.95], [0.52, 0.04, 0.07]])


def oracle_option_pairs(case):
    """(entry point A under periodicity pa) -> (entry point B under pb) -> A under pa again, all on the SAME Box / System
    objects; every call judged by the lattice / 27-candidate / length oracles for the state it was made in"""
    import atomman as am
    c0 = gens_c02.H_CELLS[case['cell']]
    c1 = dict(c0, lx=c0['lx'] * 1.0625, lz=c0['lz'] * 0.9375, xy=c0['xy'] + 0.125)
    V0, o0 = gens_c02.cell_vects(c0), gens_c02.cell_origin(c0)
    V1, o1 = gens_c02.cell_vects(c1), gens_c02.cell_origin(c1)
    s0 = am.System(atoms=am.Atoms(pos=_H_S0 @ V0 + o0), box=am.Box(vects=V0, origin=o0), pbc=[False, False, False])
    s1 = am.System(atoms=am.Atoms(pos=_H_S1 @ V1 + o1), box=am.Box(vects=V1, origin=o1), pbc=[False, False, False])
    V0, V1 = np.array(s0.box.vects, dtype=float), np.array(s1.box.vects, dtype=float)
    P, Q = np.array(s0.atoms.pos, dtype=float), np.array(s1.atoms.pos, dtype=float)
    ledger = Ledger()
    ledger.add_input(s0.atoms.pos, 'system_0.atoms.pos')
    ledger.add_input(s1.atoms.pos, 'system_1.atoms.pos')
    i0, i1 = [0, 1], [2, 3]
    labs = {'cell_%d' % case['cell'], 'first_' + case['a'], 'second_' + case['b']}

    def run(entry, ip, stage):
        pbc = PBCS[ip]
        where = '%s under pbc=%r (%s of %s/%r -> %s/%r -> %s/%r)' % (entry, pbc, stage, case['a'], PBCS[case['pa']], case['b'],
                                                                      PBCS[case['pb']], case['a'], PBCS[case['pa']])
        d = m = None
        if entry in ('dvect', 'dmag'):
            B0, B1, V = P[:2], P[2:], V0
            flags = np.array(pbc, dtype=bool)
            raw = getattr(am, entry)(np.array(B0), np.array(B1), s0.box, flags)
            require(flags.tolist() == pbc, lambda: '%s changed the flags it was given' % where)
        elif entry in ('sys_dvect', 'sys_dmag'):
            B0, B1, V = P[:2], P[2:], V0
            s0.pbc = pbc
            raw = getattr(s0, entry[4:])(i0, i1)
        else:
            B0, B1 = P, Q
            if entry == 'disp_initial':
                s0.pbc, V = pbc, V0
                raw = am.displacement(s0, s1, box_reference='initial')
            elif entry == 'disp_none':
                s0.pbc, V, pbc = pbc, V0, [False, False, False]     # the straight difference whatever the systems say
                raw = am.displacement(s0, s1, box_reference=None)
            else:
                s1.pbc, V = pbc, V1
                raw = am.displacement(s0, s1) if entry == 'disp_default' else am.displacement(s0, s1, box_reference='final')
        raw = ledger.add(raw, where)
        if entry.endswith('dmag'):
            m = raw
        else:
            d = raw
        judge_pairs(d, m, B0, B1, V, pbc, where)
        if m is not None:
            # no dvect to compare with here: the scalar distance is the length of a lattice image, so it is not shorter than
            # the nearest image found by the exhaustive search (and, judged above, not longer than any of the candidates)
            mm = np.asarray(m, dtype=float).reshape(-1)
            ni = NI.NearestImage(V, pbc)
            D0 = B1 - B0
            for i in range(len(D0)):
                tol = 32 * EPS * (float(np.linalg.norm(D0[i])) + float(np.linalg.norm(V, axis=1).sum()))
                Ls = ni.search(D0[i], tie_rel=1e-9, tie_abs=8 * tol)['L']
                require(mm[i] >= Ls * (1 - 1e-12) - tol,
                        lambda: '%s: pair %d: dmag = %.17g is shorter than the nearest image %.17g' % (where, i, mm[i], Ls))
        return np.array(raw, copy=True)

    r1 = run(case['a'], case['pa'], 'first call')
    state = (s0.pbc.tolist(), s1.pbc.tolist())
    r2 = run(case['b'], case['pb'], 'second call')
    r3 = run(case['a'], case['pa'], 'third call')
    require(r1.shape == r3.shape and np.array_equal(r1, r3),
            lambda: '%s under pbc=%r gave %r, and after %s under pbc=%r it gives %r' % (case['a'], PBCS[case['pa']], r1.tolist(), case['b'],
                                                                                      PBCS[case['pb']], r3.tolist()))
    require(np.array_equal(s0.box.vects, V0) and np.array_equal(s1.box.vects, V1), lambda: 'a Box was changed by the calls')
    ledger.verify(labs)
    if case['a'] != case['b']:
        labs.add('entries_differ')
    if case['pa'] != case['pb']:
        labs.add('nt')      # under the two periodicity settings the separations differ (by construction of the atoms)
        if case['a'] != case['b']:
            labs.add('nt_entries_differ')
    if case['a'][:3] in ('sys', 'dis') and case['b'][:3] in ('sys', 'dis') and case['pa'] != case['pb']:
        labs.add('system_state_shared')
    return labs


_ROUTES = {'route_sys_idx': 0.1, 'route_sys_pos': 0.05, 'route_sys_mix': 0.045}
_SHAPES = {'shape_1-N': 0.11, 'shape_N-1': 0.11, 'shape_N-N': 0.12, 'shape_1-1': 0.093}
# object history: the Box object described another cell first / the judged functions saw it in that state / was changed
# through each public way (guards at about half the observed share)
_HIST = {'hist': 0.2, 'hist_changed': 0.18, 'hist_warm_changed': 0.12, 'hist_wrap': 0.02, 'hist_sys_box_set_scale': 0.012,
         'hist_sys_box_set': 0.015, 'hist_vects=': 0.05, 'hist_set_vects': 0.025}
# length unit 10^k of the whole case (cell, origin, positions): non-trivial cases in every class of unit
_UNITS = {'nt_unit_1': 0.13, 'unit<=1e-7': 0.084, 'nt_unit<=1e-7': 0.065, 'nt_unit_1e-6..0.1': 0.039, 'unit>=10': 0.055,
          'nt_unit>=10': 0.04, 'hist_other_unit': 0.02}
# process history (results of earlier calls compared with their snapshot after later calls with the same and with other numbers
# of pairs; warm-up results among them) and positions stored / passed as float32 / float16 (guards at half the observed share)
_PROC = {'ledger': 0.5, 'ledger_mixed_counts': 0.38, 'ledger_warm': 0.13, 'after_other_count': 0.32, 'pos_f32': 0.12,
         'nt_pos_f32': 0.089, 'arg_f32': 0.093, 'pos_f16': 0.022, 'nt_pos_f16': 0.016, 'arg_f16': 0.015}
# generator classes carried over (B, C, E, F, G of the header; guards at half - rare labels a third - of the observed share)
_CROSS = {'reuse': 0.28, 'reuse_inputs': 0.28, 'reuse_system': 0.14, 'nt_reuse': 0.19,
          'pos_be': 0.07, 'arg_be': 0.05, 'idx_i8arr': 0.002, 'idx_u8arr': 0.003, 'idx_bearr': 0.0025, 'idx_u64s': 0.0025,
          'idx_i16neg': 0.002,
          'kind_thresh': 0.047, 'near_tie': 0.051, 'nt_near_tie': 0.046, 'near_face': 0.018, 'half_vector_pairs': 0.027,
          'tiny_tilt_kept': 0.0084,
          'kind_decades': 0.045, 'row_own': 0.48, 'decades8': 0.03, 'nt_decades8': 0.01, 'rows_alone': 0.045,
          'sym': 0.24, 'nt_sym': 0.19, 'sym_upper': 0.027, 'nt_sym_upper': 0.013, 'sym_negdiag': 0.035, 'sym_lefthanded': 0.097,
          'sym_relabel': 0.16}
# whole-number positions handed to the free functions in narrow / unsigned / big-endian integer dtypes (kind intcart only)
_NARROW = {'arg_narrowint': 0.0035, 'arg_unsigned': 0.002, 'arg_int8_16': 0.0025, 'arg_at_limit': 0.0035, 'arg_npscalars': 0.0008}
_COMMON = dict(_ROUTES, **_CROSS, **_SHAPES, **_HIST, **_UNITS, **_PROC, nt=0.36, nt_mixed=0.36, tilted=0.33, rotated=0.17, origin=0.2, kind_dyadic=0.04,
               kind_intcart=0.045)
_FORMS = {'spell_fview': 0.03, 'spell_tuple': 0.03, 'spell_list': 0.03, 'spell_intlist': 0.03, 'spell_readonly': 0.03,
          'spell_forder': 0.03, 'spell_intarray': 0.03, 'int_given_positions': 0.012}

CLAUSES = [
    Clause('lattice', oracle_lattice, gens_c02.general, quick=11500, thorough=220000,
           min_share=dict(_COMMON, **_FORMS, **_NARROW, multi_axis_shift=0.22, idx_mask=0.02, idx_slice=0.012, idx_neg=0.012, idx_int=0.015,
                          idx_npint=0.015),
           desc='d - (p1-p0) is an integer combination of the cell vectors, zero along non-periodic directions, for all 8 pbc; '
                'one result row per broadcast pair; am.dvect and System.dvect (positions, atom indices, mixed); also on Box / '
                'System objects that described another cell before and were changed in place'),
    Clause('best27', oracle_best27, gens_c02.general, quick=11500, thorough=220000, min_share=dict(_COMMON, **_NARROW),
           desc='|d| is not longer than any of the 27 (9/3/1) candidates with shifts -1,0,+1 on periodic axes, for all 8 pbc'),
    Clause('mag', oracle_mag, gens_c02.general, quick=9500, thorough=176000,
           min_share=dict(_COMMON, **_FORMS, **_NARROW, idx_mask=0.02, idx_slice=0.012, idx_int=0.015, dmag_first=0.2),
           desc='dmag equals |dvect| (same route, same inputs, either order of the two calls) and is not longer than any candidate; '
                'one value per broadcast pair; also on objects with a history (dmag/dvect called before the box was changed in place)'),
    Clause('true_nearest', oracle_true_nearest, gens_c02.premise_heavy, quick=9500, thorough=176000,
           min_share={'nt': 0.34, 'premise_tilted': 0.18, 'premise_tilted_wrapped': 0.079, 'premise_ortho': 0.19,
                      'premise_fails_incell': 0.19, 'premise_onface': 0.16, 'unique_vector_checked': 0.37, 'tie': 0.02,
                      'beyond27': 0.067, 'kind_dyadic': 0.045, 'hist_changed': 0.18, 'hist_warm_changed': 0.12, **_UNITS, **_PROC, **_CROSS},
           desc='both points in the cell and (cell orthogonal or L* < half the smallest perpendicular width) => |d| equals the '
                'minimum L* of an exhaustive lattice search (vector too when the minimiser is unique); always |d| >= L*'),
    Clause('displacement', oracle_displacement, gens_c02.displacement_cases, quick=7500, thorough=132000,
           min_share={'nt': 0.3, 'nt_pbc_differ': 0.3, 'nt_boxes_differ': 0.2, 'ref_initial': 0.14, 'ref_default': 0.07,
                      'ref_None': 0.07, 'ref_final': 0.15, 'hist': 0.2, 'hist_changed': 0.15, 'nt_hist_changed': 0.11,
                      'hist_warm': 0.07, 'hist_wrap': 0.03, 'hist_sys_box_set_scale': 0.042, 'int_given_0': 0.1,
                      'int_given_1': 0.035, 'nt_int0_fractional': 0.048, 'build_scale': 0.06, 'build_safecopy': 0.07,
                      'ledger': 0.45, 'ledger_mixed_counts': 0.32, 'after_other_ref': 0.2, 'f32_both': 0.08, 'nt_f32_both': 0.055,
                      'narrow_both': 0.1, 'nt_narrow_both': 0.07, 'f32_stored_0': 0.12, 'f32_stored_1': 0.13, 'f16_both': 0.012,
                      'nt_f16_both': 0.009, **dict(_UNITS, hist_other_unit=0.04),
                      'sym': 0.24, 'nt_sym': 0.16, 'sym_upper': 0.019, 'nt_sym_upper': 0.013, 'near_tie': 0.035, 'nt_near_tie': 0.03,
                      'row_own': 0.37, 'decades8': 0.015, 'nt_decades8': 0.004, 'reuse': 0.28, 'reuse_inputs': 0.28, 'nt_reuse': 0.16,
                      'be_stored': 0.071, 'nt_be_stored': 0.047},
           desc="displacement(s0, s1, box_reference) under 'final'/default, 'initial', None: lattice + 27-candidate oracles under "
                'the reference cell and pbc, and equal to dvect atom by atom; all 8 pbc of the reference system; systems holding '
                'whole-number positions as integers or float32 / float16 positions, built with scale=True / safecopy / a shared Box, or '
                'changed in place before; results kept and compared with their snapshots after the calls for the other reference cells'),
    Clause('option_pairs', oracle_option_pairs, enumerate=gens_c02.option_pair_cases,
           min_share={'nt': 0.43, 'nt_entries_differ': 0.38, 'system_state_shared': 0.24, 'ledger': 0.5},
           desc='every ORDERED pair of (entry point, periodicity) states - am.dvect, am.dmag, System.dvect, System.dmag, displacement '
                "with 'final' / default / 'initial' / None, each under the 8 settings: 64 x 64 pairs per cell - run one after the other "
                'on the same Box and System objects, then the first again (same bits); every call judged by the lattice, 27-candidate '
                'and length oracles for the state it was made in'),
]
