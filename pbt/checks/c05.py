"""C05 - Wrapping and normalising move atoms only by lattice vectors or a rotation.

Clauses
  wrap        System.wrap(return_imageflags) on generic cells (left-handed, rotated, strongly tilted, any origin),
              all 8 pbc settings, atoms far outside / exactly on faces, extra per-atom properties.
  wrap_exact  the same statement on exactly representable inputs (power-of-two cell lengths, dyadic tilts, origin and
              relative coordinates): every number atomman computes is exact, so the faces themselves are tested with a
              zero band.
  normalize   System.normalize / atomman.lammps.normalize on fully periodic systems.

Every clause judges the call after a HISTORY on the same object / in the same process (see "histories and input
forms" below): the periodicity may have been set through the constructor, the setter, element-wise in place
(system.pbc[i] = ..., as atomman's tutorial and its own defect generators do), through an aliased bool ndarray or a
system sharing the array; the cell and the positions may have been edited through every public route, the system
rebuilt / copied / reloaded, derived quantities read, other systems wrapped before.  Inputs come in every documented
form (lists, tuples, integer-typed, non-contiguous, read-only cell arrays, relative positions with scale=True).

Every clause carries an overall LENGTH SCALE (the property holds whatever the length unit; atomman's working units can be
SI, a lattice parameter is then 4e-10): cell vectors, origin, positions and far-atom offsets are multiplied by 10^k
(k = -12..6, metres favoured; 2^k in wrap_exact so that the arithmetic stays exact), exactly 1 in about half of the cases;
see "overall length scale" below.  All tolerances are relative to the size of the cell.

Oracles are numpy only (own solve for relative coordinates, own lattice parameters, pbt.oracles.nearest_image for the
true nearest-image distances); nothing here calls Box.inside, Box.a/alpha/..., dvect or dmag.
"""
import functools
import math

import numpy as np
from hypothesis import strategies as st

from ..core import Clause, HarnessError, Violation, require
from .. import gens
from ..oracles.nearest_image import NearestImage

RULE = ("cells in LAMMPS triangular form (lengths 0.5-50, tilts up to 1.5 lengths, crystal families; one case in four "
        "strongly tilted: lengths 1-30, tilts up to 4 lengths), half of them with the third vector reversed (left-handed), "
        "optionally rigidly rotated and with a non-zero origin; 3 cells in 8 are EXACT SYMMETRY IMAGES of the LAMMPS form (zeros survive): "
        "2 in 8 turned by exactly 180 degrees about x / y / z or mirrored, with a, b, c reversed individually / in pairs / all (lower "
        "triangular with any sign pattern on the diagonal, e.g. right-handed with two negative diagonal entries), 1 in 8 under any of "
        "the 48 signed axis permutations (exact 90 / 120 / 180 degree rotations, mirrors) with the cell vectors renamed and reversed; "
        "all 8 pbc settings (wrap) / fully periodic (normalize); "
        "1-12 atoms at relative coordinates mixing generic values in [-6,7], values in [0,1], exact integers and "
        "half-integers (faces) and a few values up to +-1e5 cells away; 0-3 extra per-atom properties.  wrap_exact: "
        "power-of-two lengths, dyadic tilts/origin/coordinates, decided exactly.  Non-trivial: at least one atom "
        "outside the cell before the call AND (cell tilted or left-handed or pbc mixed; for normalize: tilted or "
        "left-handed or rotated).  Every case also carries a HISTORY applied to the object before the judged call (none in "
        "about a quarter of the cases; else 1-4 operations: periodicity changed through the setter in five input forms, "
        "element-wise in place (system.pbc[i] = ...), by slice, through the aliased bool ndarray handed in or through a "
        "system sharing the array; scaled read; earlier wrap; box_set(vects= | avect=.., scale=True/False; half of them also reversing cell vectors); position edits "
        "in place / by setter / through atoms_prop(scale=True); rebuild from the same parts, safecopy, deepcopy, "
        "atoms_ix[:], data-model round trip; reads of dvect/dmag/atoms_df/str/box parameters/normalize; a wrap of another "
        "system in the process) and INPUT FORMS (positions as float array, nested list, Fortran-ordered, strided view, "
        "whole numbers as integer array of every integer-like dtype (int8..int64, uint8..uint64, bool for 0/1 coordinates, "
        "big-endian int32; values folded into the range of the dtype) / list of Python ints, float32 where exactly representable "
        "(wrap_exact only), relative positions with System(scale=True); cell as array, "
        "list, tuple, Fortran-ordered, read-only, avect/bvect/cvect; pbc as list, tuple, bool ndarray, ints, numpy bools, "
        "strided, read-only; safecopy).  The judged state (cell, origin, positions, pbc) is read back from the system "
        "after the history; 'pbc' of a case is the periodicity at the judged call, 'pbc0' the one given to the constructor.  "
        "LENGTH SCALE: the whole geometric input of a case (cell vectors, origin, positions incl. far-atom offsets, the other "
        "system wrapped in a history) is multiplied by 10^k, k in {-12,-10 (favoured: metres),-9,-8,-5,-3,-1,1,3,6}, in wrap_exact "
        "by 2^k, k in {-40,-33 (favoured),-30,-27,-17,-10,-3,3,10,20}; exactly 1 in about half of the cases; integer-typed "
        "(whole-number) positions get the reciprocal scale when it is below 1")
ASSUMPTIONS = ["numpy linear algebra (solve, inv, det) is correct",
               "pbt.oracles.nearest_image (exhaustive search with proven radius) gives the true nearest-image distance",
               "normalize is judged only on cells with cond(vects) <= 1e3 (its hard-coded orthonormality asserts and "
               "the lattice-parameter rebuild presume a conditioned cell); worse cells are counted as illcond_skipped",
               "Box.vects zeroing components below 1e-9*max|vects| is a documented floor: comparisons of cell vectors "
               "are never tighter than 1e-8 relative and the inside band includes its effect",
               "'inside' is inclusive of the faces (the property text does not say half-open)",
               "system.pbc[i] = value is a supported way to change the periodicity (System.pbc returns the array it uses; "
               "atomman's tutorial 1.3 and its FreeSurface/Boundary/Dislocation generators do exactly this): whatever "
               "system.pbc reports at the time of the call is the periodicity wrap/normalize have to honour",
               "float32 / float16 position arrays keep that storage precision in Atoms (the caller's choice of accuracy): generated "
               "only where no rounding can occur (float32 in wrap_exact)",
               "a read-only positions array is the caller's restriction (Atoms keeps the array it is given, wrap writes "
               "in place): not generated",
               "normalize as an earlier operation in a history is only called inside the domain the property states "
               "(fully periodic, cond <= 1e3)",
               "System.wrap's padding of a non-periodic direction (0.001) is in relative coordinates, i.e. relative to the cell: "
               "nothing is asserted about its size, only that the old cell and every atom are inside the new one"]
LEVEL_TEXT = ("Random exploration of System.wrap over right/left-handed, rotated and strongly tilted cells with every "
              "periodicity setting and atoms up to 1e5 cells outside or exactly on faces (faces decided exactly on dyadic "
              "inputs), cells that are exact symmetry images of the LAMMPS form (exact 180 / 90 degree turns, mirrors, reversed and renamed "
              "vectors: lower triangular with negative diagonal entries; LAMMPS compatibility of the result judged on its vectors), and of System.normalize / lammps.normalize over fully periodic systems with cond <= 1e3; each after a random "
              "history on the same object / in the same process (periodicity changed by setter, element-wise in place or through "
              "an aliased array; cell and position edits; rebuilds, copies, reloads; reads; earlier wraps) and over the documented "
              "input forms (lists, tuples, integer-typed in every integer-like dtype incl. unsigned and bool, non-contiguous, read-only cell, scale=True); "
              "every clause in length units from 1e-12 to 1e+6 (cells in metres, nm, Bohr, ...; powers of two in the exact clause), tolerances relative to the cell.")
TECHNIQUE = ("independent relative-coordinate solve with derived bands, exact dyadic arithmetic on faces, "
             "exhaustive nearest-image search for pair distances, deep snapshot comparison")
WALL = {'quick': 60, 'thorough': 600}

EPS = 2.220446049250313e-16
_TS = 1.0      # tolerance multiplier; 1.0 always, changed only by the calibration script in development


# ----------------------------------------------------------------------------- independent helpers

def my_params(V):
    """a,b,c,alpha,beta,gamma (degrees) of the row-vector matrix V; angles by atan2(|cross|, dot)"""
    a, b, c = (float(np.linalg.norm(V[i])) for i in range(3))

    def ang(u, v):
        return math.degrees(math.atan2(float(np.linalg.norm(np.cross(u, v))), float(np.dot(u, v))))
    return a, b, c, ang(V[1], V[2]), ang(V[0], V[2]), ang(V[0], V[1])


def rel_coords(x, V, o):
    """relative coordinates of Cartesian points x (N,3) in the cell (rows of V, origin o): own solve"""
    return np.linalg.solve(V.T, (x - o).T).T


def inside_band(V, o, smax, xmax):
    """per-axis band (3,) around the faces inside which 'inside / outside' is not decided.

    s_k = (x - o) . inv(V)[:, k].  Sources of disagreement between atomman's arithmetic and mine:
      * Box.vects zeroes components below 1e-9*max|V| (documented floor): |dV_ij| <= 1e-9 vmax, hence
        |ds_k| <= sum_ij |s_i| |dV_ij| |inv(V)_jk| <= 3e-9 smax vmax ninv_k          (ninv_k = 1-norm of column k of inv V)
      * rounding of x - o and of the products: a few eps (|x| + |o|) ninv_k, and of inv(V) itself: eps cond smax.
    Constants: 3e-9 for the floor (1e-9 times 3 rows), 1e-13 = 450 eps for the rounding terms."""
    inv = np.linalg.inv(V)
    ninv = np.abs(inv).sum(axis=0)
    vmax = float(np.abs(V).max())
    cond = float(np.linalg.cond(V))
    return _TS * ((3e-9 * vmax * max(1.0, smax) + 1e-13 * (float(np.abs(o).max()) + xmax)) * ninv + 1e-13 * cond * max(1.0, smax))


def prop_values(n, nprops):
    """deterministic extra per-atom properties (distinct per row so that a row permutation is visible)"""
    out = {}
    if nprops >= 1:
        out['charge'] = np.array([0.125 * (i + 1) - 0.7 for i in range(n)], dtype=float)
    if nprops >= 2:
        out['tag'] = np.array([100 + 7 * i for i in range(n)], dtype=int)
    if nprops >= 3:
        out['vec'] = np.array([[i + 0.5, -2.0 * i, 0.25 * i * i] for i in range(n)], dtype=float)
    return out


def atypes(n):
    return np.array([1 + (i * i + i // 2) % 3 for i in range(n)], dtype=int)


# ----------------------------------------------------------------------------- overall length scale
#
# The property holds whatever the length unit: every length of a case (cell vectors, origin and - through the relative
# coordinates the atoms are generated in - positions and far-atom offsets; the cell / position edits of a history are
# relative too) is multiplied by cell['scale'] = L.  Clauses wrap / normalize: L = 10^k, k in -12..6 (k = -10, a cell in
# metres, favoured); clause wrap_exact: L = 2^k (k in -40..20), which keeps every number atomman computes exact.  L is exactly
# 1 (no 'scale' key: the cases of earlier rounds) in about half of the cases.  What the unchanged code does with a length:
# Box.vects floor 1e-9 * max|vects| (relative); wrap pads non-periodic directions by 0.001 in RELATIVE coordinates
# (mins/maxs are "box dimensions relative to box vectors, i.e 0 to 1"): a relative margin, nothing asserted about its size;
# normalize's asserts act on the dimensionless transformation matrix.  Nothing on this path is an absolute length.
# All tolerances below are relative to the size of the cell (vmax, omax, xmax carry L; inside_band is dimensionless).

def case_scale(case):
    return float(case['cell'].get('scale', 1.0))


def scale_labels(L, labels):
    if L != 1.0:
        labels.add('scaled')
        if L <= 1e-9:
            labels.add('scale_si')          # a cell given in metres (or smaller)
        if L < 1.0:
            labels.add('scale_small')
        else:
            labels.add('scale_large')
    else:
        labels.add('scale_1')


# ----------------------------------------------------------------------------- exact symmetry images of the LAMMPS form
#
# A generic rotation fills the whole matrix with non-zero numbers.  The cells that matter for "is the result LAMMPS compatible"
# are the ones that ALMOST are: the LAMMPS triangular form acted on by an operation that maps coordinate axes onto coordinate
# axes exactly, so that exact zeros survive.  cell['sym'] = {'m': i, 'p': j, 's': k} applies, after everything gens.cell_vects
# does (third vector reversed, generic rotation, length scale), exactly (products with 0 / +-1 only):
#   m  one of the 48 signed permutation matrices M acting on the Cartesian axes, vects -> vects . M^T: the 24 proper ones are
#      the rotations by exactly 90 / 180 degrees about x, y, z and the 120 degree axis permutations, the other 24 mirrors /
#      the inversion; numbers 0..7 are the diagonal ones (0 the identity; 180 degrees about x, y, z and the mirrors): they
#      keep the zeros above the diagonal
#   p  one of the 6 permutations of the cell vectors (rows): swaps and cyclic renamings of a, b, c
#   s  one of the 8 sign patterns of the rows: a, b, c reversed individually, in pairs, all three
# With m < 8 and p = 0 the result is lower triangular with any sign pattern on its diagonal: avect on the x axis and bvect in the
# xy plane, but pointing the "wrong" way - right-handed cells with two negative diagonal entries among them.  Whether the
# normalised cell is LAMMPS compatible is judged on its VECTORS (zeros above the diagonal, lx, ly, lz > 0, right-handed), never
# through Box.is_lammps_norm().  The unchanged code was run over all 48 x 6 x 8 images of triclinic and orthorhombic cells
# before anything was asserted: all pass.

SIGNS8 = [(a, b, c) for a in (1.0, -1.0) for b in (1.0, -1.0) for c in (1.0, -1.0)]
PERMS6 = [(0, 1, 2), (1, 0, 2), (0, 2, 1), (2, 1, 0), (1, 2, 0), (2, 0, 1)]
_PERM_ODD = [False, True, True, True, False, False]


def _signed_perms():
    out = []
    for p in PERMS6:                      # identity permutation first: numbers 0..7 are diagonal
        for sg in SIGNS8:
            M = np.zeros((3, 3))
            for i in range(3):
                M[i, p[i]] = sg[i]
            out.append(M)
    return out


SIGNED_PERMS = _signed_perms()


def cell_vects5(c):
    """gens.cell_vects followed by the exact symmetry operation c['sym'] (see above)"""
    V = gens.cell_vects(c)
    sym = c.get('sym')
    if sym:
        V = V @ SIGNED_PERMS[int(sym['m']) % 48].T
        V = V[list(PERMS6[int(sym['p']) % 6])]
        V = V * np.array(SIGNS8[int(sym['s']) % 8])[:, None]
        V = V + 0.0                       # no negative zeros
    return V


def cell_lefthanded(c):
    """handedness of the generated cell from the parities of its parts (not from a determinant)"""
    lh = bool(c.get('lefthanded'))
    sym = c.get('sym')
    if sym:
        m, p, k = int(sym['m']) % 48, int(sym['p']) % 6, int(sym['s']) % 8
        for sg in (SIGNS8[m % 8], SIGNS8[k]):
            if sg[0] * sg[1] * sg[2] < 0:
                lh = not lh
        if _PERM_ODD[m // 8]:
            lh = not lh
        if _PERM_ODD[p]:
            lh = not lh
    return lh


def cell_labels5(c):
    labs = gens.cell_labels(c)
    labs.discard('lefthanded')
    if cell_lefthanded(c):
        labs.add('lefthanded')
    sym = c.get('sym')
    if sym:
        m, p, k = int(sym['m']) % 48, int(sym['p']) % 6, int(sym['s']) % 8
        if m or p or k:
            labs.add('sym')
            labs.add('sym_diag' if (m < 8 and p == 0) else 'sym_perm')
            if c.get('rot'):
                labs.add('sym_rot')
    return labs


def shape_labels(V, labels):
    """what the cell handed to the judged call looks like (V: right-handed, i.e. third vector already reversed if need be)"""
    if V[0, 1] == 0.0 and V[0, 2] == 0.0 and V[1, 2] == 0.0:
        labels.add('lowertri')
        if V[0, 0] < 0 or V[1, 1] < 0 or V[2, 2] < 0:
            labels.add('lowertri_negdiag')    # avect on the x axis, bvect in the xy plane, but not LAMMPS compatible
        else:
            labels.add('lammps_form_input')


# key of the finding (fixed in /repo by 2a7c2bf; kept so that a recurrence - for any integer-like dtype - is reported as an
# ordinary VIOLATION): positions handed over as whole numbers (integer ndarray or nested list of Python ints) are
# stored by Atoms with an integer dtype; everything that writes positions back (wrap, box_set(scale=True) and with it
# normalize) is then cast to integers silently
KEY_INTPOS = 'C05:pos-integer-typed:truncated-on-write'

_DEFAULT_FORMS = {'pos': 'float', 'box': 'array', 'pbc': 'list', 'scaled': False, 'safecopy': False}


# Integer-like dtypes in which whole-number positions are handed over (forms['idt'] indexes this list; cases written before
# the list existed have no 'idt' and mean int64).  Positions are "list/ndarray": every one of these is a legal way of giving
# whole-number coordinates (32-bit grid indices, np.indices(..).astype('int16'), unsigned pixel/voxel coordinates, a 0/1
# occupation pattern as bool, an integer array read from a big-endian binary file).  The unchanged code converts all of them
# to float64 storage (checked for every entry: Atoms(pos=<dtype>).view['pos'].dtype == float64, later writes not truncated).
INT_DTYPES = ['int64', 'int32', 'int16', 'int8', 'uint8', 'uint16', 'uint32', 'uint64', 'bool', '>i4']
# NOT generated: float16 and, outside clause wrap_exact, float32 positions.  Atoms keeps a float array with the precision it is
# given, so every position written back by wrap / box_set(scale=True) / normalize is rounded to 2^-24 (float32) or 2^-11
# (float16) relative: reduced accuracy is what the caller asked for by choosing that storage, and the tolerances derived here
# (float64 arithmetic) do not apply.  Where rounding cannot occur - clause wrap_exact, dyadic numbers that are exactly
# representable in float32 before and after the call - float32 positions ARE generated (form 'float32') and judged with zero
# tolerance like float64 ones; float16 (11 bits) cannot hold those numbers.


def _fit_int(x, idt):
    """whole-number coordinates x (float array) folded into the range of integer dtype number idt, and the dtype.
    Folding keeps whole numbers whole and their signs (fmod), so every dtype of the list gets the same share of cases:
    8-bit |x| < 128, 16-bit |x| < 2^15, 32-bit |x| < 2^31; unsigned: |x|; bool: coordinates 0 / 1."""
    dt = np.dtype(INT_DTYPES[int(idt) % len(INT_DTYPES)])
    if dt.kind == 'b':
        return np.abs(np.fmod(x, 2.0)), dt
    bits = 8 * dt.itemsize - 1
    if bits < 63:
        x = np.fmod(x, float(2 ** bits))
    if dt.kind == 'u':
        x = np.abs(x)
    return x + 0.0, dt          # + 0.0: no negative zeros


def _form_pos(x, form, idt=0):
    """the (n,3) float array x in one of the documented input forms ("list/ndarray")"""
    if form == 'float':
        return x.copy()
    if form == 'list':
        return x.tolist()
    if form == 'fortran':
        return np.asfortranarray(x)
    if form == 'strided':
        big = np.zeros((x.shape[0], 6), dtype=float)
        big[:, ::2] = x
        return big[:, ::2]
    if form == 'int_array':
        out = x.astype(np.dtype(INT_DTYPES[int(idt) % len(INT_DTYPES)]))
        if not np.array_equal(out.astype(float), x):
            raise HarnessError('whole-number positions do not fit dtype %s' % out.dtype)
        return out
    if form == 'int_list':
        return [[int(v) for v in row] for row in x]
    if form == 'float32':
        out = x.astype(np.float32)
        if not np.array_equal(out.astype(float), x):
            raise HarnessError('positions are not representable in float32')
        return out
    # NOT generated: a read-only positions array.  Atoms(pos=array) keeps the array it is given (documented:
    # "direct setting may result in the Atoms' property pointing to the original numpy array") and wrap writes the
    # positions in place, so numpy's "assignment destination is read-only" is the caller's own restriction.
    raise HarnessError('pos form %r' % (form,))


# Cell vectors and origin in another STORAGE dtype (forms['box'] = 'f32' | 'f16' | 'int'): a cell read from a single-precision
# binary file, half-precision ML data, whole-number vectors as an integer array (dtype forms['idt'] of INT_DTYPES).  The cell of
# such a case IS the rounded one (_box_in_dtype: every number handed over is exactly representable in that dtype), so nothing is
# lost in the hand-over and Box (documented: array-like, stored as float64) must behave exactly as for the float64 array of the
# same values.  Where rounding would degrade the cell (a zero row, overflow / underflow at the case's length scale, handedness
# changed, conditioning worse than 4x / above 1e3) the case falls back to the float64 array.
BOX_DTYPE_FORMS = ('f32', 'f16', 'int')


def _box_in_dtype(V, o, form, idt):
    """-> (V', o', dtype) with V', o' float64 arrays exactly representable in dtype, or None (fall back to float64)"""
    if form == 'int':
        dt = np.dtype(INT_DTYPES[int(idt) % len(INT_DTYPES)])
        if dt.kind == 'b':
            dt = np.dtype('int16')
        Vr, orr = np.rint(V) + 0.0, np.rint(o) + 0.0
        with np.errstate(all='ignore'):
            if not (np.array_equal(Vr.astype(dt).astype(float), Vr) and np.array_equal(orr.astype(dt).astype(float), orr)):
                dt = np.dtype('int64')
                if not (np.abs(Vr).max() < 2.0 ** 62 and np.abs(orr).max() < 2.0 ** 62):
                    return None
    else:
        dt = np.dtype(np.float32 if form == 'f32' else np.float16)
        with np.errstate(all='ignore'):
            Vr, orr = V.astype(dt).astype(float) + 0.0, o.astype(dt).astype(float) + 0.0
    if not (np.all(np.isfinite(Vr)) and np.all(np.isfinite(orr)) and np.all(np.abs(Vr).max(axis=1) > 0)):
        return None
    d0, d1 = float(np.linalg.det(V)), float(np.linalg.det(Vr))
    if not (d1 != 0.0 and (d0 > 0) == (d1 > 0)):
        return None
    c1 = float(np.linalg.cond(Vr))
    if not (c1 <= 1e3 and c1 <= 4 * float(np.linalg.cond(V))):
        return None
    if float(np.abs(Vr - V).max()) > 0.5 * float(np.abs(V).max()):
        return None
    return Vr, orr, dt


def _form_box(am, V, o, form, keep=None, dt=None):
    """keep: list collecting the writeable ndarrays handed to atomman (the caller's arrays, see "caller side")"""
    def kept(a):
        if keep is not None and isinstance(a, np.ndarray) and a.flags.writeable:
            keep.append(a)
        return a
    if form == 'array':
        return am.Box(vects=kept(V.copy()), origin=kept(o.copy()))
    if form in BOX_DTYPE_FORMS:
        Vd, od = V.astype(dt), o.astype(dt)
        if not (np.array_equal(Vd.astype(float), V) and np.array_equal(od.astype(float), o)):
            raise HarnessError('cell not representable in %s' % dt)
        return am.Box(vects=kept(Vd), origin=kept(od))
    if form == 'list':
        return am.Box(vects=V.tolist(), origin=o.tolist())
    if form == 'tuple':
        return am.Box(vects=tuple(tuple(r) for r in V.tolist()), origin=tuple(o.tolist()))
    if form == 'fortran':
        return am.Box(vects=kept(np.asfortranarray(V)), origin=kept(o.copy()))
    if form == 'readonly':
        Vr, orr = V.copy(), o.copy()
        Vr.flags.writeable = False
        orr.flags.writeable = False
        return am.Box(vects=Vr, origin=orr)
    if form == 'avects':
        return am.Box(avect=kept(V[0].copy()), bvect=V[1].tolist(), cvect=kept(V[2].copy()), origin=kept(o.copy()))
    raise HarnessError('box form %r' % (form,))


def _form_pbc(pbc, form):
    """-> (object to hand to atomman, the bool ndarray atomman may alias or None)"""
    pbc = [bool(p) for p in pbc]
    if form == 'list':
        return list(pbc), None
    if form == 'tuple':
        return tuple(pbc), None
    if form == 'ndarray':
        a = np.array(pbc, dtype=bool)
        return a, a
    if form == 'int_list':
        return [int(p) for p in pbc], None
    if form == 'int_array':
        return np.array([int(p) for p in pbc], dtype=np.int64), None
    if form in ('int8_array', 'uint8_array'):
        return np.array([int(p) for p in pbc], dtype=np.int8 if form == 'int8_array' else np.uint8), None
    if form == 'npbool':
        return [np.bool_(p) for p in pbc], None
    if form == 'strided':
        big = np.zeros(6, dtype=bool)
        big[::2] = pbc
        return big[::2], big[::2]
    if form == 'readonly':
        a = np.array(pbc, dtype=bool)
        a.flags.writeable = False
        return a, None
    raise HarnessError('pbc form %r' % (form,))


def build_system(am, case, pbc, exact=False):
    """-> system, V, o, s, x, props, ctx.   ctx: the model of the history (see apply_history)"""
    c = case['cell']
    forms = dict(_DEFAULT_FORMS, **(case.get('forms') or {}))
    V, o = cell_vects5(c), gens.cell_origin(c)
    L = case_scale(case)
    idt = int(forms.get('idt') or 0) % len(INT_DTYPES)
    bdt = None
    if forms['box'] in BOX_DTYPE_FORMS:
        r = _box_in_dtype(V, o, forms['box'], idt)
        if r is None:
            forms['box'] = 'array'
        else:
            V, o, bdt = r                 # the cell of the case is the one representable in that dtype
            forms['box_dtype'] = bdt
    s = np.array(case['rel'], dtype=float)
    x = s @ V + o
    if forms['pos'] == 'float32':
        # only where no rounding can occur (see the note at INT_DTYPES): exact clause, numbers with at most 20 significant bits
        # before the call (the call only subtracts whole cell vectors, which keeps the binary grid and shrinks the magnitude)
        # (in units of the length scale L, a power of two in the exact clause: x / L is exact)
        grid = 2.0 ** 10
        xl = x / L
        ok = (exact and not forms['scaled'] and math.frexp(L)[0] == 0.5 and 2.0 ** -80 <= L <= 2.0 ** 80
              and bool(np.all(xl * grid == np.rint(xl * grid)) and float(np.abs(xl).max()) < 2.0 ** 10))
        if not ok:
            forms['pos'] = 'float'
    if forms['pos'] in ('int_array', 'int_list'):
        # whole-number Cartesian positions (what a file with "0 0 0 / 2 2 2" coordinates or a hand-written list gives)
        x = np.rint(x)
        if forms['pos'] == 'int_array':
            x, dt = _fit_int(x, idt)
            forms['int_dtype'] = dt
        s = (x - o) @ np.linalg.inv(V) if exact else rel_coords(x, V, o)
    n = len(s)
    props = prop_values(n, case['nprops'])
    scaled = bool(forms['scaled']) and forms['pos'] not in ('int_array', 'int_list', 'float32')
    # the caller's own arrays (everything handed to atomman as a writeable ndarray): see "caller side" below
    handed_in = []
    pos_obj = _form_pos(s if scaled else x, forms['pos'], idt)
    at_obj = atypes(n)
    prop_objs = {k: v.copy() for k, v in props.items()}
    for a in [pos_obj, at_obj] + list(prop_objs.values()):
        if isinstance(a, np.ndarray) and a.flags.writeable:
            handed_in.append(a)
    atoms = am.Atoms(atype=at_obj, pos=pos_obj, **prop_objs)
    symbols = ('Al', 'Cu', 'Ni') if case.get('symbols') else None
    kw = {} if symbols is None else {'symbols': symbols}
    if scaled:
        kw['scale'] = True
    if forms['safecopy']:
        kw['safecopy'] = True
    pbc_obj, handed = _form_pbc(pbc, forms['pbc'])
    system = am.System(atoms=atoms, box=_form_box(am, V, o, forms['box'], keep=handed_in, dt=bdt), pbc=pbc_obj, **kw)
    if scaled:
        # atomman computed the Cartesian positions itself: they are the input of everything that follows
        x_am = np.array(system.atoms.pos, dtype=float)
        tol = 1e-13 * (3 * max(1.0, float(np.abs(s).max())) * float(np.abs(V).max()) + float(np.abs(o).max()))
        require(x_am.shape == x.shape and float(np.abs(x_am - x).max()) <= tol,
                lambda: 'System(scale=True) did not place the atoms at rel . vects + origin: off by %.3g' % float(np.abs(x_am - x).max()))
        x = x_am
    ctx = {'pbc': [bool(p) for p in pbc],       # what system.pbc has to report now
           'cached': [bool(p) for p in pbc],    # the setting at the last constructor / setter call on this object
           'handed': handed,                    # bool ndarray handed to atomman that it may alias
           'changed': False,                    # cell or positions changed since construction
           'lh_flip': False,                    # the history reversed an odd number of cell vectors
           'int_stored': np.asarray(system.atoms.view['pos']).dtype.kind in 'iub',
           'pos_dtype': str(np.asarray(system.atoms.view['pos']).dtype),
           'forms': forms, 'scaled': scaled, 'L': L,
           'handed_in': [(a, np.array(a, copy=True)) for a in handed_in]}     # (the caller's array, its value at hand-over)
    return system, V, o, s, x, props, ctx


# ----------------------------------------------------------------------------- histories
#
# The property holds for a system whatever happened to it before.  A history is a list of operation dicts, interpreted
# against the real object; ctx carries the model (what system.pbc has to report).  Nothing here is judged except that
# the periodicity set through the documented routes is the one reported: the judged call comes afterwards and is judged
# on the state read back from the system (cell, origin, positions, pbc) with the same oracles as for a fresh object.

_IN_PLACE = ('elem', 'elem_all', 'slice', 'alias', 'shared')


def _op_pbc(am, system, op, ctx, labels):
    to = [bool(b) for b in op['to']]
    how = op['how']
    arr = system.pbc
    if how in _IN_PLACE and not (isinstance(arr, np.ndarray) and arr.flags.writeable):
        how = 'setter_list'       # a read-only array was handed in: in-place assignment is numpy's refusal, not atomman's
    if how == 'alias':
        h = ctx['handed']
        if h is not None and h.flags.writeable and np.shares_memory(h, arr):
            h[...] = to           # the caller changes the array it gave to atomman
            labels.add('pbc_alias')
            ctx['pbc'] = [bool(p) for p in system.pbc]
            return
        how = 'elem'
    if how == 'shared':
        # atoms_ix / atoms_extend hand the host's pbc array to the new system: change it there
        other = system.atoms_ix[0:1]
        if np.shares_memory(other.pbc, arr):
            other.pbc[:] = to
            labels.add('pbc_shared')
            ctx['pbc'] = [bool(p) for p in system.pbc]
            return
        how = 'elem'
    if how == 'elem':
        for i in range(3):
            if bool(system.pbc[i]) != to[i]:
                system.pbc[i] = to[i]
        labels.add('pbc_elem')
    elif how == 'elem_all':
        for i in range(3):
            system.pbc[i] = to[i]
        labels.add('pbc_elem')
    elif how == 'slice':
        system.pbc[:] = to
        labels.add('pbc_elem')
    else:
        if how == 'setter_list':
            system.pbc = list(to)
        elif how == 'setter_tuple':
            system.pbc = tuple(to)
        elif how == 'setter_array':
            a = np.array(to, dtype=bool)
            system.pbc = a
            ctx['handed'] = a
        elif how == 'setter_int':
            system.pbc = np.array([int(b) for b in to])
        elif how == 'setter_npbool':
            system.pbc = [np.bool_(b) for b in to]
        else:
            raise HarnessError('pbc op %r' % (how,))
        ctx['cached'] = list(to)
        labels.add('pbc_setter')
    ctx['pbc'] = list(to)
    got = [bool(p) for p in system.pbc]
    require(got == to, lambda: 'periodicity set to %r through %s, but system.pbc reports %r' % (to, op['how'], got))


def _op_box_set(system, op, ctx, labels):
    V = np.array(system.box.vects, dtype=float)
    o = np.array(system.box.origin, dtype=float)
    newV = V * np.array(op['f'], dtype=float)[:, None]          # rows rescaled: handedness kept
    sg = op.get('sg')
    if sg is not None:
        # cell vectors reversed (individually, in pairs, all three) through the public setter: an odd number changes the
        # handedness; a LAMMPS-form cell becomes lower triangular with negative diagonal entries
        newV = newV * np.array(sg, dtype=float)[:, None] + 0.0
        if sg[0] * sg[1] * sg[2] < 0:
            ctx['lh_flip'] = not ctx['lh_flip']
        if min(sg) < 0:
            labels.add('hist_box_reversed')
    newo = o + np.array(op['d'], dtype=float) @ V
    if op['via'] == 'vects':
        system.box_set(vects=newV, origin=newo, scale=bool(op['scale']))
    else:
        system.box_set(avect=newV[0], bvect=newV[1], cvect=newV[2], origin=newo, scale=bool(op['scale']))
    ctx['changed'] = True
    labels.add('hist_box_set')


def _op_pos(system, op, ctx, labels):
    if np.asarray(system.atoms.view['pos']).dtype.kind != 'f':
        return                          # integer-stored positions (open finding): a float edit is numpy's refusal
    n = system.natoms
    i = int(op['i']) % n
    d = np.array(op['d'], dtype=float)
    via = op['via']
    if via == 'inplace':
        system.atoms.pos[i] += d @ np.array(system.box.vects, dtype=float)
    elif via == 'setter':
        newx = np.array(system.atoms.pos, dtype=float)
        newx[i] += d @ np.array(system.box.vects, dtype=float)
        system.atoms.pos = newx
    elif via == 'scaled':
        sp = np.array(system.atoms_prop(key='pos', scale=True), dtype=float)
        sp[i] += d
        system.atoms_prop(key='pos', value=sp, scale=True)
    elif via == 'scaled_index':
        sp = np.array(system.atoms_prop(key='pos', index=i, scale=True), dtype=float)
        system.atoms_prop(key='pos', index=i, value=sp + d, scale=True)
    else:
        raise HarnessError('pos op %r' % (via,))
    ctx['changed'] = True
    labels.add('hist_pos_edit')


def _op_rebuild(am, system, op, ctx, labels):
    import copy
    via = op['via']
    if via == 'deepcopy':
        new = copy.deepcopy(system)           # private state is copied as it is: 'cached' stays
    else:
        if via == 'shared':
            new = am.System(atoms=system.atoms, box=system.box, pbc=system.pbc, symbols=system.symbols)
        elif via == 'safecopy':
            new = am.System(atoms=system.atoms, box=system.box, pbc=system.pbc, symbols=system.symbols, safecopy=True)
        elif via == 'ix':
            new = system.atoms_ix[:]
        elif via == 'model':
            new = am.System(model=system.model())
        else:
            raise HarnessError('rebuild op %r' % (via,))
        ctx['cached'] = list(ctx['pbc'])
    if via == 'model':
        ctx['changed'] = True                 # numbers went through the data model: re-read
    labels.add('hist_rebuild')
    return new


def _op_read(system, op, ctx, labels):
    what = op['what']
    n = system.natoms
    if what == 'dvect':
        system.dvect(0, n - 1)
    elif what == 'dmag':
        system.dmag(0, n - 1)
    elif what == 'df':
        system.atoms_df(scale=True)
    elif what == 'str':
        str(system)
    elif what == 'box_params':
        b = system.box
        (b.a, b.b, b.c, b.alpha, b.beta, b.gamma, b.volume, b.reciprocal_vects)
    elif what == 'normalize':
        # an earlier normalize call (must leave the system as it was); only inside the domain the property states
        # (fully periodic; cond <= 1e3, see ASSUMPTIONS).  On a system with a non-periodic direction whose atoms reach
        # a face normalize pads the cell in its internal wrap and then fails its own orthonormality assert
        # (AssertionError '1.000000 1.000000 1.001000'): outside the property text, not judged here.
        if all(ctx['pbc']) and np.linalg.cond(np.array(system.box.vects, dtype=float)) <= 1e3 and not ctx['int_stored']:
            system.normalize()
    else:
        raise HarnessError('read op %r' % (what,))
    labels.add('hist_read')


def _op_other_wrap(am, op, labels, L=1.0):
    """process history: another system (same length unit), other periodicity, atoms outside, wrapped first"""
    other = am.System(atoms=am.Atoms(pos=L * np.array([[1.5, -0.5, 2.5], [0.25, 3.5, -1.5]])),
                      box=am.Box(vects=L * np.array([[1.0, 0.0, 0.0], [0.5, 1.0, 0.0], [0.0, 0.25, 2.0]])), pbc=list(op['pbc']))
    other.wrap()
    labels.add('hist_other_wrap')


def apply_history(am, system, hist, ctx, labels):
    """-> the system the judged call is made on (a rebuild replaces the object)"""
    for op in hist:
        k = op['op']
        if k == 'pbc':
            _op_pbc(am, system, op, ctx, labels)
        elif k == 'scaled_read':
            system.atoms_prop(key='pos', scale=True)
            system.box.reciprocal_vects
            labels.add('prior_scaled_read')
        elif k == 'wrap':
            if op.get('ret'):
                system.wrap(return_imageflags=True)
            else:
                system.wrap()
            ctx['changed'] = True
            labels.add('prior_wrap')
        elif k == 'box_set':
            _op_box_set(system, op, ctx, labels)
        elif k == 'pos':
            _op_pos(system, op, ctx, labels)
        elif k == 'rebuild':
            system = _op_rebuild(am, system, op, ctx, labels)
        elif k == 'read':
            _op_read(system, op, ctx, labels)
        elif k == 'other_wrap':
            _op_other_wrap(am, op, labels, ctx.get('L', 1.0))
        else:
            raise HarnessError('history op %r' % (k,))
    if hist:
        labels.add('hist')
    got = [bool(p) for p in system.pbc]
    require(got == ctx['pbc'], lambda: 'system.pbc reports %r after a history that set %r' % (got, ctx['pbc']))
    return system


def case_history(case):
    """the history of a case; cases written before histories existed carry 'prior'"""
    if 'hist' in case:
        return list(case['hist'])
    prior = case.get('prior')
    if prior == 'scaled_read':
        return [{'op': 'scaled_read'}]
    if prior == 'wrap_first':
        return [{'op': 'wrap', 'ret': False}]
    return []


def form_labels(ctx, labels):
    f = ctx['forms']
    if f['pos'] != 'float':
        labels.add('pos_' + ('int' if f['pos'].startswith('int') else f['pos']))
    dt = f.get('int_dtype')
    if dt is not None:
        # which integer-like dtype the whole-number positions were handed over in
        if dt.kind == 'b':
            labels.add('pos_int_bool')
        elif dt == np.dtype('int64'):
            labels.add('pos_int_int64')
        else:
            labels.add('pos_int_not64')           # every integer dtype other than the platform default
            labels.add('pos_int_unsigned' if dt.kind == 'u' else 'pos_int_narrow')
    if ctx['scaled']:
        labels.add('pos_scaled_ctor')
    if f['box'] != 'array':
        labels.add('box_form')
    if f.get('box_dtype') is not None:
        labels.add('box_dtype')                   # cell vectors / origin handed over as float32 / float16 / integer array
        labels.add('box_' + f['box'])
    if f['pbc'] in ('int8_array', 'uint8_array'):
        labels.add('pbc_int8')
    if f['pbc'] != 'list':
        labels.add('pbc_form')
    if f['pos'] != 'float' or ctx['scaled'] or f['box'] != 'array' or f['pbc'] != 'list' or f['safecopy']:
        labels.add('forms')


def keyed_for_integer_positions(oracle):
    """Violations on a system whose positions atomman stored with an integer dtype are the open finding KEY_INTPOS."""
    @functools.wraps(oracle)
    def wrapped(case, *a, **kw):
        ctx_out = {}
        try:
            return oracle(case, *a, ctx_out=ctx_out, **kw)
        except Violation as v:
            if v.key is None and ctx_out.get('int_stored'):
                raise Violation('positions given as whole numbers (%s) are stored with dtype %s and the result is cast to that dtype: %s' % (ctx_out.get('given'), ctx_out.get('pos_dtype'), v.detail), key=KEY_INTPOS)
            raise
    return wrapped


def snapshot(system):
    snap = {'vects': np.array(system.box.vects, dtype=float), 'origin': np.array(system.box.origin, dtype=float),
            'pbc': [bool(p) for p in system.pbc], 'symbols': tuple(system.symbols), 'natoms': int(system.natoms),
            'natypes': int(system.natypes), 'keys': list(system.atoms.prop()), 'props': {}}
    for k in snap['keys']:
        snap['props'][k] = np.array(system.atoms.view[k], copy=True)
    return snap


def same_array(a, b):
    a, b = np.asarray(a), np.asarray(b)
    return a.shape == b.shape and a.dtype == b.dtype and bool(np.array_equal(a, b))


def check_props(system, atype0, props, what, exact_keys=None):
    """atype and the extra properties of `system` are the ones put in, row by row"""
    n = len(atype0)
    require(system.natoms == n, lambda: '%s: natoms %r -> %r' % (what, n, system.natoms))
    keys = list(system.atoms.prop())
    for k in ['atype', 'pos'] + list(props):
        require(k in keys, lambda: '%s: per-atom property %r disappeared (have %r)' % (what, k, keys))
    require(len(keys) == 2 + len(props), lambda: '%s: per-atom property list changed to %r' % (what, keys))
    require(same_array(system.atoms.atype, atype0), lambda: '%s: atype changed: %r -> %r' % (what, atype0.tolist(), np.asarray(system.atoms.atype).tolist()))
    for k, v in props.items():
        if exact_keys is not None and k not in exact_keys:
            got = np.asarray(system.atoms.view[k])
            require(got.shape == v.shape, lambda: '%s: property %r changed shape %r -> %r' % (what, k, v.shape, got.shape))
            continue
        got = np.asarray(system.atoms.view[k])
        require(same_array(got, v), lambda: '%s: per-atom property %r changed / lost row alignment: %r -> %r' % (what, k, v.tolist(), got.tolist()))


# ----------------------------------------------------------------------------- strategies

_cells_std = gens.cells(lefthanded=True)
_cells_strong = gens.cells(lefthanded=True, lmin=1.0, lmax=30.0, maxtilt=4.0, families=False, zero_tilt_share=False)
_cells_plain = st.one_of(_cells_std, _cells_std, _cells_std, _cells_strong)
_int48 = st.integers(0, 47)


def _draw_sym(draw, c):
    """the cell dict c, in 3 cases of 8 with an exact symmetry operation (see cell_vects5): 2 of 8 'diagonal' (rotation by
    exactly 180 degrees about x / y / z or a mirror, cell vectors reversed individually / in pairs / all; no generic rotation: the
    zeros above the diagonal survive), 1 of 8 any signed axis permutation (exact 90 / 120 / 180 degree rotations, mirrors), cell
    vectors renamed and reversed (three quarters of them without a generic rotation)"""
    j = draw(_int8)
    if j < 5:
        return c
    c = dict(c)
    if j < 7:
        m, p, k = draw(_int8), 0, draw(_int8)
        if m == 0 and k == 0:
            k = 6                         # avect and bvect reversed: the cell turned by 180 degrees about z
        c['rot'] = None
    else:
        m, p, k = draw(_int48), draw(_int6), draw(_int8)
        if draw(_int4):
            c['rot'] = None
    c['sym'] = {'m': m, 'p': p, 's': k}
    return c


@st.composite
def _cells_sym(draw):
    return _draw_sym(draw, draw(_cells_plain))


_cells = _cells_sym()

_exact_vals = st.sampled_from([0.0, 1.0, 0.5, -1.0, 2.0, -0.5, 1.5, -6.0, 7.0, 3.0, -3.0, 0.0, 1.0])
_far_vals = st.builds(lambda k, f: float(k) + f, st.one_of(st.integers(-1000, 1000), st.integers(-100000, 100000)), st.sampled_from([0.0, 0.5, 0.3, 0.9999, 0.0001, 0.77]))
_coord = st.one_of(gens.nice(-6.0, 7.0, 4), gens.nice(-6.0, 7.0, 4), gens.nice(0.0, 1.0, 4), gens.nice(0.0, 1.0, 4),
                   _exact_vals, _exact_vals)
_coord_far = st.one_of(_coord, _coord, _far_vals)
_point = st.lists(_coord, min_size=3, max_size=3)
_point_far = st.lists(_coord_far, min_size=3, max_size=3)
_points = st.lists(_point, min_size=1, max_size=12)
_points_far = st.lists(st.one_of(_point, _point_far), min_size=1, max_size=12)
_points_n = st.lists(_point, min_size=1, max_size=8)
_points_n_far = st.lists(st.one_of(_point, _point, _point_far), min_size=1, max_size=8)
_nprops = st.sampled_from([0, 1, 2, 3, 3])
# Hypothesis over-represents the first element of sampled_from (shrink target): put the fully periodic setting first
_PBCS = [[True, True, True], [True, True, False], [True, False, True], [False, True, True], [True, False, False],
         [False, True, False], [False, False, True], [False, False, False]]
_pbcs = st.sampled_from(_PBCS)
_bool = st.booleans()
_int8 = st.integers(0, 7)
_int6 = st.integers(0, 5)


# what happened to the system before the judged call (the property holds after any history): see apply_history
_PBC_HOWS = st.sampled_from(['elem', 'elem', 'elem', 'elem_all', 'slice', 'alias', 'alias', 'alias', 'shared', 'shared',
                             'setter_list', 'setter_tuple', 'setter_array', 'setter_int', 'setter_npbool'])
_pbc_op = st.builds(lambda how, to: {'op': 'pbc', 'how': how, 'to': to}, _PBC_HOWS, _pbcs)
_scaled_read_op = st.just({'op': 'scaled_read'})
_wrap_op = st.builds(lambda r: {'op': 'wrap', 'ret': r}, _bool)
_f3 = st.lists(st.sampled_from([1.0, 1.0, 0.5, 2.0, 1.25, 0.75, 1.5]), min_size=3, max_size=3)
_d3 = st.lists(st.sampled_from([0.0, 0.0, 0.5, -0.25, 1.0, -2.0, 0.3125, 3.0]), min_size=3, max_size=3)
# cell vectors reversed by the box_set of a history: none (no 'sg' key, the cases of earlier rounds) in half of the operations
_sg3 = st.sampled_from([None, None, None, None, None, None, None, [-1.0, -1.0, 1.0], [1.0, -1.0, -1.0], [-1.0, 1.0, -1.0],
                        [-1.0, 1.0, 1.0], [1.0, -1.0, 1.0], [1.0, 1.0, -1.0], [-1.0, -1.0, -1.0]])


def _mk_box_op(via, f, d, sc, sg):
    op = {'op': 'box_set', 'via': via, 'f': f, 'd': d, 'scale': sc}
    if sg is not None:
        op['sg'] = sg
    return op


_box_op = st.builds(_mk_box_op, st.sampled_from(['vects', 'avect']), _f3, _d3, _bool, _sg3)
_pos_op = st.builds(lambda via, i, d: {'op': 'pos', 'via': via, 'i': i, 'd': d},
                    st.sampled_from(['inplace', 'setter', 'scaled', 'scaled_index']), st.integers(0, 11), _d3)
_rebuild_op = st.builds(lambda via: {'op': 'rebuild', 'via': via}, st.sampled_from(['shared', 'deepcopy', 'ix', 'model', 'safecopy']))
_rebuild_exact_op = st.builds(lambda via: {'op': 'rebuild', 'via': via}, st.sampled_from(['shared', 'deepcopy', 'ix', 'safecopy']))
_read_op = st.builds(lambda w: {'op': 'read', 'what': w}, st.sampled_from(['dvect', 'dmag', 'df', 'str', 'box_params', 'normalize']))
_other_op = st.builds(lambda p: {'op': 'other_wrap', 'pbc': p}, _pbcs)
_int16 = st.integers(0, 15)
_int4 = st.integers(0, 3)


def _hist_strategy(exact):
    """2 cases in 8 (3 in 8 for exact) are a fresh object; otherwise 1-4 operations, 6 in 16 of them a periodicity change.
    (st.one_of drops repeated alternatives, so the weights are drawn explicitly.)"""
    @st.composite
    def hist(draw):
        if draw(_int8) < (3 if exact else 2):
            return []
        ops = []
        for _ in range(1 + draw(_int4) if not exact else 1 + draw(_int4) % 3):
            j = draw(_int16)
            if j < 6:
                ops.append(draw(_pbc_op))
            elif j < 8:
                ops.append(draw(_scaled_read_op))
            elif j < 10:
                ops.append(draw(_rebuild_exact_op if exact else _rebuild_op))
            elif j < 12:
                ops.append(draw(_read_op))
            elif j < 13:
                ops.append(draw(_other_op))
            elif exact:
                ops.append(draw(_pbc_op))
            elif j < 14:
                ops.append(draw(_wrap_op))
            elif j < 15:
                ops.append(draw(_box_op))
            else:
                ops.append(draw(_pos_op))
        return ops
    return hist()


# exactly representable inputs stay exactly representable under the operations of _hist_exact
_hist = _hist_strategy(False)
_hist_exact = _hist_strategy(True)

# documented input forms (Atoms: "list/ndarray"; Box: "array-like"; System.pbc: "tuple or list of bool" / bool ndarray)
_pos_form = st.sampled_from(['float', 'float', 'float', 'float', 'float', 'float', 'float', 'float', 'list', 'list', 'fortran', 'strided',
                             'int_array', 'int_list', 'int_array', 'int_array', 'int_array', 'float32', 'float32'])
# which integer-like dtype an 'int_array' has: index into INT_DTYPES (Hypothesis over-represents the first element: int32)
_int_dtype = st.sampled_from(list(range(1, len(INT_DTYPES))) + [0, 0, 8])
_box_form = st.sampled_from(['array', 'array', 'array', 'list', 'tuple', 'fortran', 'readonly', 'avects'])
_pbc_form = st.sampled_from(['list', 'list', 'tuple', 'ndarray', 'ndarray', 'int_list', 'int_array', 'npbool', 'strided', 'readonly'])
_one_in_5 = st.sampled_from([False, False, False, False, True])
_forms = st.builds(lambda a, b, c, d, e, i: {'pos': a, 'box': b, 'pbc': c, 'scaled': d, 'safecopy': e, 'idt': i},
                   _pos_form, _box_form, _pbc_form, _one_in_5, _one_in_5, _int_dtype)


# overall length scale (see "overall length scale" above): exponent 0 in about half of the cases, -10 (metres) favoured
_scale_k10 = st.sampled_from([0, 0, 0, 0, 0, 0, 0, 0, -10, -10, -10, -10, -12, -9, -8, -5, -3, -1, 1, 3, 6])
_scale_k2 = st.sampled_from([0, 0, 0, 0, 0, 0, 0, 0, -33, -33, -33, -33, -40, -30, -27, -17, -10, -3, 3, 10, 20])
_INT_FORMS = ('int_array', 'int_list')


def _with_scale(c, k, base, forms):
    """the cell dict with the overall length scale base**k.  Whole-number positions (integer-typed input forms) in a unit in
    which the cell is smaller than 1 are all zero: those cases get the reciprocal scale (at most base**|k| <= 1e6) instead"""
    if k < 0 and forms['pos'] in _INT_FORMS:
        k = min(-k, 6 if base == 10.0 else 20)
    if k != 0:
        c = dict(c, scale=base ** k)
    return c


def final_pbc(pbc0, hist):
    pbc = list(pbc0)
    for op in hist:
        if op['op'] == 'pbc':
            pbc = list(op['to'])
    return pbc


@st.composite
def wrap_cases(draw):
    c = draw(_cells)
    far = draw(_int6) == 0
    rel = draw(_points_far if far else _points)
    pbc0, hist = draw(_pbcs), draw(_hist)
    forms = draw(_forms)
    c = _with_scale(c, draw(_scale_k10), 10.0, forms)
    # 'pbc' is the periodicity at the judged call, 'pbc0' the one given to the constructor
    return {'cell': c, 'pbc0': pbc0, 'pbc': final_pbc(pbc0, hist), 'rel': rel, 'nprops': draw(_nprops),
            'ret': draw(_int6) != 0, 'symbols': draw(_bool), 'hist': hist, 'forms': forms}


_pow2 = st.sampled_from([0.5, 1.0, 2.0, 4.0, 8.0, 16.0])
_dy_origin = st.one_of(st.just(0.0), gens.dyadic(-8, 8, 4))
_dy_tilt = st.one_of(st.just(0.0), st.just(0.0), gens.dyadic(-3, 3, 2))
_dy_coord = st.one_of(gens.dyadic(-6, 7, 2), st.sampled_from([0.0, 1.0, 0.0, 1.0, -1.0, 2.0, 0.5]), gens.dyadic(-64, 64, 3))
_dy_points = st.lists(st.lists(_dy_coord, min_size=3, max_size=3), min_size=1, max_size=10)


@st.composite
def wrap_exact_cases(draw):
    lx, ly, lz = draw(_pow2), draw(_pow2), draw(_pow2)
    xy, xz, yz = draw(_dy_tilt) * lx, draw(_dy_tilt) * lx, draw(_dy_tilt) * ly
    c = {'lx': lx, 'ly': ly, 'lz': lz, 'xy': xy, 'xz': xz, 'yz': yz,
         'origin': [draw(_dy_origin) for _ in range(3)], 'rot': None, 'lefthanded': draw(_bool)}
    c = _draw_sym(draw, c)                # exact: products with 0 / +-1 only
    pbc0, hist = draw(_pbcs), draw(_hist_exact)
    forms = draw(_forms)
    c = _with_scale(c, draw(_scale_k2), 2.0, forms)          # power of two: every number stays exactly representable
    return {'cell': c, 'pbc0': pbc0, 'pbc': final_pbc(pbc0, hist), 'rel': draw(_dy_points), 'nprops': draw(_nprops),
            'ret': True, 'symbols': False, 'hist': hist, 'forms': forms}


@st.composite
def normalize_cases(draw):
    c = draw(_cells)
    far = draw(_int6) == 0
    rel = draw(_points_n_far if far else _points_n)
    pbc0, hist = draw(_pbcs), draw(_hist)
    if not all(final_pbc(pbc0, hist)):
        # normalize is stated for fully periodic systems: the history ends by making the system fully periodic
        hist = hist + [{'op': 'pbc', 'how': draw(_PBC_HOWS), 'to': [True, True, True]}]
    forms = draw(_forms)
    c = _with_scale(c, draw(_scale_k10), 10.0, forms)
    return {'cell': c, 'rel': rel, 'nprops': draw(_nprops), 'ret': draw(_int6) != 0,
            'via': draw(st.sampled_from(['method', 'method', 'function'])), 'symbols': draw(_bool),
            'pbc0': pbc0, 'hist': hist, 'forms': forms}


# ----------------------------------------------------------------------------- wrap

def _is_dyadic(A, bits=24):
    A = np.asarray(A, dtype=float) * float(2 ** bits)
    return bool(np.all(A == np.rint(A)) and np.abs(A).max() < 2.0 ** 50)


@keyed_for_integer_positions
def oracle_wrap(case, exact=False, ctx_out=None):
    import atomman as am
    c = case['cell']
    pbc = [bool(p) for p in case['pbc']]
    pbc0 = [bool(p) for p in case.get('pbc0', pbc)]
    hist = case_history(case)
    if final_pbc(pbc0, hist) != pbc:
        raise HarnessError("case['pbc'] is not the periodicity its history ends with")
    system, V, o, s, x, props, ctx = build_system(am, case, pbc0, exact=exact)
    if ctx_out is not None:
        ctx_out.update(int_stored=ctx['int_stored'], pos_dtype=ctx['pos_dtype'],
                       given=str(ctx['forms'].get('int_dtype', 'list of Python ints')))
    n = len(s)
    at0 = atypes(n)
    labels = cell_labels5(c)
    scale_labels(ctx['L'], labels)
    form_labels(ctx, labels)
    if not ctx['changed']:
        Vc = np.array(system.box.vects, dtype=float)
        require(np.abs(Vc - V).max() <= 1e-8 * float(np.abs(V).max()), lambda: 'System construction changed the cell: %r -> %r' % (V, Vc))
        require(np.array_equal(np.array(system.atoms.pos, dtype=float), x), 'System construction changed the positions')
    system = apply_history(am, system, hist, ctx, labels)
    if ctx['changed']:
        # the judged input is the system as its history left it
        exact = False
        V = np.array(system.box.vects, dtype=float); o = np.array(system.box.origin, dtype=float)
        x = np.array(system.atoms.pos, dtype=float); s = rel_coords(x, V, o)
        require(x.shape == (n, 3) and np.all(np.isfinite(x)) and np.all(np.isfinite(V)) and abs(np.linalg.det(V)) > 0,
                'the history left a system without a finite cell / positions')
    if pbc != pbc0:
        labels.add('pbc_changed')
    if pbc != ctx['cached']:
        # the periodicity now differs from the one last given to the constructor / the setter of this object
        labels.add('pbc_inplace')
    labels.add('pbc%d' % sum(pbc))
    if 0 < sum(pbc) < 3:
        labels.add('mixed_pbc')
    cond = float(np.linalg.cond(V))
    vmax, omax = float(np.abs(V).max()), float(np.abs(o).max())
    smax = max(1.0, float(np.abs(s).max()))
    xmax = float(np.abs(x).max())
    if smax > 8:
        labels.add('far')
    if cond > 1e3:
        labels.add('illcond')
    Vb = np.array(system.box.vects, dtype=float)      # as stored (floor applied)
    labels.discard('lefthanded')
    if np.linalg.det(Vb) < 0:
        labels.add('lefthanded')
    Vrh = Vb.copy()
    if np.linalg.det(Vb) < 0:
        Vrh[2] = -Vrh[2]
    shape_labels(Vrh, labels)
    require(np.abs(Vb - V).max() <= 1e-8 * vmax, lambda: 'the cell changed during a history that only reads / changes the periodicity: %r -> %r' % (V, Vb))
    x0 = np.array(system.atoms.pos, dtype=float)
    require(np.array_equal(x0, x), 'the positions changed during a history that only reads / changes the periodicity')

    if exact:
        R = np.linalg.inv(Vb)
        Lx = ctx['L']         # a power of two: scaling by it is exact
        if not (math.frexp(Lx)[0] == 0.5 and _is_dyadic(R * Lx) and _is_dyadic(Vb / Lx, 8) and np.array_equal(Vb @ R, np.eye(3)) and np.array_equal(Vb, V)):
            exact = False
            labels.add('not_exact')
        else:
            labels.add('exact')

    # relative coordinates before the call (own solve, stored cell)
    s0 = rel_coords(x, Vb, o)
    band0 = inside_band(Vb, o, smax, xmax)
    out_before = bool(np.any((s0 < -band0) | (s0 > 1 + band0)))
    onface = bool(np.any((s == 0.0) | (s == 1.0)))

    sym0 = tuple(system.symbols)
    ret = system.wrap(return_imageflags=True) if case['ret'] else system.wrap()

    V1 = np.array(system.box.vects, dtype=float)
    o1 = np.array(system.box.origin, dtype=float)
    x1 = np.array(system.atoms.pos, dtype=float)
    require(x1.shape == (n, 3) and np.all(np.isfinite(x1)) and np.all(np.isfinite(V1)) and np.all(np.isfinite(o1)),
            lambda: 'wrap produced non-finite / mis-shaped data: pos %r vects %r origin %r' % (x1, V1, o1))
    v1max = float(np.abs(V1).max())

    # --- untouched: pbc, symbols, atype, properties (row aligned)
    require([bool(p) for p in system.pbc] == pbc, lambda: 'wrap changed pbc %r -> %r' % (pbc, list(system.pbc)))
    check_props(system, at0, props, 'wrap')
    require(tuple(system.symbols) == sym0, lambda: 'wrap changed symbols %r -> %r' % (sym0, system.symbols))

    # --- image flags
    if case['ret']:
        labels.add('flags_returned')
        require(isinstance(ret, np.ndarray) and ret.shape == (n, 3), lambda: 'imageflags is %r (shape %r), expected (%d,3) array' % (type(ret), getattr(ret, 'shape', None), n))
        require(np.issubdtype(ret.dtype, np.integer), lambda: 'imageflags dtype %r is not integer' % ret.dtype)
        flags = np.array(ret, dtype=np.int64)
    else:
        require(ret is None, lambda: 'wrap() without return_imageflags returned %r' % (ret,))
        # there must exist integer flags: deduce them
        f = rel_coords(x - x1, Vb, np.zeros(3))
        flags = np.rint(f).astype(np.int64)
    for k in range(3):
        if not pbc[k]:
            require(not flags[:, k].any(), lambda: 'non-periodic axis %d has non-zero image flags %r (pbc %r)' % (k, flags[:, k].tolist(), pbc))
    # pos_before - pos_after = flags . V  (moves by whole cell vectors, periodic directions only; nothing else moves)
    moved = x - x1
    expect = flags.astype(float) @ Vb
    tol_x = 0.0 if exact else _TS * 2e-14 * cond * (smax * vmax * 3 + omax)
    err = float(np.abs(moved - expect).max())
    require(err <= tol_x, lambda: 'positions before - after differ from imageflags.vects by %.3g (tol %.3g); pbc %r flags %r\nrel before %r\nmoved (in cell vectors) %r'
            % (err, tol_x, pbc, flags.tolist(), s0.tolist(), rel_coords(moved, Vb, np.zeros(3)).tolist()))

    # --- cell: periodic rows unchanged, non-periodic only grows (old cell inside the new one)
    for k in range(3):
        if pbc[k]:
            e = float(np.abs(V1[k] - Vb[k]).max())
            require(e <= (0.0 if exact and all(pbc) else 1e-8 * v1max),
                    lambda: 'cell vector %d is periodic but changed: %r -> %r (pbc %r)' % (k, Vb[k].tolist(), V1[k].tolist(), pbc))
    require(abs(np.linalg.det(V1)) > 0 and np.linalg.det(V1) * np.linalg.det(Vb) > 0,
            lambda: 'wrap changed the handedness / collapsed the cell: det %r -> %r' % (np.linalg.det(Vb), np.linalg.det(V1)))
    s1 = rel_coords(x1, V1, o1)
    x1max = float(np.abs(x1).max())
    band1 = inside_band(V1, o1, 1.0, x1max) + (0.0 if exact else _TS * 1e-13 * cond * smax)
    corners = np.array([[i, j, k] for i in (0.0, 1.0) for j in (0.0, 1.0) for k in (0.0, 1.0)])
    cs = rel_coords(corners @ Vb + o, V1, o1)
    bandc = inside_band(V1, o1, 1.0, float(np.abs(corners @ Vb + o).max()))
    badc = (cs < -bandc) | (cs > 1 + bandc)
    require(not badc.any(), lambda: 'the cell did not only grow: corners of the old cell have relative coordinates %r in the new cell (pbc %r)' % (cs.tolist(), pbc))

    # --- every atom inside the new cell
    bad = (s1 < -band1) | (s1 > 1 + band1)
    require(not bad.any(), lambda: 'atoms outside the cell after wrap: relative coordinates %r (band %r), pbc %r, before %r'
            % (s1[bad.any(axis=1)].tolist(), band1.tolist(), pbc, s0[bad.any(axis=1)].tolist()))
    if np.any((np.abs(s1) < band1) | (np.abs(s1 - 1) < band1)):
        labels.add('after_on_face')
    if exact:
        # planes of a periodic axis are unchanged, so the coordinate along it in the OLD cell decides, exactly
        R = np.linalg.inv(Vb)
        se = (x1 - o) @ R
        for k in range(3):
            if pbc[k]:
                require(bool(np.all((se[:, k] >= 0.0) & (se[:, k] <= 1.0))),
                        lambda: 'exact inputs: periodic axis %d coordinate after wrap %r not in [0,1] (before %r)' % (k, se[:, k].tolist(), s[:, k].tolist()))
    # a non-periodic axis with an atom beyond its faces: the cell had to be enlarged along it (atoms did not move: above)
    if any((not pbc[k]) and (np.any(s0[:, k] < -band0[k]) or np.any(s0[:, k] > 1 + band0[k])) for k in range(3)):
        labels.add('grew')
    if any(pbc[k] and (np.any(s0[:, k] < -band0[k]) or np.any(s0[:, k] > 1 + band0[k])) for k in range(3)):
        labels.add('wrapped')
    if np.abs(flags).max() >= 2:
        labels.add('multi_image')
    if any(pbc[k] != ctx['cached'][k] and (np.any(s0[:, k] < -band0[k]) or np.any(s0[:, k] > 1 + band0[k])) for k in range(3)):
        # an axis whose periodicity was changed in place since the last constructor / setter call, with an atom beyond its faces
        labels.add('inplace_toggled_out')
    if out_before:
        labels.add('outside_before')
    if onface:
        labels.add('onface')
    if n >= 2:
        labels.add('multi')
    if case['nprops']:
        labels.add('props')
    if out_before and (labels & {'tilted', 'lefthanded', 'mixed_pbc'}):
        labels.add('nt')
    return labels


def oracle_wrap_exact(case):
    return oracle_wrap(case, exact=True)


# ----------------------------------------------------------------------------- normalize

@keyed_for_integer_positions
def oracle_normalize(case, ctx_out=None):
    import atomman as am
    from atomman.lammps import normalize as lmp_normalize
    c = case['cell']
    pbc = [True, True, True]
    pbc0 = [bool(p) for p in case.get('pbc0', pbc)]
    hist = case_history(case)
    if final_pbc(pbc0, hist) != pbc:
        raise HarnessError('normalize case whose history does not end fully periodic')
    labels = cell_labels5(c)
    if float(np.linalg.cond(cell_vects5(c))) > 1e3:
        return labels | {'illcond_skipped'}
    system, V, o, s, x, props, ctx = build_system(am, case, pbc0)
    if ctx_out is not None:
        ctx_out.update(int_stored=ctx['int_stored'], pos_dtype=ctx['pos_dtype'],
                       given=str(ctx['forms'].get('int_dtype', 'list of Python ints')))
    n = len(s)
    at0 = atypes(n)
    scale_labels(ctx['L'], labels)
    form_labels(ctx, labels)
    system = apply_history(am, system, hist, ctx, labels)
    if ctx['changed']:
        # the judged input is the system as its history left it
        V = np.array(system.box.vects, dtype=float); o = np.array(system.box.origin, dtype=float)
        x = np.array(system.atoms.pos, dtype=float)
        require(x.shape == (n, 3) and np.all(np.isfinite(x)) and np.all(np.isfinite(V)) and abs(np.linalg.det(V)) > 0,
                'the history left a system without a finite cell / positions')
        s = rel_coords(x, V, o)
    cond = float(np.linalg.cond(V))
    if cond > 1e3:
        return labels | {'illcond_skipped'}
    if pbc != pbc0:
        labels.add('pbc_changed')
    if pbc != ctx['cached']:
        labels.add('pbc_inplace')
    vmax, omax = float(np.abs(V).max()), float(np.abs(o).max())
    smax = max(1.0, float(np.abs(s).max()))
    xmax = float(np.abs(x).max())
    if smax > 8:
        labels.add('far')
    Vb = np.array(system.box.vects, dtype=float)
    s0 = rel_coords(x, Vb, o)
    band0 = inside_band(Vb, o, smax, xmax)
    out_before = bool(np.any((s0 < -band0) | (s0 > 1 + band0)))
    if any((not ctx['cached'][k]) and (np.any(s0[:, k] < -band0[k]) or np.any(s0[:, k] > 1 + band0[k])) for k in range(3)):
        # an axis made periodic in place since the last constructor / setter call, with an atom beyond its faces
        labels.add('inplace_toggled_out')
    snap = snapshot(system)

    f = (lambda **kw: system.normalize(**kw)) if case['via'] == 'method' else (lambda **kw: lmp_normalize(system, **kw))
    labels.add('via_' + case['via'])
    if case['ret']:
        res = f(return_transform=True)
        require(isinstance(res, tuple) and len(res) == 2, lambda: 'normalize(return_transform=True) returned %r' % type(res))
        new, T = res
        T = np.array(T, dtype=float)
        require(T.shape == (3, 3) and np.all(np.isfinite(T)), lambda: 'transform is not a finite 3x3 array: %r' % (T,))
        labels.add('transform_returned')
    else:
        new = f()
        T = None
    require(isinstance(new, am.System), lambda: 'normalize returned %r, not a System' % type(new))

    # --- the input system is left as it was (bitwise), and the result is a new object sharing nothing with it
    require(new is not system and new.box is not system.box and new.atoms is not system.atoms, 'normalize returned (parts of) its argument instead of a new system')
    after = snapshot(system)
    require(np.array_equal(after['vects'], snap['vects']) and np.array_equal(after['origin'], snap['origin']),
            lambda: 'normalize changed the cell of its argument: vects %r -> %r, origin %r -> %r' % (snap['vects'].tolist(), after['vects'].tolist(), snap['origin'].tolist(), after['origin'].tolist()))
    require(after['pbc'] == snap['pbc'] and after['symbols'] == snap['symbols'] and after['natoms'] == snap['natoms'] and after['keys'] == snap['keys'],
            'normalize changed pbc/symbols/natoms/property list of its argument')
    for k in snap['keys']:
        require(same_array(after['props'][k], snap['props'][k]), lambda: 'normalize changed per-atom property %r of its argument: %r -> %r' % (k, snap['props'][k].tolist(), after['props'][k].tolist()))
    require(not np.shares_memory(np.asarray(new.atoms.view['pos']), np.asarray(system.atoms.view['pos'])), 'result positions share memory with the argument')

    # --- new cell: right-handed, LAMMPS-compatible
    V1 = np.array(new.box.vects, dtype=float)
    o1 = np.array(new.box.origin, dtype=float)
    x1 = np.array(new.atoms.pos, dtype=float)
    require(V1.shape == (3, 3) and np.all(np.isfinite(V1)) and x1.shape == (n, 3) and np.all(np.isfinite(x1)) and np.all(np.isfinite(o1)),
            'normalize produced non-finite / mis-shaped data')
    require(V1[0, 1] == 0.0 and V1[0, 2] == 0.0 and V1[1, 2] == 0.0 and V1[0, 0] > 0 and V1[1, 1] > 0 and V1[2, 2] > 0,
            lambda: 'new cell is not LAMMPS-compatible: %r' % V1.tolist())
    require(np.linalg.det(V1) > 0, 'new cell is not right-handed')
    require([bool(p) for p in new.pbc] == pbc, lambda: 'normalize changed pbc to %r' % list(new.pbc))
    require(tuple(new.symbols) == snap['symbols'], lambda: 'normalize changed symbols %r -> %r' % (snap['symbols'], new.symbols))
    # scalar properties are carried row by row; a vector property is only required to keep its shape
    check_props(new, at0, props, 'normalize', exact_keys=('charge', 'tag'))

    # --- same lengths, angles, volume (of the cell with its third vector reversed if it was left-handed)
    Vref = Vb.copy()
    lh = np.linalg.det(Vb) < 0
    if bool(lh) != (cell_lefthanded(c) != bool(ctx['lh_flip'])):
        raise HarnessError('handedness of the generated cell')
    labels.discard('lefthanded')
    if lh:
        labels.add('lefthanded')
    if lh:
        Vref[2] = -Vref[2]
    shape_labels(Vref, labels)
    p0, p1 = my_params(Vref), my_params(V1)
    reltol = _TS * (1e-8 + 40 * EPS * cond ** 2)
    for i, nm in enumerate(('a', 'b', 'c')):
        require(abs(p1[i] - p0[i]) <= reltol * vmax, lambda: 'length %s changed: %.15g -> %.15g%s' % (nm, p0[i], p1[i], ' (left-handed input)' if lh else ''))
    for i, nm in ((3, 'alpha'), (4, 'beta'), (5, 'gamma')):
        e = abs(math.cos(math.radians(p1[i])) - math.cos(math.radians(p0[i])))
        require(e <= reltol, lambda: 'angle %s changed: %.12g -> %.12g deg%s' % (nm, p0[i], p1[i], ' (left-handed input, third vector reversed)' if lh else ''))
    vol0, vol1 = abs(float(np.linalg.det(Vb))), float(np.linalg.det(V1))
    require(abs(vol1 - vol0) <= 6 * reltol * p0[0] * p0[1] * p0[2], lambda: 'volume changed %.15g -> %.15g' % (vol0, vol1))

    # --- returned transform: proper rotation taking the old vectors to the new ones
    Tuse = None
    if T is not None:
        e = float(np.abs(T @ T.T - np.eye(3)).max())
        require(e <= 1e-7, lambda: 'transform is not orthonormal: |T.T^T - I| = %.3g\n%r' % (e, T))
        d = float(np.linalg.det(T))
        require(d > 0 and abs(d - 1) <= 1e-6, lambda: 'transform is not a proper rotation: det = %.12g%s' % (d, ' (left-handed input)' if lh else ''))
        e = float(np.abs(Vref @ T.T - V1).max())
        require(e <= _TS * (1e-8 + 200 * EPS * cond ** 2) * vmax, lambda: 'new vectors are not transform . old vectors: differ by %.3g\nold %r\nnew %r\nT %r' % (e, Vref.tolist(), V1.tolist(), T.tolist()))
        Tuse = T

    # --- every atom inside
    s1 = rel_coords(x1, V1, o1)
    band1 = inside_band(V1, o1, 1.0, float(np.abs(x1).max())) + _TS * 1e-13 * cond * smax
    bad = (s1 < -band1) | (s1 > 1 + band1)
    require(not bad.any(), lambda: 'atoms outside the new cell: relative coordinates %r (band %r)' % (s1[bad.any(axis=1)].tolist(), band1.tolist()))
    if np.any((np.abs(s1) < band1) | (np.abs(s1 - 1) < band1)):
        labels.add('after_on_face')

    # --- all true nearest-image distances unchanged (pair by pair; atoms keep their rows, checked above through the tags)
    if n >= 2:
        ni0, ni1 = NearestImage(Vb, pbc), NearestImage(V1, pbc)
        # positions error: relative coordinates are carried with error eps*cond*smax, times the cell size
        tol_d = (reltol * vmax * 3) + _TS * 1e-13 * cond * (smax * vmax * 3 + omax)
        for i in range(n):
            for j in range(i + 1, n):
                r0 = ni0.search(x[j] - x[i])
                r1 = ni1.search(x1[j] - x1[i])
                require(abs(r0['L'] - r1['L']) <= tol_d,
                        lambda: 'nearest-image distance of atoms %d,%d changed %.12g -> %.12g (tol %.3g)%s; relative before %r %r after %r %r'
                        % (i, j, r0['L'], r1['L'], tol_d, ' (left-handed input)' if lh else '', s0[i].tolist(), s0[j].tolist(), s1[i].tolist(), s1[j].tolist()))
                # moved only by a rotation and lattice vectors: the separation vector is the rotated old one up to a
                # lattice vector of the new cell (a common translation of all atoms is allowed)
                if Tuse is not None:
                    dv = (x1[j] - x1[i]) - Tuse @ (x[j] - x[i])
                    m = rel_coords(dv[None, :], V1, np.zeros(3))[0]
                    em = float(np.abs(m - np.rint(m)).max())
                    tol_m = float((inside_band(V1, np.zeros(3), smax, 0.0) + _TS * 1e-13 * cond * (smax + omax / vmax) + 3 * (reltol + _TS * 200 * EPS * cond ** 2) * smax * cond).max())
                    require(em <= tol_m, lambda: 'separation of atoms %d,%d is not the rotated old separation plus a lattice vector: residual %r cell vectors (tol %.3g)' % (i, j, m.tolist(), tol_m))
        labels.add('pairs')
    if out_before:
        labels.add('outside_before')
    if case['nprops']:
        labels.add('props')
    if bool(np.any((s == 0.0) | (s == 1.0))):
        labels.add('onface')
    if out_before and (labels & {'tilted', 'lefthanded', 'rotated', 'sym', 'lowertri_negdiag'}):
        labels.add('nt')
    return labels


CLAUSES = [
    Clause('wrap', oracle_wrap, wrap_cases, quick=5500, thorough=150000,
           min_share={'scaled': 0.22, 'scale_1': 0.23, 'scale_si': 0.08, 'scale_small': 0.12, 'scale_large': 0.09,
                      'nt': 0.35, 'lefthanded': 0.2, 'tilted': 0.3, 'mixed_pbc': 0.3, 'pbc3': 0.12, 'pbc0': 0.04, 'grew': 0.25,
                      'wrapped': 0.3, 'multi_image': 0.25, 'far': 0.04, 'props': 0.3, 'flags_returned': 0.35, 'onface': 0.4,
                      'hist': 0.25, 'pbc_changed': 0.12, 'pbc_inplace': 0.07, 'inplace_toggled_out': 0.05, 'pbc_elem': 0.1,
                      'pbc_setter': 0.08, 'forms': 0.35, 'pbc_form': 0.28, 'box_form': 0.2, 'pos_scaled_ctor': 0.06,
                      'pos_list': 0.05, 'hist_rebuild': 0.05, 'hist_read': 0.06, 'hist_box_set': 0.025, 'hist_pos_edit': 0.03,
                      'prior_wrap': 0.03, 'prior_scaled_read': 0.07,
                      'sym': 0.16, 'sym_diag': 0.11, 'sym_perm': 0.05, 'lowertri_negdiag': 0.09, 'hist_box_reversed': 0.018,
                      'pos_int': 0.08, 'pos_int_not64': 0.05, 'pos_int_narrow': 0.025, 'pos_int_unsigned': 0.02, 'pos_int_bool': 0.008},
           desc='wrap: moves = imageflags.vects on periodic axes only, periodic vectors unchanged, cell only grows, all atoms inside, properties untouched; after any history, every input form, every length unit'),
    Clause('wrap_exact', oracle_wrap_exact, wrap_exact_cases, quick=2400, thorough=50000,
           min_share={'scaled': 0.22, 'scale_1': 0.23, 'scale_si': 0.08, 'scale_small': 0.12, 'scale_large': 0.09,
                      'exact': 0.5, 'nt': 0.35, 'onface': 0.4, 'far': 0.3, 'pbc3': 0.1, 'mixed_pbc': 0.3,
                      'sym': 0.15, 'sym_diag': 0.09, 'sym_perm': 0.06, 'lowertri_negdiag': 0.07,
                      'hist': 0.25, 'pbc_changed': 0.15, 'pbc_inplace': 0.08, 'inplace_toggled_out': 0.07, 'forms': 0.35,
                      'pos_int': 0.08, 'pos_int_not64': 0.05, 'pos_int_narrow': 0.025, 'pos_int_unsigned': 0.02, 'pos_int_bool': 0.008, 'pos_float32': 0.02},
           desc='wrap on exactly representable inputs (atoms exactly on faces, far outside): zero tolerance, zero band on periodic axes; after exactness-preserving histories'),
    Clause('normalize', oracle_normalize, normalize_cases, quick=4000, thorough=100000,
           min_share={'scaled': 0.22, 'scale_1': 0.23, 'scale_si': 0.07, 'scale_small': 0.12, 'scale_large': 0.09,
                      'nt': 0.35, 'lefthanded': 0.2, 'rotated': 0.2, 'tilted': 0.3, 'pairs': 0.35, 'transform_returned': 0.3,
                      'via_function': 0.12, 'far': 0.04, 'props': 0.3,
                      'hist': 0.35, 'pbc_changed': 0.3, 'pbc_inplace': 0.2, 'inplace_toggled_out': 0.15, 'forms': 0.35,
                      'hist_box_set': 0.03, 'hist_pos_edit': 0.03, 'hist_rebuild': 0.05,
                      'sym': 0.16, 'sym_diag': 0.11, 'sym_perm': 0.05, 'lowertri_negdiag': 0.09, 'lammps_form_input': 0.2,
                      'hist_box_reversed': 0.02,
                      'pos_int': 0.08, 'pos_int_not64': 0.05, 'pos_int_narrow': 0.025, 'pos_int_unsigned': 0.02, 'pos_int_bool': 0.008},
           max_share={'illcond_skipped': 0.05},
           desc='normalize: input untouched, new right-handed LAMMPS cell with same lengths/angles/volume, proper rotation maps old vectors to new, atoms inside, nearest-image distances unchanged; after any history ending fully periodic, every input form, every length unit'),
]
