"""C05 - Wrapping and normalising move atoms only by lattice vectors or a rotation.

Clauses
  wrap        System.wrap(return_imageflags) on generic cells (left-handed, rotated, strongly tilted, any origin),
              all 8 pbc settings, atoms far outside / exactly on faces, extra per-atom properties.
  wrap_exact  the same statement on exactly representable inputs (power-of-two cell lengths, dyadic tilts, origin and
              relative coordinates): every number atomman computes is exact, so the faces themselves are tested with a
              zero band.
  normalize   System.normalize / atomman.lammps.normalize on fully periodic systems.

Every clause judges the call after a HISTORY on the same object / in the same process (see "histories and input
forms" below): the periodicity may have been set through the constructor, the setter, element-wise in place
(system.pbc[i] = ..., as atomman's tutorial and its own defect generators do), through an aliased bool ndarray or a
system sharing the array; the cell and the positions may have been edited through every public route, the system
rebuilt / copied / reloaded, derived quantities read, other systems wrapped before.  Inputs come in every documented
form (lists, tuples, integer-typed, non-contiguous, read-only cell arrays, relative positions with scale=True).

Every clause carries an overall LENGTH SCALE (the property holds whatever the length unit; atomman's working units can be
SI, a lattice parameter is then 4e-10): cell vectors, origin, positions and far-atom offsets are multiplied by 10^k
(k = -12..6, metres favoured; 2^k in wrap_exact so that the arithmetic stays exact), exactly 1 in about half of the cases;
see "overall length scale" below.  All tolerances are relative to the size of the cell.

Generator classes carried over from the other properties (cross-pollination round): what happens AFTER the judged call (result
ledger: everything handed out is re-judged bit for bit after later calls on other objects and on the same one, repetitions give the
first answer; caller side: the caller overwrites what it was handed out and what it handed in, re-defines cell and positions through
the setters, uses the objects again), cell vectors / origin handed over as float32 / float16 / integer arrays (exactly representable
values) and 0/1 periodicity as int8 / uint8, near-threshold values (coordinates 1e-12 .. 1e-3 from a face, tilts / rotations / length
differences 1e-12 .. 1e-3 from the orthogonal / LAMMPS / tetragonal special case; the documented 1e-9 floor of Box.vects is modelled),
rows spanning 8+ decades in one call (every row judged against its own size and against the row wrapped alone), and two ENUMERATED
clauses over every ordered combination of earlier call / change in between / earlier call / options of the judged call.

Oracles are numpy only (own solve for relative coordinates, own lattice parameters, pbt.oracles.nearest_image for the
true nearest-image distances); nothing here calls Box.inside, Box.a/alpha/..., dvect or dmag.
"""
import functools
import math

import numpy as np
from hypothesis import strategies as st

from ..core import Clause, HarnessError, Violation, require
from .. import gens
from ..oracles.nearest_image import NearestImage

RULE = ("cells in LAMMPS triangular form (lengths 0.5-50, tilts up to 1.5 lengths, crystal families; one case in four "
        "strongly tilted: lengths 1-30, tilts up to 4 lengths), half of them with the third vector reversed (left-handed), "
        "optionally rigidly rotated and with a non-zero origin; 3 cells in 8 are EXACT SYMMETRY IMAGES of the LAMMPS form (zeros survive): "
        "2 in 8 turned by exactly 180 degrees about x / y / z or mirrored, with a, b, c reversed individually / in pairs / all (lower "
        "triangular with any sign pattern on the diagonal, e.g. right-handed with two negative diagonal entries), 1 in 8 under any of "
        "the 48 signed axis permutations (exact 90 / 120 / 180 degree rotations, mirrors) with the cell vectors renamed and reversed; "
        "all 8 pbc settings (wrap) / fully periodic (normalize); "
        "1-12 atoms at relative coordinates mixing generic values in [-6,7], values in [0,1], exact integers and "
        "half-integers (faces) and a few values up to +-1e5 cells away; 0-3 extra per-atom properties.  wrap_exact: "
        "power-of-two lengths, dyadic tilts/origin/coordinates, decided exactly.  Non-trivial: at least one atom "
        "outside the cell before the call AND (cell tilted or left-handed or pbc mixed; for normalize: tilted or "
        "left-handed or rotated).  Every case also carries a HISTORY applied to the object before the judged call (none in "
        "about a quarter of the cases; else 1-4 operations: periodicity changed through the setter in five input forms, "
        "element-wise in place (system.pbc[i] = ...), by slice, through the aliased bool ndarray handed in or through a "
        "system sharing the array; scaled read; earlier wrap; box_set(vects= | avect=.., scale=True/False; half of them also reversing cell vectors); position edits "
        "in place / by setter / through atoms_prop(scale=True); rebuild from the same parts, safecopy, deepcopy, "
        "atoms_ix[:], data-model round trip; reads of dvect/dmag/atoms_df/str/box parameters/normalize; a wrap of another "
        "system in the process) and INPUT FORMS (positions as float array, nested list, Fortran-ordered, strided view, "
        "whole numbers as integer array of every integer-like dtype (int8..int64, uint8..uint64, bool for 0/1 coordinates, "
        "big-endian int32; values folded into the range of the dtype) / list of Python ints, float32 where exactly representable "
        "(wrap_exact only), relative positions with System(scale=True); cell as array, "
        "list, tuple, Fortran-ordered, read-only, avect/bvect/cvect; pbc as list, tuple, bool ndarray, ints, numpy bools, "
        "strided, read-only; safecopy).  The judged state (cell, origin, positions, pbc) is read back from the system "
        "after the history; 'pbc' of a case is the periodicity at the judged call, 'pbc0' the one given to the constructor.  "
        "LENGTH SCALE: the whole geometric input of a case (cell vectors, origin, positions incl. far-atom offsets, the other "
        "system wrapped in a history) is multiplied by 10^k, k in {-12,-10 (favoured: metres),-9,-8,-5,-3,-1,1,3,6}, in wrap_exact "
        "by 2^k, k in {-40,-33 (favoured),-30,-27,-17,-10,-3,3,10,20}; exactly 1 in about half of the cases; integer-typed "
        "(whole-number) positions get the reciprocal scale when it is below 1.  "
        "AFTER the judged call (half of the cases, 1-3 operations): a wrap / normalize of another system (other or the same number of atoms), "
        "the judged call repeated on the same input, the caller overwriting in place what it was handed out (image flags, transform, the "
        "normalised system and its periodicity, arrays from the getters) and the arrays it had handed to Box (and to Atoms when built with "
        "safecopy=True; also right after construction in 1 case of 8), cell / positions re-set through their setters and the object used again; "
        "every array handed out is compared with its value at return time, bit for bit, at the end.  STORAGE: cell vectors and origin also as "
        "float32 / float16 / integer arrays (the cell of the case is the rounded one), periodicity also as int8 / uint8 arrays.  NEAR-THRESHOLD "
        "(1 case in 6 each): relative coordinates k +- m*10^-e, e = 3..12 (k +- 2^-e, e = 10..30 in wrap_exact); cells with tilts "
        "+-10^e lengths, e = -12..-3, rigid rotations by 10^e degrees, e = -10..-1, cell lengths differing by 10^e relative.  DECADES (1 case in 8): "
        "every row of the positions has its own magnitude 10^k, k = -9..5, the first two 8 or more decades apart.  Clauses wrap_enum / normalize_enum "
        "enumerate: periodicity at construction x changed or not (in place; also by setter in the thorough tier) x [earlier call: none, wrap with / "
        "without flags, normalize method / function with transform, wrap of another system] before and after [nothing / an atom moved in place / the "
        "cell shifted] x the options of the judged call (return_imageflags; method / style keyword / positional / function x return_transform), "
        "each followed by a repetition")
ASSUMPTIONS = ["numpy linear algebra (solve, inv, det) is correct",
               "pbt.oracles.nearest_image (exhaustive search with proven radius) gives the true nearest-image distance",
               "normalize is judged only on cells with cond(vects) <= 1e3 (its hard-coded orthonormality asserts and "
               "the lattice-parameter rebuild presume a conditioned cell); worse cells are counted as illcond_skipped",
               "Box.vects zeroing components below 1e-9*max|vects| is a documented floor: comparisons of cell vectors "
               "are never tighter than 1e-8 relative and the inside band includes its effect",
               "'inside' is inclusive of the faces (the property text does not say half-open)",
               "system.pbc[i] = value is a supported way to change the periodicity (System.pbc returns the array it uses; "
               "atomman's tutorial 1.3 and its FreeSurface/Boundary/Dislocation generators do exactly this): whatever "
               "system.pbc reports at the time of the call is the periodicity wrap/normalize have to honour",
               "float32 / float16 position arrays keep that storage precision in Atoms (the caller's choice of accuracy): generated "
               "only where no rounding can occur (float32 in wrap_exact)",
               "a read-only positions array is the caller's restriction (Atoms keeps the array it is given, wrap writes "
               "in place): not generated",
               "normalize as an earlier operation in a history is only called inside the domain the property states "
               "(fully periodic, cond <= 1e3)",
               "Atoms (default safecopy=False) may keep the arrays it is given (documented: 'may result in the Atoms' property pointing to the "
               "original numpy array'): the caller's position / type / property arrays count as its own only for systems built with safecopy=True; "
               "Box copies vects / origin into its own storage",
               "the floor of Box.vects also acts on the cell normalize rebuilds: a tilt of the rebuilt LAMMPS form below 1e-9 of its largest "
               "component may be zeroed; lengths, angles, the transform and the pair distances are allowed to differ by what that explains "
               "(floor_loss: zero unless the cell is next to that threshold)",
               "a repetition of a call on bit-identical input (a deep copy taken before a wrap; the untouched argument of normalize) gives a "
               "bit-identical result (deterministic floating-point arithmetic in one process)",
               "System.wrap's padding of a non-periodic direction (0.001) is in relative coordinates, i.e. relative to the cell: "
               "nothing is asserted about its size, only that the old cell and every atom are inside the new one"]
LEVEL_TEXT = ("Random exploration of System.wrap over right/left-handed, rotated and strongly tilted cells with every "
              "periodicity setting and atoms up to 1e5 cells outside or exactly on faces (faces decided exactly on dyadic "
              "inputs), cells that are exact symmetry images of the LAMMPS form (exact 180 / 90 degree turns, mirrors, reversed and renamed "
              "vectors: lower triangular with negative diagonal entries; LAMMPS compatibility of the result judged on its vectors), and of System.normalize / lammps.normalize over fully periodic systems with cond <= 1e3; each after a random "
              "history on the same object / in the same process (periodicity changed by setter, element-wise in place or through "
              "an aliased array; cell and position edits; rebuilds, copies, reloads; reads; earlier wraps) and over the documented "
              "input forms (lists, tuples, integer-typed in every integer-like dtype incl. unsigned and bool, non-contiguous, read-only cell, scale=True); "
              "what the caller does AFTER the call (later calls on other / the same object, repetitions, in-place overwriting of everything handed out and handed in: results kept in a ledger and re-judged bit for bit); "
              "cell given as float32 / float16 / integer arrays; coordinates 1e-12..1e-3 from a face and cells 1e-12..1e-3 from the orthogonal / LAMMPS-form / equal-length special cases; rows spanning 8+ decades judged row by row; "
              "every ordered combination of earlier call, change in between, earlier call and call options enumerated; "
              "every clause in length units from 1e-12 to 1e+6 (cells in metres, nm, Bohr, ...; powers of two in the exact clause), tolerances relative to the cell.")
TECHNIQUE = ("independent relative-coordinate solve with derived bands, exact dyadic arithmetic on faces, "
             "exhaustive nearest-image search for pair distances, deep snapshot comparison, result ledger, enumerated option combinations")
WALL = {'quick': 60, 'thorough': 600}

EPS = 2.220446049250313e-16
_TS = 1.0      # tolerance multiplier; 1.0 always, changed only by the calibration script in development


# ----------------------------------------------------------------------------- independent helpers

def my_params(V):
    """a,b,c,alpha,beta,gamma (degrees) of the row-vector matrix V; angles by atan2(|cross|, dot)"""
    a, b, c = (float(np.linalg.norm(V[i])) for i in range(3))

    def ang(u, v):
        return math.degrees(math.atan2(float(np.linalg.norm(np.cross(u, v))), float(np.dot(u, v))))
    return a, b, c, ang(V[1], V[2]), ang(V[0], V[2]), ang(V[0], V[1])


def rel_coords(x, V, o):
    """relative coordinates of Cartesian points x (N,3) in the cell (rows of V, origin o): own solve"""
    return np.linalg.solve(V.T, (x - o).T).T


def inside_band(V, o, smax, xmax):
    """per-axis band (3,) around the faces inside which 'inside / outside' is not decided.

    s_k = (x - o) . inv(V)[:, k].  Sources of disagreement between atomman's arithmetic and mine:
      * Box.vects zeroes components below 1e-9*max|V| (documented floor): |dV_ij| <= 1e-9 vmax, hence
        |ds_k| <= sum_ij |s_i| |dV_ij| |inv(V)_jk| <= 3e-9 smax vmax ninv_k          (ninv_k = 1-norm of column k of inv V)
      * rounding of x - o and of the products: a few eps (|x| + |o|) ninv_k, and of inv(V) itself: eps cond smax.
    Constants: 3e-9 for the floor (1e-9 times 3 rows), 1e-13 = 450 eps for the rounding terms."""
    inv = np.linalg.inv(V)
    ninv = np.abs(inv).sum(axis=0)
    vmax = float(np.abs(V).max())
    cond = float(np.linalg.cond(V))
    return _TS * ((3e-9 * vmax * max(1.0, smax) + 1e-13 * (float(np.abs(o).max()) + xmax)) * ninv + 1e-13 * cond * max(1.0, smax))


def prop_values(n, nprops):
    """deterministic extra per-atom properties (distinct per row so that a row permutation is visible)"""
    out = {}
    if nprops >= 1:
        out['charge'] = np.array([0.125 * (i + 1) - 0.7 for i in range(n)], dtype=float)
    if nprops >= 2:
        out['tag'] = np.array([100 + 7 * i for i in range(n)], dtype=int)
    if nprops >= 3:
        out['vec'] = np.array([[i + 0.5, -2.0 * i, 0.25 * i * i] for i in range(n)], dtype=float)
    return out


def atypes(n):
    return np.array([1 + (i * i + i // 2) % 3 for i in range(n)], dtype=int)


# ----------------------------------------------------------------------------- overall length scale
#
# The property holds whatever the length unit: every length of a case (cell vectors, origin and - through the relative
# coordinates the atoms are generated in - positions and far-atom offsets; the cell / position edits of a history are
# relative too) is multiplied by cell['scale'] = L.  Clauses wrap / normalize: L = 10^k, k in -12..6 (k = -10, a cell in
# metres, favoured); clause wrap_exact: L = 2^k (k in -40..20), which keeps every number atomman computes exact.  L is exactly
# 1 (no 'scale' key: the cases of earlier rounds) in about half of the cases.  What the unchanged code does with a length:
# Box.vects floor 1e-9 * max|vects| (relative); wrap pads non-periodic directions by 0.001 in RELATIVE coordinates
# (mins/maxs are "box dimensions relative to box vectors, i.e 0 to 1"): a relative margin, nothing asserted about its size;
# normalize's asserts act on the dimensionless transformation matrix.  Nothing on this path is an absolute length.
# All tolerances below are relative to the size of the cell (vmax, omax, xmax carry L; inside_band is dimensionless).
# NOT carried over: switching atomman.unitconvert.reset_units(...) between calls.  Nothing on the path of wrap / normalize / box_set
# converts a unit, has a default or tolerance in working units or caches anything derived from one (uc appears in Box / Atoms / System
# only in model(), whose round trip in a history is re-read before the judged call): the part of that class that applies is the
# physical system re-expressed in another length unit, which is the length scale above (metres = the SI configuration).

def case_scale(case):
    return float(case['cell'].get('scale', 1.0))


def scale_labels(L, labels):
    if L != 1.0:
        labels.add('scaled')
        if L <= 1e-9:
            labels.add('scale_si')          # a cell given in metres (or smaller)
        if L < 1.0:
            labels.add('scale_small')
        else:
            labels.add('scale_large')
    else:
        labels.add('scale_1')


# ----------------------------------------------------------------------------- exact symmetry images of the LAMMPS form
#
# A generic rotation fills the whole matrix with non-zero numbers.  The cells that matter for "is the result LAMMPS compatible"
# are the ones that ALMOST are: the LAMMPS triangular form acted on by an operation that maps coordinate axes onto coordinate
# axes exactly, so that exact zeros survive.  cell['sym'] = {'m': i, 'p': j, 's': k} applies, after everything gens.cell_vects
# does (third vector reversed, generic rotation, length scale), exactly (products with 0 / +-1 only):
#   m  one of the 48 signed permutation matrices M acting on the Cartesian axes, vects -> vects . M^T: the 24 proper ones are
#      the rotations by exactly 90 / 180 degrees about x, y, z and the 120 degree axis permutations, the other 24 mirrors /
#      the inversion; numbers 0..7 are the diagonal ones (0 the identity; 180 degrees about x, y, z and the mirrors): they
#      keep the zeros above the diagonal
#   p  one of the 6 permutations of the cell vectors (rows): swaps and cyclic renamings of a, b, c
#   s  one of the 8 sign patterns of the rows: a, b, c reversed individually, in pairs, all three
# With m < 8 and p = 0 the result is lower triangular with any sign pattern on its diagonal: avect on the x axis and bvect in the
# xy plane, but pointing the "wrong" way - right-handed cells with two negative diagonal entries among them.  Whether the
# normalised cell is LAMMPS compatible is judged on its VECTORS (zeros above the diagonal, lx, ly, lz > 0, right-handed), never
# through Box.is_lammps_norm().  The unchanged code was run over all 48 x 6 x 8 images of triclinic and orthorhombic cells
# before anything was asserted: all pass.

SIGNS8 = [(a, b, c) for a in (1.0, -1.0) for b in (1.0, -1.0) for c in (1.0, -1.0)]
PERMS6 = [(0, 1, 2), (1, 0, 2), (0, 2, 1), (2, 1, 0), (1, 2, 0), (2, 0, 1)]
_PERM_ODD = [False, True, True, True, False, False]


def _signed_perms():
    out = []
    for p in PERMS6:                      # identity permutation first: numbers 0..7 are diagonal
        for sg in SIGNS8:
            M = np.zeros((3, 3))
            for i in range(3):
                M[i, p[i]] = sg[i]
            out.append(M)
    return out


SIGNED_PERMS = _signed_perms()


def cell_vects5(c):
    """gens.cell_vects followed by the exact symmetry operation c['sym'] (see above)"""
    V = gens.cell_vects(c)
    sym = c.get('sym')
    if sym:
        V = V @ SIGNED_PERMS[int(sym['m']) % 48].T
        V = V[list(PERMS6[int(sym['p']) % 6])]
        V = V * np.array(SIGNS8[int(sym['s']) % 8])[:, None]
        V = V + 0.0                       # no negative zeros
    return V


def cell_lefthanded(c):
    """handedness of the generated cell from the parities of its parts (not from a determinant)"""
    lh = bool(c.get('lefthanded'))
    sym = c.get('sym')
    if sym:
        m, p, k = int(sym['m']) % 48, int(sym['p']) % 6, int(sym['s']) % 8
        for sg in (SIGNS8[m % 8], SIGNS8[k]):
            if sg[0] * sg[1] * sg[2] < 0:
                lh = not lh
        if _PERM_ODD[m // 8]:
            lh = not lh
        if _PERM_ODD[p]:
            lh = not lh
    return lh


def cell_labels5(c):
    labs = gens.cell_labels(c)
    vm = max(abs(c[k]) for k in ('lx', 'ly', 'lz', 'xy', 'xz', 'yz'))
    r = [abs(c[k]) / vm for k in ('xy', 'xz', 'yz')]
    if any(1e-13 < v <= 2e-3 for v in r):          # (not the 1e-17 a family cell carries where its angle is 90 degrees)
        labs.add('tiny_tilt')                     # a tilt 1e-12 .. 2e-3 of the cell size: almost orthogonal / almost no tilt
        if any(1e-13 < v <= 1e-9 for v in r):
            labs.add('tiny_tilt_floored')         # below the documented floor of Box.vects (zeroed; modelled by reading the cell back)
        if any(1e-9 < v <= 1e-5 for v in r):
            labs.add('tiny_tilt_1e-9_1e-5')
    if c.get('rot') and abs(c['rot'][1]) <= 0.2:
        labs.add('tiny_rot')                      # turned by 1e-10 .. 0.1 degrees: almost in LAMMPS form
    ls = (c['lx'], c['ly'], c['lz'])
    if any(0 < abs(ls[i] - ls[j]) <= 2e-3 * ls[i] for i in range(3) for j in range(i)):
        labs.add('near_equal_len')
    if labs & {'tiny_tilt', 'tiny_rot', 'near_equal_len'}:
        labs.add('near_cell')
    labs.discard('lefthanded')
    if cell_lefthanded(c):
        labs.add('lefthanded')
    sym = c.get('sym')
    if sym:
        m, p, k = int(sym['m']) % 48, int(sym['p']) % 6, int(sym['s']) % 8
        if m or p or k:
            labs.add('sym')
            labs.add('sym_diag' if (m < 8 and p == 0) else 'sym_perm')
            if c.get('rot'):
                labs.add('sym_rot')
    return labs


def shape_labels(V, labels):
    """what the cell handed to the judged call looks like (V: right-handed, i.e. third vector already reversed if need be)"""
    if V[0, 1] == 0.0 and V[0, 2] == 0.0 and V[1, 2] == 0.0:
        labels.add('lowertri')
        if V[0, 0] < 0 or V[1, 1] < 0 or V[2, 2] < 0:
            labels.add('lowertri_negdiag')    # avect on the x axis, bvect in the xy plane, but not LAMMPS compatible
        else:
            labels.add('lammps_form_input')


# key of the finding (fixed in /repo by 2a7c2bf; kept so that a recurrence - for any integer-like dtype - is reported as an
# ordinary VIOLATION): positions handed over as whole numbers (integer ndarray or nested list of Python ints) are
# stored by Atoms with an integer dtype; everything that writes positions back (wrap, box_set(scale=True) and with it
# normalize) is then cast to integers silently
KEY_INTPOS = 'C05:pos-integer-typed:truncated-on-write'

# OPEN finding (near-threshold cells): normalize rebuilds the cell from a, b, c, alpha, beta, gamma; a tilt of the rebuilt (LAMMPS) form
# that comes out below the floor of Box.vects (1e-9 of the largest component, documented) is zeroed, the least-squares "rotation"
# between old and rebuilt vectors is then off orthonormal by tilt / length, and normalize's own hard-coded asserts (np.isclose, absolute
# 1e-8) refuse the cell with an empty AssertionError - for a cell that is well conditioned and nowhere near the floor itself, e.g.
# vects = [[1.9, 1e-7, 0], [0, 0.5, 0], [-1.9, 0, 32.792]] (gamma 5e-8 rad off 90 degrees, rebuilt xy = 0.5 * 5e-8 < 1e-9 * 32.8).
# Needs an elongated cell (shortest length below a tenth of the largest component) with an angle 1e-8 .. 1e-9 * vmax / length off 90.
KEY_FLOOR = 'C05:normalize-assert:rebuilt-tilt-below-box-floor'


def floor_loss(Vrh):
    """What the documented floor of Box.vects takes away when the right-handed cell Vrh (rows) is rebuilt in LAMMPS form:
    -> (dfl, afl): dfl = sum of the |tilts| of the ideal rebuilt cell (own derivation) that are not above 1.1e-9 of its largest component
    (they may be zeroed), a length; afl = dfl * |inv(Vrh)| (largest absolute column sum), the same as a strain / angle: by that much
    the rebuilt cell may differ from a rigid rotation of the old one.  For a cell without such tilts both are 0 or rounding-sized."""
    a, b, c, al, be, ga = my_params(Vrh)
    ca, cb, cg = (math.cos(math.radians(t)) for t in (al, be, ga))
    sg = math.sin(math.radians(ga))
    tilts = (b * cg, c * cb, c * (ca - cb * cg) / sg)
    vm = max(a, b, c)
    dfl = sum(abs(t) for t in tilts if abs(t) <= 1.1e-9 * vm)
    return dfl, dfl * float(np.abs(np.linalg.inv(Vrh)).sum(axis=0).max())


def guarded_normalize(system, call):
    """call() (a normalize of `system` in one of its spellings); the AssertionError of the open finding KEY_FLOOR is keyed"""
    try:
        return call()
    except AssertionError as e:
        Vh = np.array(system.box.vects, dtype=float)
        if np.linalg.det(Vh) < 0:
            Vh[2] = -Vh[2]
        dfl, afl = floor_loss(Vh)
        if afl >= 4e-9:
            raise Violation('normalize refuses a well-conditioned cell with AssertionError(%r): a tilt of the rebuilt cell (%.3g, a strain of %.3g) '
                            'is below the 1e-9 floor of Box.vects, its own orthonormality asserts (absolute 1e-8) do not allow for that; cell %r'
                            % (str(e), dfl, afl, Vh.tolist()), key=KEY_FLOOR)
        raise


_DEFAULT_FORMS = {'pos': 'float', 'box': 'array', 'pbc': 'list', 'scaled': False, 'safecopy': False}


# Integer-like dtypes in which whole-number positions are handed over (forms['idt'] indexes this list; cases written before
# the list existed have no 'idt' and mean int64).  Positions are "list/ndarray": every one of these is a legal way of giving
# whole-number coordinates (32-bit grid indices, np.indices(..).astype('int16'), unsigned pixel/voxel coordinates, a 0/1
# occupation pattern as bool, an integer array read from a big-endian binary file).  The unchanged code converts all of them
# to float64 storage (checked for every entry: Atoms(pos=<dtype>).view['pos'].dtype == float64, later writes not truncated).
INT_DTYPES = ['int64', 'int32', 'int16', 'int8', 'uint8', 'uint16', 'uint32', 'uint64', 'bool', '>i4']
# NOT generated: float16 and, outside clause wrap_exact, float32 positions.  Atoms keeps a float array with the precision it is
# given, so every position written back by wrap / box_set(scale=True) / normalize is rounded to 2^-24 (float32) or 2^-11
# (float16) relative: reduced accuracy is what the caller asked for by choosing that storage, and the tolerances derived here
# (float64 arithmetic) do not apply.  Where rounding cannot occur - clause wrap_exact, dyadic numbers that are exactly
# representable in float32 before and after the call - float32 positions ARE generated (form 'float32') and judged with zero
# tolerance like float64 ones; float16 (11 bits) cannot hold those numbers.


def _fit_int(x, idt):
    """whole-number coordinates x (float array) folded into the range of integer dtype number idt, and the dtype.
    Folding keeps whole numbers whole and their signs (fmod), so every dtype of the list gets the same share of cases:
    8-bit |x| < 128, 16-bit |x| < 2^15, 32-bit |x| < 2^31; unsigned: |x|; bool: coordinates 0 / 1."""
    dt = np.dtype(INT_DTYPES[int(idt) % len(INT_DTYPES)])
    if dt.kind == 'b':
        return np.abs(np.fmod(x, 2.0)), dt
    bits = 8 * dt.itemsize - 1
    if bits < 63:
        x = np.fmod(x, float(2 ** bits))
    if dt.kind == 'u':
        x = np.abs(x)
    return x + 0.0, dt          # + 0.0: no negative zeros


def _form_pos(x, form, idt=0):
    """the (n,3) float array x in one of the documented input forms ("list/ndarray")"""
    if form == 'float':
        return x.copy()
    if form == 'list':
        return x.tolist()
    if form == 'fortran':
        return np.array(x, order='F', copy=True)
    if form == 'strided':
        big = np.zeros((x.shape[0], 6), dtype=float)
        big[:, ::2] = x
        return big[:, ::2]
    if form == 'int_array':
        out = x.astype(np.dtype(INT_DTYPES[int(idt) % len(INT_DTYPES)]))
        if not np.array_equal(out.astype(float), x):
            raise HarnessError('whole-number positions do not fit dtype %s' % out.dtype)
        return out
    if form == 'int_list':
        return [[int(v) for v in row] for row in x]
    if form == 'float32':
        out = x.astype(np.float32)
        if not np.array_equal(out.astype(float), x):
            raise HarnessError('positions are not representable in float32')
        return out
    # NOT generated: a read-only positions array.  Atoms(pos=array) keeps the array it is given (documented:
    # "direct setting may result in the Atoms' property pointing to the original numpy array") and wrap writes the
    # positions in place, so numpy's "assignment destination is read-only" is the caller's own restriction.
    raise HarnessError('pos form %r' % (form,))


# Cell vectors and origin in another STORAGE dtype (forms['box'] = 'f32' | 'f16' | 'int'): a cell read from a single-precision
# binary file, half-precision ML data, whole-number vectors as an integer array (dtype forms['idt'] of INT_DTYPES).  The cell of
# such a case IS the rounded one (_box_in_dtype: every number handed over is exactly representable in that dtype), so nothing is
# lost in the hand-over and Box (documented: array-like, stored as float64) must behave exactly as for the float64 array of the
# same values.  Where rounding would degrade the cell (a zero row, overflow / underflow at the case's length scale, handedness
# changed, conditioning worse than 4x / above 1e3) the case falls back to the float64 array.
BOX_DTYPE_FORMS = ('f32', 'f16', 'int')


def _box_in_dtype(V, o, form, idt):
    """-> (V', o', dtype) with V', o' float64 arrays exactly representable in dtype, or None (fall back to float64)"""
    if form == 'int':
        dt = np.dtype(INT_DTYPES[int(idt) % len(INT_DTYPES)])
        if dt.kind == 'b':
            dt = np.dtype('int16')
        Vr, orr = np.rint(V) + 0.0, np.rint(o) + 0.0
        with np.errstate(all='ignore'):
            if not (np.array_equal(Vr.astype(dt).astype(float), Vr) and np.array_equal(orr.astype(dt).astype(float), orr)):
                dt = np.dtype('int64')
                if not (np.abs(Vr).max() < 2.0 ** 62 and np.abs(orr).max() < 2.0 ** 62):
                    return None
    else:
        dt = np.dtype(np.float32 if form == 'f32' else np.float16)
        with np.errstate(all='ignore'):
            Vr, orr = V.astype(dt).astype(float) + 0.0, o.astype(dt).astype(float) + 0.0
    if not (np.all(np.isfinite(Vr)) and np.all(np.isfinite(orr)) and np.all(np.abs(Vr).max(axis=1) > 0)):
        return None
    d0, d1 = float(np.linalg.det(V)), float(np.linalg.det(Vr))
    if not (d1 != 0.0 and (d0 > 0) == (d1 > 0)):
        return None
    c1 = float(np.linalg.cond(Vr))
    if not (c1 <= 1e3 and c1 <= 4 * float(np.linalg.cond(V))):
        return None
    if float(np.abs(Vr - V).max()) > 0.5 * float(np.abs(V).max()):
        return None
    return Vr, orr, dt


def _form_box(am, V, o, form, keep=None, dt=None):
    """keep: list collecting the writeable ndarrays handed to atomman (the caller's arrays, see "caller side")"""
    def kept(a):
        if keep is not None and isinstance(a, np.ndarray) and a.flags.writeable:
            keep.append(a)
        return a
    if form == 'array':
        return am.Box(vects=kept(V.copy()), origin=kept(o.copy()))
    if form in BOX_DTYPE_FORMS:
        Vd, od = V.astype(dt), o.astype(dt)
        if not (np.array_equal(Vd.astype(float), V) and np.array_equal(od.astype(float), o)):
            raise HarnessError('cell not representable in %s' % dt)
        return am.Box(vects=kept(Vd), origin=kept(od))
    if form == 'list':
        return am.Box(vects=V.tolist(), origin=o.tolist())
    if form == 'tuple':
        return am.Box(vects=tuple(tuple(r) for r in V.tolist()), origin=tuple(o.tolist()))
    if form == 'fortran':
        return am.Box(vects=kept(np.array(V, order='F', copy=True)), origin=kept(o.copy()))
    if form == 'readonly':
        Vr, orr = V.copy(), o.copy()
        Vr.flags.writeable = False
        orr.flags.writeable = False
        return am.Box(vects=Vr, origin=orr)
    if form == 'avects':
        return am.Box(avect=kept(V[0].copy()), bvect=V[1].tolist(), cvect=kept(V[2].copy()), origin=kept(o.copy()))
    raise HarnessError('box form %r' % (form,))


def _form_pbc(pbc, form):
    """-> (object to hand to atomman, the bool ndarray atomman may alias or None)"""
    pbc = [bool(p) for p in pbc]
    if form == 'list':
        return list(pbc), None
    if form == 'tuple':
        return tuple(pbc), None
    if form == 'ndarray':
        a = np.array(pbc, dtype=bool)
        return a, a
    if form == 'int_list':
        return [int(p) for p in pbc], None
    if form == 'int_array':
        return np.array([int(p) for p in pbc], dtype=np.int64), None
    if form in ('int8_array', 'uint8_array'):
        return np.array([int(p) for p in pbc], dtype=np.int8 if form == 'int8_array' else np.uint8), None
    if form == 'npbool':
        return [np.bool_(p) for p in pbc], None
    if form == 'strided':
        big = np.zeros(6, dtype=bool)
        big[::2] = pbc
        return big[::2], big[::2]
    if form == 'readonly':
        a = np.array(pbc, dtype=bool)
        a.flags.writeable = False
        return a, None
    raise HarnessError('pbc form %r' % (form,))


def build_system(am, case, pbc, exact=False):
    """-> system, V, o, s, x, props, ctx.   ctx: the model of the history (see apply_history)"""
    c = case['cell']
    forms = dict(_DEFAULT_FORMS, **(case.get('forms') or {}))
    V, o = cell_vects5(c), gens.cell_origin(c)
    L = case_scale(case)
    idt = int(forms.get('idt') or 0) % len(INT_DTYPES)
    bdt = None
    if forms['box'] in BOX_DTYPE_FORMS:
        r = _box_in_dtype(V, o, forms['box'], idt)
        if r is None:
            forms['box'] = 'array'
        else:
            V, o, bdt = r                 # the cell of the case is the one representable in that dtype
            forms['box_dtype'] = bdt
    s = np.array(case['rel'], dtype=float)
    x = s @ V + o
    if forms['pos'] == 'float32':
        # only where no rounding can occur (see the note at INT_DTYPES): exact clause, numbers with at most 20 significant bits
        # before the call (the call only subtracts whole cell vectors, which keeps the binary grid and shrinks the magnitude)
        # (in units of the length scale L, a power of two in the exact clause: x / L is exact)
        grid = 2.0 ** 10
        xl = x / L
        ok = (exact and not forms['scaled'] and math.frexp(L)[0] == 0.5 and 2.0 ** -80 <= L <= 2.0 ** 80
              and bool(np.all(xl * grid == np.rint(xl * grid)) and float(np.abs(xl).max()) < 2.0 ** 10))
        if not ok:
            forms['pos'] = 'float'
    if forms['pos'] in ('int_array', 'int_list'):
        # whole-number Cartesian positions (what a file with "0 0 0 / 2 2 2" coordinates or a hand-written list gives)
        x = np.rint(x)
        if forms['pos'] == 'int_array':
            x, dt = _fit_int(x, idt)
            forms['int_dtype'] = dt
        s = (x - o) @ np.linalg.inv(V) if exact else rel_coords(x, V, o)
    n = len(s)
    props = prop_values(n, case['nprops'])
    scaled = bool(forms['scaled']) and forms['pos'] not in ('int_array', 'int_list', 'float32')
    # the caller's own arrays (everything handed to atomman as a writeable ndarray): see "caller side" below
    handed_in = []
    pos_obj = _form_pos(s if scaled else x, forms['pos'], idt)
    at_obj = atypes(n)
    prop_objs = {k: v.copy() for k, v in props.items()}
    # Atoms (documented: "direct setting (False, default) may result in the Atoms' property pointing to the original numpy array")
    # may alias the arrays it is given: they count as the caller's own only when the system was built with safecopy=True
    # ("deep copies ... to avoid this"); Box always copies what it is given into its own storage
    if forms['safecopy']:
        for a in [pos_obj, at_obj] + list(prop_objs.values()):
            if isinstance(a, np.ndarray) and a.flags.writeable:
                handed_in.append(a)
    atoms = am.Atoms(atype=at_obj, pos=pos_obj, **prop_objs)
    symbols = ('Al', 'Cu', 'Ni') if case.get('symbols') else None
    kw = {} if symbols is None else {'symbols': symbols}
    if scaled:
        kw['scale'] = True
    if forms['safecopy']:
        kw['safecopy'] = True
    pbc_obj, handed = _form_pbc(pbc, forms['pbc'])
    system = am.System(atoms=atoms, box=_form_box(am, V, o, forms['box'], keep=handed_in, dt=bdt), pbc=pbc_obj, **kw)
    if scaled:
        # atomman computed the Cartesian positions itself: they are the input of everything that follows
        x_am = np.array(system.atoms.pos, dtype=float)
        tol = 1e-13 * (3 * max(1.0, float(np.abs(s).max())) * float(np.abs(V).max()) + float(np.abs(o).max()))
        # vects: the cell as Box holds it (components below 1e-9 of the largest are zero, documented; matters for near-threshold cells)
        x = s @ np.array(system.box.vects, dtype=float) + o
        require(x_am.shape == x.shape and float(np.abs(x_am - x).max()) <= tol,
                lambda: 'System(scale=True) did not place the atoms at rel . vects + origin: off by %.3g' % float(np.abs(x_am - x).max()))
        x = x_am
    ctx = {'pbc': [bool(p) for p in pbc],       # what system.pbc has to report now
           'cached': [bool(p) for p in pbc],    # the setting at the last constructor / setter call on this object
           'handed': handed,                    # bool ndarray handed to atomman that it may alias
           'changed': False,                    # cell or positions changed since construction
           'lh_flip': False,                    # the history reversed an odd number of cell vectors
           'int_stored': np.asarray(system.atoms.view['pos']).dtype.kind in 'iub',
           'pos_dtype': str(np.asarray(system.atoms.view['pos']).dtype),
           'forms': forms, 'scaled': scaled, 'L': L,
           'handed_in': [(a, np.array(a, copy=True)) for a in handed_in]}     # (the caller's array, its value at hand-over)
    return system, V, o, s, x, props, ctx


# ----------------------------------------------------------------------------- histories
#
# The property holds for a system whatever happened to it before.  A history is a list of operation dicts, interpreted
# against the real object; ctx carries the model (what system.pbc has to report).  Nothing here is judged except that
# the periodicity set through the documented routes is the one reported: the judged call comes afterwards and is judged
# on the state read back from the system (cell, origin, positions, pbc) with the same oracles as for a fresh object.

_IN_PLACE = ('elem', 'elem_all', 'slice', 'alias', 'shared')


def _op_pbc(am, system, op, ctx, labels):
    to = [bool(b) for b in op['to']]
    how = op['how']
    arr = system.pbc
    if how in _IN_PLACE and not (isinstance(arr, np.ndarray) and arr.flags.writeable):
        how = 'setter_list'       # a read-only array was handed in: in-place assignment is numpy's refusal, not atomman's
    if how == 'alias':
        h = ctx['handed']
        if h is not None and h.flags.writeable and np.shares_memory(h, arr):
            h[...] = to           # the caller changes the array it gave to atomman
            labels.add('pbc_alias')
            ctx['pbc'] = [bool(p) for p in system.pbc]
            return
        how = 'elem'
    if how == 'shared':
        # atoms_ix / atoms_extend hand the host's pbc array to the new system: change it there
        other = system.atoms_ix[0:1]
        if np.shares_memory(other.pbc, arr):
            other.pbc[:] = to
            labels.add('pbc_shared')
            ctx['pbc'] = [bool(p) for p in system.pbc]
            return
        how = 'elem'
    if how == 'elem':
        for i in range(3):
            if bool(system.pbc[i]) != to[i]:
                system.pbc[i] = to[i]
        labels.add('pbc_elem')
    elif how == 'elem_all':
        for i in range(3):
            system.pbc[i] = to[i]
        labels.add('pbc_elem')
    elif how == 'slice':
        system.pbc[:] = to
        labels.add('pbc_elem')
    else:
        if how == 'setter_list':
            system.pbc = list(to)
        elif how == 'setter_tuple':
            system.pbc = tuple(to)
        elif how == 'setter_array':
            a = np.array(to, dtype=bool)
            system.pbc = a
            ctx['handed'] = a
        elif how == 'setter_int':
            system.pbc = np.array([int(b) for b in to])
        elif how == 'setter_npbool':
            system.pbc = [np.bool_(b) for b in to]
        else:
            raise HarnessError('pbc op %r' % (how,))
        ctx['cached'] = list(to)
        labels.add('pbc_setter')
    ctx['pbc'] = list(to)
    got = [bool(p) for p in system.pbc]
    require(got == to, lambda: 'periodicity set to %r through %s, but system.pbc reports %r' % (to, op['how'], got))


def _op_box_set(system, op, ctx, labels):
    V = np.array(system.box.vects, dtype=float)
    o = np.array(system.box.origin, dtype=float)
    newV = V * np.array(op['f'], dtype=float)[:, None]          # rows rescaled: handedness kept
    sg = op.get('sg')
    if sg is not None:
        # cell vectors reversed (individually, in pairs, all three) through the public setter: an odd number changes the
        # handedness; a LAMMPS-form cell becomes lower triangular with negative diagonal entries
        newV = newV * np.array(sg, dtype=float)[:, None] + 0.0
        if sg[0] * sg[1] * sg[2] < 0:
            ctx['lh_flip'] = not ctx['lh_flip']
        if min(sg) < 0:
            labels.add('hist_box_reversed')
    newo = o + np.array(op['d'], dtype=float) @ V
    if op['via'] == 'vects':
        system.box_set(vects=newV, origin=newo, scale=bool(op['scale']))
    else:
        system.box_set(avect=newV[0], bvect=newV[1], cvect=newV[2], origin=newo, scale=bool(op['scale']))
    ctx['changed'] = True
    labels.add('hist_box_set')


def _op_pos(system, op, ctx, labels):
    if np.asarray(system.atoms.view['pos']).dtype.kind != 'f':
        return                          # integer-stored positions (open finding): a float edit is numpy's refusal
    n = system.natoms
    i = int(op['i']) % n
    d = np.array(op['d'], dtype=float)
    via = op['via']
    if via == 'inplace':
        system.atoms.pos[i] += d @ np.array(system.box.vects, dtype=float)
    elif via == 'setter':
        newx = np.array(system.atoms.pos, dtype=float)
        newx[i] += d @ np.array(system.box.vects, dtype=float)
        system.atoms.pos = newx
    elif via == 'scaled':
        sp = np.array(system.atoms_prop(key='pos', scale=True), dtype=float)
        sp[i] += d
        system.atoms_prop(key='pos', value=sp, scale=True)
    elif via == 'scaled_index':
        sp = np.array(system.atoms_prop(key='pos', index=i, scale=True), dtype=float)
        system.atoms_prop(key='pos', index=i, value=sp + d, scale=True)
    else:
        raise HarnessError('pos op %r' % (via,))
    ctx['changed'] = True
    labels.add('hist_pos_edit')


def _op_rebuild(am, system, op, ctx, labels):
    import copy
    via = op['via']
    if via == 'deepcopy':
        new = copy.deepcopy(system)           # private state is copied as it is: 'cached' stays
    else:
        if via == 'shared':
            new = am.System(atoms=system.atoms, box=system.box, pbc=system.pbc, symbols=system.symbols)
        elif via == 'safecopy':
            new = am.System(atoms=system.atoms, box=system.box, pbc=system.pbc, symbols=system.symbols, safecopy=True)
        elif via == 'ix':
            new = system.atoms_ix[:]
        elif via == 'model':
            new = am.System(model=system.model())
        else:
            raise HarnessError('rebuild op %r' % (via,))
        ctx['cached'] = list(ctx['pbc'])
    if via == 'model':
        ctx['changed'] = True                 # numbers went through the data model: re-read
    labels.add('hist_rebuild')
    return new


def _op_read(system, op, ctx, labels):
    what = op['what']
    n = system.natoms
    if what == 'dvect':
        system.dvect(0, n - 1)
    elif what == 'dmag':
        system.dmag(0, n - 1)
    elif what == 'df':
        system.atoms_df(scale=True)
    elif what == 'str':
        str(system)
    elif what == 'box_params':
        b = system.box
        (b.a, b.b, b.c, b.alpha, b.beta, b.gamma, b.volume, b.reciprocal_vects)
    elif what == 'normalize':
        # an earlier normalize call (must leave the system as it was); only inside the domain the property states
        # (fully periodic; cond <= 1e3, see ASSUMPTIONS).  On a system with a non-periodic direction whose atoms reach
        # a face normalize pads the cell in its internal wrap and then fails its own orthonormality assert
        # (AssertionError '1.000000 1.000000 1.001000'): outside the property text, not judged here.
        if all(ctx['pbc']) and np.linalg.cond(np.array(system.box.vects, dtype=float)) <= 1e3 and not ctx['int_stored']:
            guarded_normalize(system, lambda: system.normalize())
    elif what in ('normalize_ret', 'lmp_normalize', 'lmp_normalize_ret', 'normalize_style'):
        # the other ways of asking for the same thing (option combinations: method / function, with / without the transform,
        # style given explicitly), same domain as above
        if all(ctx['pbc']) and np.linalg.cond(np.array(system.box.vects, dtype=float)) <= 1e3 and not ctx['int_stored']:
            from atomman.lammps import normalize as lmp_normalize
            if what == 'normalize_ret':
                guarded_normalize(system, lambda: system.normalize(return_transform=True))
            elif what == 'normalize_style':
                guarded_normalize(system, lambda: system.normalize('lammps', True))
            elif what == 'lmp_normalize':
                guarded_normalize(system, lambda: lmp_normalize(system))
            else:
                guarded_normalize(system, lambda: lmp_normalize(system, return_transform=True))
            labels.add('hist_normalize_variant')
    else:
        raise HarnessError('read op %r' % (what,))
    labels.add('hist_read')


def _op_other_wrap(am, op, labels, L=1.0):
    """process history: another system (same length unit), other periodicity, atoms outside, wrapped first"""
    other = am.System(atoms=am.Atoms(pos=L * np.array([[1.5, -0.5, 2.5], [0.25, 3.5, -1.5]])),
                      box=am.Box(vects=L * np.array([[1.0, 0.0, 0.0], [0.5, 1.0, 0.0], [0.0, 0.25, 2.0]])), pbc=list(op['pbc']))
    other.wrap()
    labels.add('hist_other_wrap')


def apply_history(am, system, hist, ctx, labels):
    """-> the system the judged call is made on (a rebuild replaces the object)"""
    for op in hist:
        k = op['op']
        if k == 'pbc':
            _op_pbc(am, system, op, ctx, labels)
        elif k == 'scaled_read':
            system.atoms_prop(key='pos', scale=True)
            system.box.reciprocal_vects
            labels.add('prior_scaled_read')
        elif k == 'wrap':
            if op.get('ret'):
                system.wrap(return_imageflags=True)
            else:
                system.wrap()
            ctx['changed'] = True
            labels.add('prior_wrap')
        elif k == 'box_set':
            _op_box_set(system, op, ctx, labels)
        elif k == 'pos':
            _op_pos(system, op, ctx, labels)
        elif k == 'rebuild':
            system = _op_rebuild(am, system, op, ctx, labels)
        elif k == 'read':
            _op_read(system, op, ctx, labels)
        elif k == 'other_wrap':
            _op_other_wrap(am, op, labels, ctx.get('L', 1.0))
        else:
            raise HarnessError('history op %r' % (k,))
    if hist:
        labels.add('hist')
    got = [bool(p) for p in system.pbc]
    require(got == ctx['pbc'], lambda: 'system.pbc reports %r after a history that set %r' % (got, ctx['pbc']))
    return system


def case_history(case):
    """the history of a case; cases written before histories existed carry 'prior'"""
    if 'hist' in case:
        return list(case['hist'])
    prior = case.get('prior')
    if prior == 'scaled_read':
        return [{'op': 'scaled_read'}]
    if prior == 'wrap_first':
        return [{'op': 'wrap', 'ret': False}]
    return []


def form_labels(ctx, labels):
    f = ctx['forms']
    if f['pos'] != 'float':
        labels.add('pos_' + ('int' if f['pos'].startswith('int') else f['pos']))
    dt = f.get('int_dtype')
    if dt is not None:
        # which integer-like dtype the whole-number positions were handed over in
        if dt.kind == 'b':
            labels.add('pos_int_bool')
        elif dt == np.dtype('int64'):
            labels.add('pos_int_int64')
        else:
            labels.add('pos_int_not64')           # every integer dtype other than the platform default
            labels.add('pos_int_unsigned' if dt.kind == 'u' else 'pos_int_narrow')
    if ctx['scaled']:
        labels.add('pos_scaled_ctor')
    if f['box'] != 'array':
        labels.add('box_form')
    if f.get('box_dtype') is not None:
        labels.add('box_dtype')                   # cell vectors / origin handed over as float32 / float16 / integer array
        labels.add('box_' + f['box'])
    if f['pbc'] in ('int8_array', 'uint8_array'):
        labels.add('pbc_int8')
    if f['pbc'] != 'list':
        labels.add('pbc_form')
    if f['pos'] != 'float' or ctx['scaled'] or f['box'] != 'array' or f['pbc'] != 'list' or f['safecopy']:
        labels.add('forms')


def keyed_for_integer_positions(oracle):
    """Violations on a system whose positions atomman stored with an integer dtype are the open finding KEY_INTPOS."""
    @functools.wraps(oracle)
    def wrapped(case, *a, **kw):
        ctx_out = {}
        try:
            return oracle(case, *a, ctx_out=ctx_out, **kw)
        except Violation as v:
            if v.key is None and ctx_out.get('int_stored'):
                raise Violation('positions given as whole numbers (%s) are stored with dtype %s and the result is cast to that dtype: %s' % (ctx_out.get('given'), ctx_out.get('pos_dtype'), v.detail), key=KEY_INTPOS)
            raise
    return wrapped


def snapshot(system):
    snap = {'vects': np.array(system.box.vects, dtype=float), 'origin': np.array(system.box.origin, dtype=float),
            'pbc': [bool(p) for p in system.pbc], 'symbols': tuple(system.symbols), 'natoms': int(system.natoms),
            'natypes': int(system.natypes), 'keys': list(system.atoms.prop()), 'props': {}}
    for k in snap['keys']:
        snap['props'][k] = np.array(system.atoms.view[k], copy=True)
    return snap


def same_array(a, b):
    a, b = np.asarray(a), np.asarray(b)
    return a.shape == b.shape and a.dtype == b.dtype and bool(np.array_equal(a, b))


def pre_scribble(case, system, ctx, labels):
    """case['pre_scribble']: right after construction the caller overwrites the arrays it handed in; the system must not move"""
    if case.get('pre_scribble'):
        before = snapshot(system)
        scribble_in(ctx, labels)
        d = snapshot_diff(before, snapshot(system))
        require(d is None, lambda: 'overwriting, after construction, the arrays handed to Atoms / Box changed the system: %s' % d)
        if 'caller_in' in labels:
            labels.add('caller_in_before')


def near_labels(s0, band0, labels):
    """relative coordinates 1e-12 .. 2e-3 away from a face plane (an integer): decided by the band or not"""
    d = np.abs(s0 - np.rint(s0))
    near = (d >= 5e-13 * np.maximum(1.0, np.abs(s0))) & (d <= 2e-3)       # (not the rounding of a coordinate meant to be on the face)
    if near.any():
        labels.add('near_face')
        if np.any(near & (d > band0)):
            labels.add('near_face_decided')       # outside the undecided band: inside / outside is judged
        if np.any(near & (d <= 1e-7)):
            labels.add('near_face_1e-7')


def snapshot_diff(a, b):
    """None when the two snapshots are the same bit for bit, else a description of the first difference"""
    for k in ('vects', 'origin'):
        if not same_array(a[k], b[k]):
            return 'box %s %r -> %r' % (k, a[k].tolist(), b[k].tolist())
    for k in ('pbc', 'symbols', 'natoms', 'natypes', 'keys'):
        if a[k] != b[k]:
            return '%s %r -> %r' % (k, a[k], b[k])
    for k in a['keys']:
        if not same_array(a['props'][k], b['props'][k]):
            return 'per-atom property %r (%s) %r -> (%s) %r' % (k, a['props'][k].dtype, a['props'][k].tolist(), b['props'][k].dtype, b['props'][k].tolist())
    return None


# ----------------------------------------------------------------------------- what happens AFTER the judged call
#
# The property speaks about what a call RETURNED and about the system it was given.  Whatever the caller does afterwards, the
# things it holds have to stay what they were when they were judged.  case['after'] is a list of operations carried out after
# the judged call has passed all its oracles (no key: nothing, the cases of earlier rounds):
#   result ledger (label ledger)  every array / system a call handed out is kept with a copy taken at return time and is compared
#       with it BIT FOR BIT after later calls on other objects ('other_wrap': another system, other periodicity, other or the
#       same number of atoms; 'other_normalize': a left-handed tilted one) and on the same object; results of different calls
#       and the caller's input arrays must not share memory.  'again' repeats the judged call on the same input (wrap: on a deep
#       copy taken before the call; normalize: on the untouched argument): the answer is the first one, bit for bit.
#   caller side (labels caller_out / caller_in / reuse)  the caller overwrites in place what it was handed OUT (image flags, the
#       transform, the normalised system - positions, properties, cell through the setters, periodicity element-wise -, arrays
#       from the getters) and what it handed IN (the position / type / property arrays given to Atoms, the vects / origin arrays
#       given to Box; the periodicity array is excluded: System keeps the bool ndarray it is given, see ASSUMPTIONS), re-defines
#       cell and positions through their setters with the same values and calls again ('reuse'): the system a wrap acted on and
#       the argument of a normalize must not move, and a repetition still gives the first answer.
# Independently of 'after', every array handed in is compared at the end of the case with its value at hand-over (a call must not
# write into the caller's arrays), and case['pre_scribble'] overwrites them right after construction, before the history.

class Ledger:
    def __init__(self):
        self.results = []

    def add(self, raw, where):
        if isinstance(raw, np.ndarray):
            self.results.append([raw, np.array(raw, copy=True), where])
        return raw

    def resnap(self, raw):
        for r in self.results:
            if r[0] is raw:
                r[1] = np.array(raw, copy=True)

    def verify(self, handed_in):
        res = self.results
        for raw, snap, where in res:
            require(raw.shape == snap.shape and raw.dtype == snap.dtype and bool(np.array_equal(raw, snap)),
                    lambda: 'the %s was %r when it was returned and is %r after later calls' % (where, snap.tolist(), raw.tolist()))
        for i in range(len(res)):
            for j in range(i + 1, len(res)):
                require(not np.shares_memory(res[i][0], res[j][0]), lambda: 'two calls returned arrays sharing memory: the %s / the %s' % (res[i][2], res[j][2]))
            for a, _ in handed_in:
                require(not np.shares_memory(res[i][0], a), lambda: 'the %s shares memory with an array the caller handed in' % res[i][2])


def _scribble(a):
    if a.dtype.kind == 'b':
        a[...] = ~a
    elif a.dtype.kind in 'iu':
        a[...] = 3
    else:
        a[...] = a * -2.5 + 7.0


def scribble_in(ctx, labels):
    """the caller overwrites, in place, the arrays it handed to Atoms / Box (and goes on using them for something else)"""
    done = False
    for i, (a, a0) in enumerate(ctx['handed_in']):
        if a.flags.writeable:
            _scribble(a)
            ctx['handed_in'][i] = (a, np.array(a, copy=True))
            done = True
    if done:
        labels.add('caller_in')


def check_handed_in(ctx, what):
    for a, a0 in ctx['handed_in']:
        require(same_array(a, a0), lambda: '%s changed an array the caller had handed to Atoms / Box: %r -> %r' % (what, a0.tolist(), a.tolist()))


def _other_system(am, L, pbc, n=None, lefthanded=False):
    """another system in the same length unit: tilted cell, atoms outside; n: its number of atoms (default 3)"""
    n = 3 if n is None else int(n)
    V = L * np.array([[1.5, 0.0, 0.0], [0.5, 1.0, 0.0], [-0.25, 0.25, 2.0]])
    if lefthanded:
        V[2] = -V[2]
    s = np.array([[1.5 + 0.25 * i, -0.5 - 0.5 * i, 2.25 - 1.5 * i] for i in range(n)])
    return am.System(atoms=am.Atoms(pos=s @ V + L * 0.125), box=am.Box(vects=V, origin=[L * 0.125] * 3), pbc=list(pbc))


def _after_other(am, op, ctx, led, labels, n):
    """a later call on another object; what it hands out enters the ledger"""
    from atomman.lammps import normalize as lmp_normalize
    if op['op'] == 'other_wrap':
        other = _other_system(am, ctx['L'], op['pbc'], n if op.get('same_n') else None)
        led.add(other.wrap(return_imageflags=True), 'image flags returned by a later wrap of another system')
        if op.get('same_n'):
            labels.add('ledger_same_n')
    else:
        other = _other_system(am, ctx['L'], [True, True, True], n if op.get('same_n') else None, lefthanded=True)
        new, T = (other.normalize(return_transform=True) if op.get('method') else lmp_normalize(other, return_transform=True))
        led.add(T, 'transform returned by a later normalize of another system')
        led.add(np.asarray(new.atoms.view['pos']), 'positions of the system returned by a later normalize of another system')
    labels.add('ledger')
    labels.add('ledger_other')


def after_wrap(am, case, system, pre, ret, ctx, labels):
    import copy
    ops = case.get('after') or []
    led = Ledger()
    flags0 = None
    if isinstance(ret, np.ndarray):
        led.add(ret, 'image flags returned by the judged wrap')
        flags0 = np.array(ret, copy=True)
    state = first = snapshot(system)
    n = system.natoms
    for op in ops:
        k = op['op']
        if k in ('other_wrap', 'other_normalize'):
            _after_other(am, op, ctx, led, labels, n)
        elif k == 'again':
            # the same call on the same input (deep copy taken before the judged call): the same answer, bit for bit
            again = copy.deepcopy(pre)
            r2 = again.wrap(return_imageflags=True) if case['ret'] else again.wrap()
            d = snapshot_diff(first, snapshot(again))
            require(d is None, lambda: 'wrap of a deep copy of the same system (taken before the call) gives another result: %s' % d)
            if flags0 is not None:
                require(isinstance(r2, np.ndarray) and same_array(r2, flags0), lambda: 'wrap of a deep copy of the same system returns other image flags: %r / %r' % (flags0.tolist(), np.asarray(r2).tolist()))
                led.add(r2, 'image flags returned by the repeated wrap')
            labels.add('again')
            labels.add('ledger')
        elif k == 'scribble_out':
            if isinstance(ret, np.ndarray):
                ret[...] = -7
                led.resnap(ret)
            for a in (system.box.vects, system.box.origin, system.box.avect, system.box.reciprocal_vects,
                      system.atoms_prop(key='pos', scale=True), system.atoms_prop(key='pos')):
                _scribble(a)
            labels.add('caller_out')
        elif k == 'scribble_in':
            scribble_in(ctx, labels)
        elif k == 'reuse':
            # cell and positions re-defined through their setters (same values), then the object is used again
            system.box.vects = system.box.vects
            system.box.origin = system.box.origin
            system.atoms.pos = np.array(system.atoms.pos, copy=True)
            d = snapshot_diff(state, snapshot(system))
            require(d is None, lambda: 'setting cell / positions to the values they have changed the system: %s' % d)
            led.add(system.wrap(return_imageflags=True), 'image flags returned by a second wrap of the same system')
            state = snapshot(system)
            labels.add('reuse')
            labels.add('ledger')
            continue
        else:
            raise HarnessError('after op %r' % (k,))
        d = snapshot_diff(state, snapshot(system))
        require(d is None, lambda: 'the wrapped system changed through a later %s that does not concern it: %s' % (k, d))
    led.verify(ctx['handed_in'])
    check_handed_in(ctx, 'wrap')
    if ops:
        labels.add('after')


def after_normalize(am, case, system, snap, new, T_raw, f, ctx, labels):
    ops = case.get('after') or []
    led = Ledger()
    snap_new = cur_new = snapshot(new)        # the first answer / the result object as the caller left it
    T0 = None
    if isinstance(T_raw, np.ndarray):
        led.add(T_raw, 'transform returned by the judged normalize')
        T0 = np.array(T_raw, copy=True)
    new_valid = True
    n = system.natoms
    for op in ops:
        k = op['op']
        if k in ('other_wrap', 'other_normalize'):
            _after_other(am, op, ctx, led, labels, n)
        elif k == 'again':
            # the argument is as it was: the same call gives the same answer, bit for bit, in new objects
            res2 = guarded_normalize(system, (lambda: f(return_transform=True)) if case['ret'] else f)
            new2, T2 = res2 if case['ret'] else (res2, None)
            require(isinstance(new2, am.System) and new2 is not new and new2 is not system, 'a repeated normalize returned an object it had returned before / its argument')
            d = snapshot_diff(snap_new, snapshot(new2))
            require(d is None, lambda: 'normalize of the same, unchanged system gives another result the second time: %s' % d)
            require(not np.shares_memory(np.asarray(new2.atoms.view['pos']), np.asarray(new.atoms.view['pos'])), 'the systems returned by two normalize calls share their positions')
            if T0 is not None:
                require(isinstance(T2, np.ndarray) and same_array(T2, T0), lambda: 'normalize of the same, unchanged system returns another transform the second time: %r / %r' % (T0.tolist(), np.asarray(T2).tolist()))
                led.add(T2, 'transform returned by the repeated normalize')
            labels.add('again')
            labels.add('ledger')
        elif k == 'scribble_out':
            # the caller goes on working with what it was handed out: in place, through the setters, element-wise
            if isinstance(T_raw, np.ndarray):
                T_raw[...] = 0.0
                led.resnap(T_raw)
            for key in list(new.atoms.prop()):
                if key != 'atype':
                    _scribble(np.asarray(new.atoms.view[key]))
            V1 = np.array(new.box.vects, dtype=float)
            new.box_set(vects=V1[[1, 2, 0]] * 2.0, origin=np.array(new.box.origin, dtype=float) + V1[0])
            new.pbc[1] = False
            new.pbc[2] = False
            new_valid = False
            labels.add('caller_out')
        elif k == 'scribble_in':
            scribble_in(ctx, labels)
        elif k == 'reuse':
            # the result is used (wrapped, normalised again), the argument is normalised once more
            if new_valid:
                new.wrap()
                guarded_normalize(new, lambda: new.normalize())
                cur_new = snapshot(new)
            guarded_normalize(system, f)
            labels.add('reuse')
            labels.add('ledger')
        else:
            raise HarnessError('after op %r' % (k,))
        d = snapshot_diff(snap, snapshot(system))
        require(d is None, lambda: 'the argument of normalize changed through a later %s: %s' % (k, d))
        if new_valid:
            d = snapshot_diff(cur_new, snapshot(new))
            require(d is None, lambda: 'the system returned by normalize changed through a later %s that does not concern it: %s' % (k, d))
    led.verify(ctx['handed_in'])
    check_handed_in(ctx, 'normalize')
    if ops:
        labels.add('after')


def check_props(system, atype0, props, what, exact_keys=None):
    """atype and the extra properties of `system` are the ones put in, row by row"""
    n = len(atype0)
    require(system.natoms == n, lambda: '%s: natoms %r -> %r' % (what, n, system.natoms))
    keys = list(system.atoms.prop())
    for k in ['atype', 'pos'] + list(props):
        require(k in keys, lambda: '%s: per-atom property %r disappeared (have %r)' % (what, k, keys))
    require(len(keys) == 2 + len(props), lambda: '%s: per-atom property list changed to %r' % (what, keys))
    require(same_array(system.atoms.atype, atype0), lambda: '%s: atype changed: %r -> %r' % (what, atype0.tolist(), np.asarray(system.atoms.atype).tolist()))
    for k, v in props.items():
        if exact_keys is not None and k not in exact_keys:
            got = np.asarray(system.atoms.view[k])
            require(got.shape == v.shape, lambda: '%s: property %r changed shape %r -> %r' % (what, k, v.shape, got.shape))
            continue
        got = np.asarray(system.atoms.view[k])
        require(same_array(got, v), lambda: '%s: per-atom property %r changed / lost row alignment: %r -> %r' % (what, k, v.tolist(), got.tolist()))


# ----------------------------------------------------------------------------- strategies

_cells_std = gens.cells(lefthanded=True)
_cells_strong = gens.cells(lefthanded=True, lmin=1.0, lmax=30.0, maxtilt=4.0, families=False, zero_tilt_share=False)
_cells_plain = st.one_of(_cells_std, _cells_std, _cells_std, _cells_strong)
_int48 = st.integers(0, 47)


def _draw_sym(draw, c):
    """the cell dict c, in 3 cases of 8 with an exact symmetry operation (see cell_vects5): 2 of 8 'diagonal' (rotation by
    exactly 180 degrees about x / y / z or a mirror, cell vectors reversed individually / in pairs / all; no generic rotation: the
    zeros above the diagonal survive), 1 of 8 any signed axis permutation (exact 90 / 120 / 180 degree rotations, mirrors), cell
    vectors renamed and reversed (three quarters of them without a generic rotation)"""
    j = draw(_int8)
    if j < 5:
        return c
    c = dict(c)
    if j < 7:
        m, p, k = draw(_int8), 0, draw(_int8)
        if m == 0 and k == 0:
            k = 6                         # avect and bvect reversed: the cell turned by 180 degrees about z
        c['rot'] = None
    else:
        m, p, k = draw(_int48), draw(_int6), draw(_int8)
        if draw(_int4):
            c['rot'] = None
    c['sym'] = {'m': m, 'p': p, 's': k}
    return c


# near-threshold cells: quantities 1e-12 .. 1e-3 (relative) away from a structural special case.  Tilts that are tiny but not zero
# (almost orthogonal, almost right angles), a rigid rotation by 1e-10 .. 0.1 degrees (almost in LAMMPS form: the upper triangle tiny
# but not zero), cell lengths that differ by 1e-12 .. 1e-3 (almost tetragonal / cubic).  Box.vects zeroes components below 1e-9 of the
# largest one (documented): the judged cell is the one read back from the system; ratios within 10 % of that rung are moved off it.
_near_e = st.floats(-12.0, -3.0, allow_nan=False)
_near_tilt1 = st.tuples(st.sampled_from((0, 1, 2, 2, 2)), _near_e, st.sampled_from((-1.0, 1.0)))
_near_rot_e = st.floats(-10.0, -1.0, allow_nan=False)
_rot_axis = st.sampled_from([[0, 0, 1], [1, 0, 0], [0, 1, 0], [1, 1, 1], [1, -2, 3], [-4, 1, 0]])
_int3 = st.integers(0, 2)


def _draw_near(draw, c):
    """the cell dict c, in 1 case of 6 pushed next to a special case (see above); several kinds may combine"""
    if draw(_int6):
        return c
    c = dict(c)
    kinds = draw(_int8)                   # bit 0: tilts, bit 1: rotation, bit 2: lengths; 0 -> tilts
    if kinds == 0:
        kinds = 1
    if kinds & 4:
        e, sg = draw(_near_e), draw(st.sampled_from((-1.0, 1.0)))
        c['ly'] = c['lx'] * (1.0 + sg * 10.0 ** e)
        if draw(_bool):
            c['lz'] = c['lx'] * (1.0 - sg * 10.0 ** draw(_near_e))
    if kinds & 1:
        tt = [list(draw(_near_tilt1)) for _ in range(3)]
        if not any(t[0] == 2 for t in tt):
            tt[draw(_int3)][0] = 2
        for key, lk, (mode, ex, sg) in zip(('xy', 'xz', 'yz'), ('lx', 'lx', 'ly'), tt):
            if mode == 1:
                c[key] = 0.0
            elif mode == 2:
                c[key] = sg * 10.0 ** ex * c[lk]
        vm = max(abs(c[k]) for k in ('lx', 'ly', 'lz', 'xy', 'xz', 'yz'))
        for key in ('xy', 'xz', 'yz'):
            if 0.9e-9 < abs(c[key]) / vm < 1.1e-9:
                c[key] = c[key] * 2.0
    if kinds & 2:
        c['rot'] = [draw(_rot_axis), 10.0 ** draw(_near_rot_e)]
    return c


@st.composite
def _cells_sym(draw):
    return _draw_sym(draw, _draw_near(draw, draw(_cells_plain)))


_cells = _cells_sym()

_exact_vals = st.sampled_from([0.0, 1.0, 0.5, -1.0, 2.0, -0.5, 1.5, -6.0, 7.0, 3.0, -3.0, 0.0, 1.0])
_far_vals = st.builds(lambda k, f: float(k) + f, st.one_of(st.integers(-1000, 1000), st.integers(-100000, 100000)), st.sampled_from([0.0, 0.5, 0.3, 0.9999, 0.0001, 0.77]))
_coord = st.one_of(gens.nice(-6.0, 7.0, 4), gens.nice(-6.0, 7.0, 4), gens.nice(0.0, 1.0, 4), gens.nice(0.0, 1.0, 4),
                   _exact_vals, _exact_vals)
_coord_far = st.one_of(_coord, _coord, _far_vals)
_point = st.lists(_coord, min_size=3, max_size=3)
_point_far = st.lists(_coord_far, min_size=3, max_size=3)
_points = st.lists(_point, min_size=1, max_size=12)
_points_far = st.lists(st.one_of(_point, _point_far), min_size=1, max_size=12)
_points_n = st.lists(_point, min_size=1, max_size=8)
_points_n_far = st.lists(st.one_of(_point, _point, _point_far), min_size=1, max_size=8)
# near-threshold coordinates: 1e-12 .. 1e-3 cells away from a face plane (either side of it), also of a far image
_near_vals = st.builds(lambda k, e, sg, m: float(k) + sg * m * 10.0 ** -e, st.sampled_from([0, 1, 0, 1, -1, 2, -3, 5, 1000, -100000]),
                       st.integers(3, 12), st.sampled_from([-1.0, 1.0]), st.sampled_from([1.0, 1.0, 2.5, 7.0]))
_coord_near = st.one_of(_coord, _near_vals, _near_vals)
_point_near = st.lists(_coord_near, min_size=3, max_size=3)
_points_near = st.lists(st.one_of(_point, _point_near, _point_near), min_size=1, max_size=12)
_points_n_near = st.lists(st.one_of(_point, _point_near, _point_near), min_size=1, max_size=8)
# many decades in one call: every row has its own magnitude 10^k (k = -9 .. 5, all three coordinates of that size), the first two rows
# are 8 or more orders of magnitude apart; judged row by row (tolerance of a row from its own size) and against the row wrapped alone
_dec_k = st.integers(-9, 5)
_dec_m = st.sampled_from([1.0, -1.0, 2.5, -3.75, 7.0, 0.5, -0.25])


@st.composite
def _points_decades(draw, nmax=8):
    ks = [draw(st.sampled_from([-9, -9, -8])), draw(st.sampled_from([0, 1, 3, 5, 5]))]
    ks += [draw(_dec_k) for _ in range(draw(st.integers(0, nmax - 2)))]
    rows = [[draw(_dec_m) * 10.0 ** k for _ in range(3)] for k in ks]
    if draw(_bool):
        rows.reverse()
    return rows


_points_dec = _points_decades()
_nprops = st.sampled_from([0, 1, 2, 3, 3])
# Hypothesis over-represents the first element of sampled_from (shrink target): put the fully periodic setting first
_PBCS = [[True, True, True], [True, True, False], [True, False, True], [False, True, True], [True, False, False],
         [False, True, False], [False, False, True], [False, False, False]]
_pbcs = st.sampled_from(_PBCS)
_bool = st.booleans()
_int8 = st.integers(0, 7)
_int6 = st.integers(0, 5)


# what happened to the system before the judged call (the property holds after any history): see apply_history
_PBC_HOWS = st.sampled_from(['elem', 'elem', 'elem', 'elem_all', 'slice', 'alias', 'alias', 'alias', 'shared', 'shared',
                             'setter_list', 'setter_tuple', 'setter_array', 'setter_int', 'setter_npbool'])
_pbc_op = st.builds(lambda how, to: {'op': 'pbc', 'how': how, 'to': to}, _PBC_HOWS, _pbcs)
_scaled_read_op = st.just({'op': 'scaled_read'})
_wrap_op = st.builds(lambda r: {'op': 'wrap', 'ret': r}, _bool)
_f3 = st.lists(st.sampled_from([1.0, 1.0, 0.5, 2.0, 1.25, 0.75, 1.5]), min_size=3, max_size=3)
_d3 = st.lists(st.sampled_from([0.0, 0.0, 0.5, -0.25, 1.0, -2.0, 0.3125, 3.0]), min_size=3, max_size=3)
# cell vectors reversed by the box_set of a history: none (no 'sg' key, the cases of earlier rounds) in half of the operations
_sg3 = st.sampled_from([None, None, None, None, None, None, None, [-1.0, -1.0, 1.0], [1.0, -1.0, -1.0], [-1.0, 1.0, -1.0],
                        [-1.0, 1.0, 1.0], [1.0, -1.0, 1.0], [1.0, 1.0, -1.0], [-1.0, -1.0, -1.0]])


def _mk_box_op(via, f, d, sc, sg):
    op = {'op': 'box_set', 'via': via, 'f': f, 'd': d, 'scale': sc}
    if sg is not None:
        op['sg'] = sg
    return op


_box_op = st.builds(_mk_box_op, st.sampled_from(['vects', 'avect']), _f3, _d3, _bool, _sg3)
_pos_op = st.builds(lambda via, i, d: {'op': 'pos', 'via': via, 'i': i, 'd': d},
                    st.sampled_from(['inplace', 'setter', 'scaled', 'scaled_index']), st.integers(0, 11), _d3)
_rebuild_op = st.builds(lambda via: {'op': 'rebuild', 'via': via}, st.sampled_from(['shared', 'deepcopy', 'ix', 'model', 'safecopy']))
_rebuild_exact_op = st.builds(lambda via: {'op': 'rebuild', 'via': via}, st.sampled_from(['shared', 'deepcopy', 'ix', 'safecopy']))
_read_op = st.builds(lambda w: {'op': 'read', 'what': w}, st.sampled_from(['dvect', 'dmag', 'df', 'str', 'box_params', 'normalize',
                                                                       'normalize_ret', 'lmp_normalize_ret', 'lmp_normalize', 'normalize_style']))
_other_op = st.builds(lambda p: {'op': 'other_wrap', 'pbc': p}, _pbcs)
_int16 = st.integers(0, 15)
_int4 = st.integers(0, 3)


def _hist_strategy(exact):
    """2 cases in 8 (3 in 8 for exact) are a fresh object; otherwise 1-4 operations, 6 in 16 of them a periodicity change.
    (st.one_of drops repeated alternatives, so the weights are drawn explicitly.)"""
    @st.composite
    def hist(draw):
        if draw(_int8) < (3 if exact else 2):
            return []
        ops = []
        for _ in range(1 + draw(_int4) if not exact else 1 + draw(_int4) % 3):
            j = draw(_int16)
            if j < 6:
                ops.append(draw(_pbc_op))
            elif j < 8:
                ops.append(draw(_scaled_read_op))
            elif j < 10:
                ops.append(draw(_rebuild_exact_op if exact else _rebuild_op))
            elif j < 12:
                ops.append(draw(_read_op))
            elif j < 13:
                ops.append(draw(_other_op))
            elif exact:
                ops.append(draw(_pbc_op))
            elif j < 14:
                ops.append(draw(_wrap_op))
            elif j < 15:
                ops.append(draw(_box_op))
            else:
                ops.append(draw(_pos_op))
        return ops
    return hist()


# exactly representable inputs stay exactly representable under the operations of _hist_exact
_hist = _hist_strategy(False)
_hist_exact = _hist_strategy(True)

# documented input forms (Atoms: "list/ndarray"; Box: "array-like"; System.pbc: "tuple or list of bool" / bool ndarray)
_pos_form = st.sampled_from(['float', 'float', 'float', 'float', 'float', 'float', 'float', 'float', 'list', 'list', 'list', 'fortran', 'strided',
                             'int_array', 'int_list', 'int_array', 'int_array', 'int_array', 'int_array', 'float32', 'float32'])
# which integer-like dtype an 'int_array' has: index into INT_DTYPES (Hypothesis over-represents the first element: int32)
_int_dtype = st.sampled_from(list(range(1, len(INT_DTYPES))) + [0, 0, 8, 8, 8, 2, 3, 5])
_box_form = st.sampled_from(['array', 'array', 'array', 'list', 'tuple', 'fortran', 'readonly', 'avects', 'f32', 'int', 'f16', 'f32'])
_pbc_form = st.sampled_from(['list', 'list', 'tuple', 'ndarray', 'ndarray', 'int_list', 'int_array', 'npbool', 'strided', 'readonly',
                             'int8_array', 'uint8_array'])
_one_in_5 = st.sampled_from([False, False, False, False, True])
_forms = st.builds(lambda a, b, c, d, e, i: {'pos': a, 'box': b, 'pbc': c, 'scaled': d, 'safecopy': e, 'idt': i},
                   _pos_form, _box_form, _pbc_form, _one_in_5, _one_in_5, _int_dtype)


# overall length scale (see "overall length scale" above): exponent 0 in about half of the cases, -10 (metres) favoured
_scale_k10 = st.sampled_from([0, 0, 0, 0, 0, 0, 0, 0, -10, -10, -10, -10, -12, -9, -8, -5, -3, -1, 1, 3, 6])
_scale_k2 = st.sampled_from([0, 0, 0, 0, 0, 0, 0, 0, -33, -33, -33, -33, -40, -30, -27, -17, -10, -3, 3, 10, 20])
_INT_FORMS = ('int_array', 'int_list')


def _with_scale(c, k, base, forms):
    """the cell dict with the overall length scale base**k.  Whole-number positions (integer-typed input forms) in a unit in
    which the cell is smaller than 1 are all zero: those cases get the reciprocal scale (at most base**|k| <= 1e6) instead"""
    if k < 0 and forms['pos'] in _INT_FORMS:
        k = min(-k, 6 if base == 10.0 else 20)
    if k != 0:
        c = dict(c, scale=base ** k)
    return c


# what the caller does after the judged call (see "what happens AFTER the judged call"): nothing in half of the cases
_after_op = st.one_of(
    st.builds(lambda p, sn: {'op': 'other_wrap', 'pbc': p, 'same_n': sn}, _pbcs, _bool),
    st.builds(lambda m, sn: {'op': 'other_normalize', 'method': m, 'same_n': sn}, _bool, _bool),
    st.just({'op': 'again'}), st.just({'op': 'again'}),
    st.just({'op': 'scribble_out'}), st.just({'op': 'scribble_in'}), st.just({'op': 'reuse'}))
_after_ops = st.lists(_after_op, min_size=1, max_size=3)


def _draw_after(draw, case):
    """adds 'after' (1-3 operations, half of the cases) and 'pre_scribble' (1 case in 8) to the case"""
    if draw(_bool):
        case['after'] = draw(_after_ops)
    if draw(_int8) == 0:
        case['pre_scribble'] = True
    return case


def _draw_points(draw, plain, far, near, n_dec):
    """-> (relative coordinates, single?): 1 case in 6 far atoms, 1 in 6 near-face coordinates, 1 in 8 rows spanning decades"""
    j = draw(st.integers(0, 23))
    if j < 4:
        return draw(far), False
    if j < 8:
        return draw(near), False
    if j < 11:
        return draw(n_dec), True
    return draw(plain), False


def final_pbc(pbc0, hist):
    pbc = list(pbc0)
    for op in hist:
        if op['op'] == 'pbc':
            pbc = list(op['to'])
    return pbc


@st.composite
def wrap_cases(draw):
    c = draw(_cells)
    rel, single = _draw_points(draw, _points, _points_far, _points_near, _points_dec)
    pbc0, hist = draw(_pbcs), draw(_hist)
    forms = draw(_forms)
    c = _with_scale(c, draw(_scale_k10), 10.0, forms)
    # 'pbc' is the periodicity at the judged call, 'pbc0' the one given to the constructor
    case = {'cell': c, 'pbc0': pbc0, 'pbc': final_pbc(pbc0, hist), 'rel': rel, 'nprops': draw(_nprops),
            'ret': draw(_int6) != 0, 'symbols': draw(_bool), 'hist': hist, 'forms': forms}
    if single:
        case['single'] = True
    return _draw_after(draw, case)


_pow2 = st.sampled_from([0.5, 1.0, 2.0, 4.0, 8.0, 16.0])
_dy_origin = st.one_of(st.just(0.0), gens.dyadic(-8, 8, 4))
_dy_tilt = st.one_of(st.just(0.0), st.just(0.0), gens.dyadic(-3, 3, 2))
# k +- 2^-e: exactly representable coordinates next to a face (either side), decided with a zero band like the faces themselves
_dy_near = st.builds(lambda k, e, sg: float(k) + sg * 2.0 ** -e, st.sampled_from([0, 1, 0, 1, -1, 2, -3, 40]), st.sampled_from([10, 20, 30, 30]),
                     st.sampled_from([-1.0, 1.0]))
_dy_coord = st.one_of(gens.dyadic(-6, 7, 2), st.sampled_from([0.0, 1.0, 0.0, 1.0, -1.0, 2.0, 0.5]), gens.dyadic(-64, 64, 3))
_dy_coord_near = st.one_of(_dy_coord, _dy_near)
_dy_points_near = st.lists(st.lists(_dy_coord_near, min_size=3, max_size=3), min_size=1, max_size=10)
_dy_points = st.lists(st.lists(_dy_coord, min_size=3, max_size=3), min_size=1, max_size=10)


@st.composite
def wrap_exact_cases(draw):
    lx, ly, lz = draw(_pow2), draw(_pow2), draw(_pow2)
    xy, xz, yz = draw(_dy_tilt) * lx, draw(_dy_tilt) * lx, draw(_dy_tilt) * ly
    c = {'lx': lx, 'ly': ly, 'lz': lz, 'xy': xy, 'xz': xz, 'yz': yz,
         'origin': [draw(_dy_origin) for _ in range(3)], 'rot': None, 'lefthanded': draw(_bool)}
    c = _draw_sym(draw, c)                # exact: products with 0 / +-1 only
    pbc0, hist = draw(_pbcs), draw(_hist_exact)
    forms = draw(_forms)
    c = _with_scale(c, draw(_scale_k2), 2.0, forms)          # power of two: every number stays exactly representable
    # 1 case in 4 with coordinates next to a face (k +- 2^-e; not representable on the grid of the float32 form)
    case = {'cell': c, 'pbc0': pbc0, 'pbc': final_pbc(pbc0, hist), 'rel': draw(_dy_points_near if (draw(_int4) == 0 and forms['pos'] != 'float32') else _dy_points), 'nprops': draw(_nprops),
            'ret': True, 'symbols': False, 'hist': hist, 'forms': forms}
    return _draw_after(draw, case)


@st.composite
def normalize_cases(draw):
    c = draw(_cells)
    rel, _ = _draw_points(draw, _points_n, _points_n_far, _points_n_near, _points_dec)
    pbc0, hist = draw(_pbcs), draw(_hist)
    if not all(final_pbc(pbc0, hist)):
        # normalize is stated for fully periodic systems: the history ends by making the system fully periodic
        hist = hist + [{'op': 'pbc', 'how': draw(_PBC_HOWS), 'to': [True, True, True]}]
    forms = draw(_forms)
    c = _with_scale(c, draw(_scale_k10), 10.0, forms)
    case = {'cell': c, 'rel': rel, 'nprops': draw(_nprops), 'ret': draw(_int6) != 0,
            'via': draw(st.sampled_from(['method', 'method', 'function', 'method_style', 'function', 'method_pos'])), 'symbols': draw(_bool),
            'pbc0': pbc0, 'hist': hist, 'forms': forms}
    return _draw_after(draw, case)


# ----------------------------------------------------------------------------- wrap

def _is_dyadic(A, bits=24):
    A = np.asarray(A, dtype=float) * float(2 ** bits)
    return bool(np.all(A == np.rint(A)) and np.abs(A).max() < 2.0 ** 50)


@keyed_for_integer_positions
def oracle_wrap(case, exact=False, ctx_out=None):
    import atomman as am
    c = case['cell']
    pbc = [bool(p) for p in case['pbc']]
    pbc0 = [bool(p) for p in case.get('pbc0', pbc)]
    hist = case_history(case)
    if final_pbc(pbc0, hist) != pbc:
        raise HarnessError("case['pbc'] is not the periodicity its history ends with")
    system, V, o, s, x, props, ctx = build_system(am, case, pbc0, exact=exact)
    if ctx_out is not None:
        ctx_out.update(int_stored=ctx['int_stored'], pos_dtype=ctx['pos_dtype'],
                       given=str(ctx['forms'].get('int_dtype', 'list of Python ints')))
    n = len(s)
    at0 = atypes(n)
    labels = cell_labels5(c)
    scale_labels(ctx['L'], labels)
    form_labels(ctx, labels)
    if not ctx['changed']:
        Vc = np.array(system.box.vects, dtype=float)
        require(np.abs(Vc - V).max() <= 1e-8 * float(np.abs(V).max()), lambda: 'System construction changed the cell: %r -> %r' % (V, Vc))
        require(np.array_equal(np.array(system.atoms.pos, dtype=float), x), 'System construction changed the positions')
    pre_scribble(case, system, ctx, labels)
    system = apply_history(am, system, hist, ctx, labels)
    if ctx['changed']:
        # the judged input is the system as its history left it
        exact = False
        V = np.array(system.box.vects, dtype=float); o = np.array(system.box.origin, dtype=float)
        x = np.array(system.atoms.pos, dtype=float); s = rel_coords(x, V, o)
        require(x.shape == (n, 3) and np.all(np.isfinite(x)) and np.all(np.isfinite(V)) and abs(np.linalg.det(V)) > 0,
                'the history left a system without a finite cell / positions')
    if pbc != pbc0:
        labels.add('pbc_changed')
    if pbc != ctx['cached']:
        # the periodicity now differs from the one last given to the constructor / the setter of this object
        labels.add('pbc_inplace')
    labels.add('pbc%d' % sum(pbc))
    if 0 < sum(pbc) < 3:
        labels.add('mixed_pbc')
    cond = float(np.linalg.cond(V))
    vmax, omax = float(np.abs(V).max()), float(np.abs(o).max())
    smax = max(1.0, float(np.abs(s).max()))
    xmax = float(np.abs(x).max())
    if smax > 8:
        labels.add('far')
    if cond > 1e3:
        labels.add('illcond')
    Vb = np.array(system.box.vects, dtype=float)      # as stored (floor applied)
    labels.discard('lefthanded')
    if np.linalg.det(Vb) < 0:
        labels.add('lefthanded')
    Vrh = Vb.copy()
    if np.linalg.det(Vb) < 0:
        Vrh[2] = -Vrh[2]
    shape_labels(Vrh, labels)
    require(np.abs(Vb - V).max() <= 1e-8 * vmax, lambda: 'the cell changed during a history that only reads / changes the periodicity: %r -> %r' % (V, Vb))
    x0 = np.array(system.atoms.pos, dtype=float)
    require(np.array_equal(x0, x), 'the positions changed during a history that only reads / changes the periodicity')

    if exact:
        R = np.linalg.inv(Vb)
        Lx = ctx['L']         # a power of two: scaling by it is exact
        if not (math.frexp(Lx)[0] == 0.5 and _is_dyadic(R * Lx) and _is_dyadic(Vb / Lx, 8) and np.array_equal(Vb @ R, np.eye(3)) and np.array_equal(Vb, V)):
            exact = False
            labels.add('not_exact')
        else:
            labels.add('exact')

    # relative coordinates before the call (own solve, stored cell)
    s0 = rel_coords(x, Vb, o)
    band0 = inside_band(Vb, o, smax, xmax)
    out_before = bool(np.any((s0 < -band0) | (s0 > 1 + band0)))
    onface = bool(np.any((s == 0.0) | (s == 1.0)))

    sym0 = tuple(system.symbols)
    pre = None
    if any(op['op'] == 'again' for op in (case.get('after') or [])):
        import copy
        pre = copy.deepcopy(system)
    ret = system.wrap(return_imageflags=True) if case['ret'] else system.wrap()

    V1 = np.array(system.box.vects, dtype=float)
    o1 = np.array(system.box.origin, dtype=float)
    x1 = np.array(system.atoms.pos, dtype=float)
    require(x1.shape == (n, 3) and np.all(np.isfinite(x1)) and np.all(np.isfinite(V1)) and np.all(np.isfinite(o1)),
            lambda: 'wrap produced non-finite / mis-shaped data: pos %r vects %r origin %r' % (x1, V1, o1))
    v1max = float(np.abs(V1).max())

    # --- untouched: pbc, symbols, atype, properties (row aligned)
    require([bool(p) for p in system.pbc] == pbc, lambda: 'wrap changed pbc %r -> %r' % (pbc, list(system.pbc)))
    check_props(system, at0, props, 'wrap')
    require(tuple(system.symbols) == sym0, lambda: 'wrap changed symbols %r -> %r' % (sym0, system.symbols))

    # --- image flags
    if case['ret']:
        labels.add('flags_returned')
        require(isinstance(ret, np.ndarray) and ret.shape == (n, 3), lambda: 'imageflags is %r (shape %r), expected (%d,3) array' % (type(ret), getattr(ret, 'shape', None), n))
        require(np.issubdtype(ret.dtype, np.integer), lambda: 'imageflags dtype %r is not integer' % ret.dtype)
        flags = np.array(ret, dtype=np.int64)
    else:
        require(ret is None, lambda: 'wrap() without return_imageflags returned %r' % (ret,))
        # there must exist integer flags: deduce them
        f = rel_coords(x - x1, Vb, np.zeros(3))
        flags = np.rint(f).astype(np.int64)
    for k in range(3):
        if not pbc[k]:
            require(not flags[:, k].any(), lambda: 'non-periodic axis %d has non-zero image flags %r (pbc %r)' % (k, flags[:, k].tolist(), pbc))
    # pos_before - pos_after = flags . V  (moves by whole cell vectors, periodic directions only; nothing else moves)
    moved = x - x1
    expect = flags.astype(float) @ Vb
    tol_x = 0.0 if exact else _TS * 2e-14 * cond * (smax * vmax * 3 + omax)
    err = float(np.abs(moved - expect).max())
    require(err <= tol_x, lambda: 'positions before - after differ from imageflags.vects by %.3g (tol %.3g); pbc %r flags %r\nrel before %r\nmoved (in cell vectors) %r'
            % (err, tol_x, pbc, flags.tolist(), s0.tolist(), rel_coords(moved, Vb, np.zeros(3)).tolist()))
    # ... and row by row: every atom is moved by its own computation (relative coordinate of that atom, floor, back), so the
    # error of a row scales with the size of THAT row, not with the largest coordinate in the array (same constants as above)
    srow = np.maximum(1.0, np.abs(s0).max(axis=1))
    tol_rows = 0.0 * srow if exact else _TS * 2e-14 * cond * (srow * vmax * 3 + omax)
    err_rows = np.abs(moved - expect).max(axis=1)
    if np.any(err_rows > tol_rows):
        i = int(np.argmax(err_rows - tol_rows))
        raise Violation('atom %d (relative coordinates %r, the largest in the system: %.3g): position before - after differs from imageflags.vects by %.3g, '
                        'tolerance for a row of this size %.3g' % (i, s0[i].tolist(), smax, err_rows[i], tol_rows[i]))
    smag = np.abs(s0).max(axis=1)
    if smag.min() > 0 and smag.max() >= 1e8 * smag.min():
        labels.add('decades')                 # the relative coordinates of the rows span 8 or more orders of magnitude

    # --- cell: periodic rows unchanged, non-periodic only grows (old cell inside the new one)
    for k in range(3):
        if pbc[k]:
            e = float(np.abs(V1[k] - Vb[k]).max())
            require(e <= (0.0 if exact and all(pbc) else 1e-8 * v1max),
                    lambda: 'cell vector %d is periodic but changed: %r -> %r (pbc %r)' % (k, Vb[k].tolist(), V1[k].tolist(), pbc))
    require(abs(np.linalg.det(V1)) > 0 and np.linalg.det(V1) * np.linalg.det(Vb) > 0,
            lambda: 'wrap changed the handedness / collapsed the cell: det %r -> %r' % (np.linalg.det(Vb), np.linalg.det(V1)))
    s1 = rel_coords(x1, V1, o1)
    x1max = float(np.abs(x1).max())
    band1 = inside_band(V1, o1, 1.0, x1max) + (0.0 if exact else _TS * 1e-13 * cond * smax)
    corners = np.array([[i, j, k] for i in (0.0, 1.0) for j in (0.0, 1.0) for k in (0.0, 1.0)])
    cs = rel_coords(corners @ Vb + o, V1, o1)
    bandc = inside_band(V1, o1, 1.0, float(np.abs(corners @ Vb + o).max()))
    badc = (cs < -bandc) | (cs > 1 + bandc)
    require(not badc.any(), lambda: 'the cell did not only grow: corners of the old cell have relative coordinates %r in the new cell (pbc %r)' % (cs.tolist(), pbc))

    # --- every atom inside the new cell
    bad = (s1 < -band1) | (s1 > 1 + band1)
    require(not bad.any(), lambda: 'atoms outside the cell after wrap: relative coordinates %r (band %r), pbc %r, before %r'
            % (s1[bad.any(axis=1)].tolist(), band1.tolist(), pbc, s0[bad.any(axis=1)].tolist()))
    if np.any((np.abs(s1) < band1) | (np.abs(s1 - 1) < band1)):
        labels.add('after_on_face')
    if exact:
        # planes of a periodic axis are unchanged, so the coordinate along it in the OLD cell decides, exactly
        R = np.linalg.inv(Vb)
        se = (x1 - o) @ R
        for k in range(3):
            if pbc[k]:
                require(bool(np.all((se[:, k] >= 0.0) & (se[:, k] <= 1.0))),
                        lambda: 'exact inputs: periodic axis %d coordinate after wrap %r not in [0,1] (before %r)' % (k, se[:, k].tolist(), s[:, k].tolist()))
    # a non-periodic axis with an atom beyond its faces: the cell had to be enlarged along it (atoms did not move: above)
    if any((not pbc[k]) and (np.any(s0[:, k] < -band0[k]) or np.any(s0[:, k] > 1 + band0[k])) for k in range(3)):
        labels.add('grew')
    if any(pbc[k] and (np.any(s0[:, k] < -band0[k]) or np.any(s0[:, k] > 1 + band0[k])) for k in range(3)):
        labels.add('wrapped')
    if np.abs(flags).max() >= 2:
        labels.add('multi_image')
    if any(pbc[k] != ctx['cached'][k] and (np.any(s0[:, k] < -band0[k]) or np.any(s0[:, k] > 1 + band0[k])) for k in range(3)):
        # an axis whose periodicity was changed in place since the last constructor / setter call, with an atom beyond its faces
        labels.add('inplace_toggled_out')
    if out_before:
        labels.add('outside_before')
    if onface:
        labels.add('onface')
    if n >= 2:
        labels.add('multi')
    if case['nprops']:
        labels.add('props')
    if out_before and (labels & {'tilted', 'lefthanded', 'mixed_pbc'}):
        labels.add('nt')
    near_labels(s0, band0, labels)
    if case.get('single') and n >= 2:
        # many decades in one call: the smallest and the largest row, each wrapped alone in the same cell, end where they ended
        # in the company of the others (rows within the undecided band of a face excepted: one image either way)
        for i in sorted({int(np.argmin(smag)), int(np.argmax(smag))}):
            one = am.System(atoms=am.Atoms(pos=x[i:i + 1].copy()), box=am.Box(vects=Vb.copy(), origin=o.copy()), pbc=list(pbc))
            one.wrap()
            dx = np.array(one.atoms.pos, dtype=float)[0] - x1[i]
            if np.any(np.abs(s0[i] - np.rint(s0[i])) <= band0):
                # within the undecided band of a face: one image either way along a periodic direction
                m = np.rint(rel_coords(dx[None, :], Vb, np.zeros(3))[0]) * np.array(pbc, dtype=float)
                dx = dx - m @ Vb
            e1 = float(np.abs(dx).max())
            require(e1 <= 2 * tol_rows[i], lambda: 'atom %d (relative coordinates %r) wrapped alone ends at %r, wrapped together with atoms up to %.3g cells away at %r'
                    % (i, s0[i].tolist(), np.array(one.atoms.pos)[0].tolist(), smax, x1[i].tolist()))
            labels.add('single_row')
    after_wrap(am, case, system, pre, ret, ctx, labels)
    return labels


def oracle_wrap_exact(case):
    return oracle_wrap(case, exact=True)


# ----------------------------------------------------------------------------- normalize

@keyed_for_integer_positions
def oracle_normalize(case, ctx_out=None):
    import atomman as am
    from atomman.lammps import normalize as lmp_normalize
    c = case['cell']
    pbc = [True, True, True]
    pbc0 = [bool(p) for p in case.get('pbc0', pbc)]
    hist = case_history(case)
    if final_pbc(pbc0, hist) != pbc:
        raise HarnessError('normalize case whose history does not end fully periodic')
    labels = cell_labels5(c)
    if float(np.linalg.cond(cell_vects5(c))) > 1e3:
        return labels | {'illcond_skipped'}
    system, V, o, s, x, props, ctx = build_system(am, case, pbc0)
    if ctx_out is not None:
        ctx_out.update(int_stored=ctx['int_stored'], pos_dtype=ctx['pos_dtype'],
                       given=str(ctx['forms'].get('int_dtype', 'list of Python ints')))
    n = len(s)
    at0 = atypes(n)
    scale_labels(ctx['L'], labels)
    form_labels(ctx, labels)
    pre_scribble(case, system, ctx, labels)
    system = apply_history(am, system, hist, ctx, labels)
    if ctx['changed']:
        # the judged input is the system as its history left it
        V = np.array(system.box.vects, dtype=float); o = np.array(system.box.origin, dtype=float)
        x = np.array(system.atoms.pos, dtype=float)
        require(x.shape == (n, 3) and np.all(np.isfinite(x)) and np.all(np.isfinite(V)) and abs(np.linalg.det(V)) > 0,
                'the history left a system without a finite cell / positions')
        s = rel_coords(x, V, o)
    cond = float(np.linalg.cond(V))
    if cond > 1e3:
        return labels | {'illcond_skipped'}
    if pbc != pbc0:
        labels.add('pbc_changed')
    if pbc != ctx['cached']:
        labels.add('pbc_inplace')
    vmax, omax = float(np.abs(V).max()), float(np.abs(o).max())
    smax = max(1.0, float(np.abs(s).max()))
    xmax = float(np.abs(x).max())
    if smax > 8:
        labels.add('far')
    Vb = np.array(system.box.vects, dtype=float)
    s0 = rel_coords(x, Vb, o)
    band0 = inside_band(Vb, o, smax, xmax)
    out_before = bool(np.any((s0 < -band0) | (s0 > 1 + band0)))
    if any((not ctx['cached'][k]) and (np.any(s0[:, k] < -band0[k]) or np.any(s0[:, k] > 1 + band0[k])) for k in range(3)):
        # an axis made periodic in place since the last constructor / setter call, with an atom beyond its faces
        labels.add('inplace_toggled_out')
    snap = snapshot(system)

    via = case['via']
    if via == 'method':
        f = lambda **kw: system.normalize(**kw)
    elif via == 'method_style':
        f = lambda **kw: system.normalize(style='lammps', **kw)           # the style option given explicitly
    elif via == 'method_pos':
        f = lambda **kw: system.normalize('lammps', *([True] if kw.get('return_transform') else []))      # positionally
    elif via == 'function':
        f = lambda **kw: lmp_normalize(system, **kw)
    else:
        raise HarnessError('via %r' % (via,))
    labels.add('via_' + ('method' if via.startswith('method') else via))
    if via in ('method_style', 'method_pos'):
        labels.add('via_style_given')
    if case['ret']:
        res = guarded_normalize(system, lambda: f(return_transform=True))
        require(isinstance(res, tuple) and len(res) == 2, lambda: 'normalize(return_transform=True) returned %r' % type(res))
        new, T = res
        T_raw = T
        T = np.array(T, dtype=float)
        require(T.shape == (3, 3) and np.all(np.isfinite(T)), lambda: 'transform is not a finite 3x3 array: %r' % (T,))
        labels.add('transform_returned')
    else:
        new = guarded_normalize(system, f)
        T = T_raw = None
    require(isinstance(new, am.System), lambda: 'normalize returned %r, not a System' % type(new))

    # --- the input system is left as it was (bitwise), and the result is a new object sharing nothing with it
    require(new is not system and new.box is not system.box and new.atoms is not system.atoms, 'normalize returned (parts of) its argument instead of a new system')
    after = snapshot(system)
    require(np.array_equal(after['vects'], snap['vects']) and np.array_equal(after['origin'], snap['origin']),
            lambda: 'normalize changed the cell of its argument: vects %r -> %r, origin %r -> %r' % (snap['vects'].tolist(), after['vects'].tolist(), snap['origin'].tolist(), after['origin'].tolist()))
    require(after['pbc'] == snap['pbc'] and after['symbols'] == snap['symbols'] and after['natoms'] == snap['natoms'] and after['keys'] == snap['keys'],
            'normalize changed pbc/symbols/natoms/property list of its argument')
    for k in snap['keys']:
        require(same_array(after['props'][k], snap['props'][k]), lambda: 'normalize changed per-atom property %r of its argument: %r -> %r' % (k, snap['props'][k].tolist(), after['props'][k].tolist()))
    require(not np.shares_memory(np.asarray(new.atoms.view['pos']), np.asarray(system.atoms.view['pos'])), 'result positions share memory with the argument')

    # --- new cell: right-handed, LAMMPS-compatible
    V1 = np.array(new.box.vects, dtype=float)
    o1 = np.array(new.box.origin, dtype=float)
    x1 = np.array(new.atoms.pos, dtype=float)
    require(V1.shape == (3, 3) and np.all(np.isfinite(V1)) and x1.shape == (n, 3) and np.all(np.isfinite(x1)) and np.all(np.isfinite(o1)),
            'normalize produced non-finite / mis-shaped data')
    require(V1[0, 1] == 0.0 and V1[0, 2] == 0.0 and V1[1, 2] == 0.0 and V1[0, 0] > 0 and V1[1, 1] > 0 and V1[2, 2] > 0,
            lambda: 'new cell is not LAMMPS-compatible: %r' % V1.tolist())
    require(np.linalg.det(V1) > 0, 'new cell is not right-handed')
    require([bool(p) for p in new.pbc] == pbc, lambda: 'normalize changed pbc to %r' % list(new.pbc))
    require(tuple(new.symbols) == snap['symbols'], lambda: 'normalize changed symbols %r -> %r' % (snap['symbols'], new.symbols))
    # scalar properties are carried row by row; a vector property is only required to keep its shape
    check_props(new, at0, props, 'normalize', exact_keys=('charge', 'tag'))

    # --- same lengths, angles, volume (of the cell with its third vector reversed if it was left-handed)
    Vref = Vb.copy()
    lh = np.linalg.det(Vb) < 0
    if bool(lh) != (cell_lefthanded(c) != bool(ctx['lh_flip'])):
        raise HarnessError('handedness of the generated cell')
    labels.discard('lefthanded')
    if lh:
        labels.add('lefthanded')
    if lh:
        Vref[2] = -Vref[2]
    shape_labels(Vref, labels)
    p0, p1 = my_params(Vref), my_params(V1)
    reltol = _TS * (1e-8 + 40 * EPS * cond ** 2)
    # what the documented floor of Box.vects may take away from the rebuilt cell (tilts below 1e-9 of its largest component are zeroed):
    # dfl as a length, afl as a strain / angle (see floor_loss).  Zero / rounding-sized unless the cell is next to that threshold.
    dfl, afl = floor_loss(Vref)
    if dfl > 1e-12 * vmax:
        labels.add('floor_active')
    for i, nm in enumerate(('a', 'b', 'c')):
        require(abs(p1[i] - p0[i]) <= reltol * vmax + dfl, lambda: 'length %s changed: %.15g -> %.15g%s' % (nm, p0[i], p1[i], ' (left-handed input)' if lh else ''))
    for i, nm in ((3, 'alpha'), (4, 'beta'), (5, 'gamma')):
        e = abs(math.cos(math.radians(p1[i])) - math.cos(math.radians(p0[i])))
        require(e <= reltol + 2 * afl, lambda: 'angle %s changed: %.12g -> %.12g deg%s' % (nm, p0[i], p1[i], ' (left-handed input, third vector reversed)' if lh else ''))
    vol0, vol1 = abs(float(np.linalg.det(Vb))), float(np.linalg.det(V1))
    require(abs(vol1 - vol0) <= 6 * reltol * p0[0] * p0[1] * p0[2], lambda: 'volume changed %.15g -> %.15g' % (vol0, vol1))

    # --- returned transform: proper rotation taking the old vectors to the new ones
    Tuse = None
    if T is not None:
        e = float(np.abs(T @ T.T - np.eye(3)).max())
        require(e <= 1e-7 + 4 * afl, lambda: 'transform is not orthonormal: |T.T^T - I| = %.3g\n%r' % (e, T))
        d = float(np.linalg.det(T))
        require(d > 0 and abs(d - 1) <= 1e-6 + 4 * afl, lambda: 'transform is not a proper rotation: det = %.12g%s' % (d, ' (left-handed input)' if lh else ''))
        e = float(np.abs(Vref @ T.T - V1).max())
        require(e <= _TS * (1e-8 + 200 * EPS * cond ** 2) * vmax, lambda: 'new vectors are not transform . old vectors: differ by %.3g\nold %r\nnew %r\nT %r' % (e, Vref.tolist(), V1.tolist(), T.tolist()))
        Tuse = T

    # --- every atom inside
    s1 = rel_coords(x1, V1, o1)
    band1 = inside_band(V1, o1, 1.0, float(np.abs(x1).max())) + _TS * 1e-13 * cond * smax
    bad = (s1 < -band1) | (s1 > 1 + band1)
    require(not bad.any(), lambda: 'atoms outside the new cell: relative coordinates %r (band %r)' % (s1[bad.any(axis=1)].tolist(), band1.tolist()))
    if np.any((np.abs(s1) < band1) | (np.abs(s1 - 1) < band1)):
        labels.add('after_on_face')

    # --- all true nearest-image distances unchanged (pair by pair; atoms keep their rows, checked above through the tags)
    if n >= 2:
        ni0, ni1 = NearestImage(Vb, pbc), NearestImage(V1, pbc)
        smag = np.abs(s0).max(axis=1)
        if smag.min() > 0 and smag.max() >= 1e8 * smag.min():
            labels.add('decades')
        # positions error: relative coordinates are carried with error eps*cond*smax, times the cell size
        tol_d = (reltol * vmax * 3) + _TS * 1e-13 * cond * (smax * vmax * 3 + omax) + 3 * dfl * cond
        for i in range(n):
            for j in range(i + 1, n):
                r0 = ni0.search(x[j] - x[i])
                r1 = ni1.search(x1[j] - x1[i])
                # the separation of a pair is computed from its two rows only: the position term scales with the larger of the two
                tol_ij = (reltol * vmax * 3) + _TS * 1e-13 * cond * (max(1.0, smag[i], smag[j]) * vmax * 3 + omax) + 3 * dfl * cond
                require(abs(r0['L'] - r1['L']) <= tol_ij, lambda: 'nearest-image distance of atoms %d,%d changed %.12g -> %.12g (tolerance for rows of this size %.3g; largest coordinate in the system %.3g)' % (i, j, r0['L'], r1['L'], tol_ij, smax))
                require(abs(r0['L'] - r1['L']) <= tol_d,
                        lambda: 'nearest-image distance of atoms %d,%d changed %.12g -> %.12g (tol %.3g)%s; relative before %r %r after %r %r'
                        % (i, j, r0['L'], r1['L'], tol_d, ' (left-handed input)' if lh else '', s0[i].tolist(), s0[j].tolist(), s1[i].tolist(), s1[j].tolist()))
                # moved only by a rotation and lattice vectors: the separation vector is the rotated old one up to a
                # lattice vector of the new cell (a common translation of all atoms is allowed)
                if Tuse is not None:
                    dv = (x1[j] - x1[i]) - Tuse @ (x[j] - x[i])
                    m = rel_coords(dv[None, :], V1, np.zeros(3))[0]
                    em = float(np.abs(m - np.rint(m)).max())
                    tol_m = float((inside_band(V1, np.zeros(3), smax, 0.0) + _TS * 1e-13 * cond * (smax + omax / vmax) + 3 * (reltol + _TS * 200 * EPS * cond ** 2) * smax * cond).max()) + 4 * afl * smax * cond
                    require(em <= tol_m, lambda: 'separation of atoms %d,%d is not the rotated old separation plus a lattice vector: residual %r cell vectors (tol %.3g)' % (i, j, m.tolist(), tol_m))
        labels.add('pairs')
    if out_before:
        labels.add('outside_before')
    if case['nprops']:
        labels.add('props')
    if bool(np.any((s == 0.0) | (s == 1.0))):
        labels.add('onface')
    if out_before and (labels & {'tilted', 'lefthanded', 'rotated', 'sym', 'lowertri_negdiag'}):
        labels.add('nt')
    near_labels(s0, band0, labels)
    after_normalize(am, case, system, snap, new, T_raw, f, ctx, labels)
    return labels


# ----------------------------------------------------------------------------- enumerated option combinations
#
# Everything that can be combined around one call and touches the same state, enumerated instead of sampled: the periodicity
# given to the constructor (all 8), changed afterwards or not (element-wise in place / through the setter), an earlier call on the
# same object BEFORE and another AFTER that change - each of: none, wrap with / without image flags, normalize as method / as
# function with the transform, a wrap of another system - and between the two the periodicity changed and / or an atom moved out of the
# cell in place: every ordered pair and triple of (call, change, call),
# then the judged call with each of its own options (wrap: return_imageflags; normalize: method / style given / positional / function
# x return_transform), followed by a repetition ('again').  Judged by the same oracles as the sampled clauses.

_ENUM_CELLS = [
    # left-handed, tilted, rigidly rotated, origin
    {'lx': 3.2, 'ly': 4.1, 'lz': 5.3, 'xy': 1.3, 'xz': -0.7, 'yz': 2.2, 'origin': [0.4, -1.3, 2.6], 'rot': [[1, -2, 3], 37.5], 'lefthanded': True},
    # LAMMPS form turned by 180 degrees about z (lower triangular, negative diagonal entries)
    {'lx': 2.5, 'ly': 3.5, 'lz': 4.0, 'xy': -1.0, 'xz': 0.5, 'yz': 1.5, 'origin': [0.0, 0.0, 0.0], 'rot': None, 'lefthanded': False,
     'sym': {'m': 0, 'p': 0, 's': 6}},
    # already in LAMMPS form, metres
    {'lx': 4.05, 'ly': 4.05, 'lz': 6.1, 'xy': 0.0, 'xz': 0.0, 'yz': -2.025, 'origin': [1.0, 2.0, 3.0], 'rot': None, 'lefthanded': False, 'scale': 1e-10},
    # cyclically renamed and mirrored
    {'lx': 6.0, 'ly': 2.0, 'lz': 3.0, 'xy': 3.0, 'xz': 0.0, 'yz': 1.0, 'origin': [-5.0, 0.5, 0.0], 'rot': None, 'lefthanded': False,
     'sym': {'m': 21, 'p': 4, 's': 1}},
]
_ENUM_REL = [[-0.25, 0.5, 1.75], [0.0, 1.0, 0.5], [2.5, -3.25, 0.125], [0.3, 0.6, 0.9], [-17.5, 1.0, 41.0625]]
_ENUM_PRIORS = [None, {'op': 'wrap', 'ret': True}, {'op': 'wrap', 'ret': False}, {'op': 'read', 'what': 'normalize'},
                {'op': 'read', 'what': 'lmp_normalize_ret'}, {'op': 'other_wrap', 'pbc': [False, True, False]}]
_ENUM_PRIORS_QUICK = [p for p in _ENUM_PRIORS if p is None or p.get('what') != 'normalize']
_ENUM_FORMS = {'pos': 'float', 'box': 'array', 'pbc': 'list', 'scaled': False, 'safecopy': False, 'idt': 0}


_ENUM_EDIT = {'op': 'pos', 'via': 'inplace', 'i': 3, 'd': [-2.0, 0.5, 3.0]}       # an atom moved out of the cell, in place


# the cell moved rigidly by a non-lattice vector, atoms staying where they are (only the origin changes)
_ENUM_SHIFT = {'op': 'box_set', 'via': 'vects', 'f': [1.0, 1.0, 1.0], 'd': [0.5, -0.25, 1.0], 'scale': False}


def _enum_hists(pbc0, pbc1, hows, priors):
    """[earlier call] + [what changes in between: nothing / an atom moved in place / the cell moved, each without and with a change
    of the periodicity] + [earlier call]"""
    out = []
    for p1 in priors:
        for p2 in priors:
            for how in (hows if pbc1 != pbc0 else [None]):
                for edit in (None, _ENUM_EDIT, _ENUM_SHIFT):
                    h = [] if p1 is None else [dict(p1)]
                    if how is not None:
                        h.append({'op': 'pbc', 'how': how, 'to': list(pbc1)})
                    if edit:
                        h.append(dict(edit))
                    if p2 is not None:
                        h.append(dict(p2))
                    out.append(h)
    return out


def wrap_enum(tier):
    quick = tier == 'quick'
    cases = []
    for ci, c in enumerate(_ENUM_CELLS[:1] if quick else _ENUM_CELLS):
        for k, pbc0 in enumerate(_PBCS[::2] if quick else _PBCS):
            toggled = list(pbc0)
            toggled[k % 3] = not toggled[k % 3]
            for pbc1 in ([pbc0, toggled] if quick else _PBCS):
                for hist in _enum_hists(pbc0, pbc1, ['elem'] if quick else ['elem', 'setter_list'], _ENUM_PRIORS_QUICK if quick else _ENUM_PRIORS):
                    for ret in (True, False):
                        cases.append({'cell': dict(c), 'pbc0': list(pbc0), 'pbc': list(pbc1), 'rel': _ENUM_REL, 'nprops': 2, 'ret': ret, 'symbols': False,
                                      'hist': hist, 'forms': dict(_ENUM_FORMS), 'after': [{'op': 'again'}]})
    return cases


def normalize_enum(tier):
    quick = tier == 'quick'
    cases = []
    full = [True, True, True]
    for c in (_ENUM_CELLS[:1] if quick else _ENUM_CELLS):
        for pbc0 in ((full, [True, False, True]) if quick else (full, [True, False, True], [False, False, False])):
            for hist in _enum_hists(pbc0, full, ['elem'] if quick else ['elem', 'setter_list'], _ENUM_PRIORS_QUICK if quick else _ENUM_PRIORS):
                for via in ('method', 'method_style', 'method_pos', 'function'):
                    for ret in (True, False):
                        cases.append({'cell': dict(c), 'rel': _ENUM_REL, 'nprops': 2, 'ret': ret, 'via': via, 'symbols': False,
                                      'pbc0': list(pbc0), 'hist': hist, 'forms': dict(_ENUM_FORMS), 'after': [{'op': 'again'}]})
    return cases


CLAUSES = [
    Clause('wrap', oracle_wrap, wrap_cases, quick=4800, thorough=160000,
           min_share={'scaled': 0.22, 'scale_1': 0.22, 'scale_si': 0.08, 'scale_small': 0.12, 'scale_large': 0.09,
                      'nt': 0.34, 'lefthanded': 0.2, 'tilted': 0.3, 'mixed_pbc': 0.3, 'pbc3': 0.12, 'pbc0': 0.04, 'grew': 0.25,
                      'wrapped': 0.3, 'multi_image': 0.25, 'far': 0.04, 'props': 0.3, 'flags_returned': 0.34, 'onface': 0.36,
                      'hist': 0.25, 'pbc_changed': 0.12, 'pbc_inplace': 0.07, 'inplace_toggled_out': 0.05, 'pbc_elem': 0.1,
                      'pbc_setter': 0.079, 'forms': 0.35, 'pbc_form': 0.28, 'box_form': 0.2, 'pos_scaled_ctor': 0.051,
                      'pos_list': 0.05, 'hist_rebuild': 0.05, 'hist_read': 0.06, 'hist_box_set': 0.025, 'hist_pos_edit': 0.03,
                      'prior_wrap': 0.03, 'prior_scaled_read': 0.07,
                      'sym': 0.15, 'sym_diag': 0.1, 'sym_perm': 0.043, 'lowertri_negdiag': 0.085, 'hist_box_reversed': 0.018,
                      'pos_int': 0.08, 'pos_int_not64': 0.041, 'pos_int_narrow': 0.024, 'pos_int_unsigned': 0.017, 'pos_int_bool': 0.008,
                      # generator classes carried over from other properties (result ledger, caller side, storage dtypes of the cell,
                      # near-threshold values, many decades in one call): half of the smallest share seen at seeds 1-4
                      'after': 0.173, 'ledger': 0.145, 'ledger_other': 0.078, 'ledger_same_n': 0.017, 'again': 0.069, 'caller_out': 0.036,
                      'caller_in': 0.14, 'caller_in_before': 0.1, 'reuse': 0.032, 'near_face': 0.189, 'near_face_decided': 0.119,
                      'near_face_1e-7': 0.085, 'near_cell': 0.11, 'tiny_tilt': 0.077, 'tiny_tilt_floored': 0.053, 'tiny_tilt_1e-9_1e-5': 0.023,
                      'tiny_rot': 0.028, 'near_equal_len': 0.038, 'decades': 0.03, 'single_row': 0.046, 'box_dtype': 0.097, 'box_f32': 0.056,
                      'box_f16': 0.013, 'box_int': 0.016, 'pbc_int8': 0.059},
           desc='wrap: moves = imageflags.vects on periodic axes only, periodic vectors unchanged, cell only grows, all atoms inside, properties untouched; after any history, every input form, every length unit'),
    Clause('wrap_exact', oracle_wrap_exact, wrap_exact_cases, quick=2100, thorough=55000,
           min_share={'scaled': 0.22, 'scale_1': 0.22, 'scale_si': 0.08, 'scale_small': 0.12, 'scale_large': 0.09,
                      'exact': 0.47, 'nt': 0.34, 'onface': 0.36, 'far': 0.3, 'pbc3': 0.1, 'mixed_pbc': 0.3,
                      'sym': 0.15, 'sym_diag': 0.09, 'sym_perm': 0.06, 'lowertri_negdiag': 0.07,
                      'hist': 0.25, 'pbc_changed': 0.15, 'pbc_inplace': 0.08, 'inplace_toggled_out': 0.07, 'forms': 0.35,
                      'pos_int': 0.08, 'pos_int_not64': 0.041, 'pos_int_narrow': 0.024, 'pos_int_unsigned': 0.017, 'pos_int_bool': 0.008, 'pos_float32': 0.02,
                      'after': 0.188, 'ledger': 0.154, 'ledger_other': 0.075, 'ledger_same_n': 0.015, 'again': 0.073, 'caller_out': 0.039,
                      'caller_in': 0.125, 'caller_in_before': 0.1, 'reuse': 0.028, 'near_face': 0.05, 'near_face_decided': 0.041,
                      'near_face_1e-7': 0.035, 'box_dtype': 0.097, 'box_f32': 0.064, 'box_f16': 0.014, 'box_int': 0.012, 'pbc_int8': 0.068},
           desc='wrap on exactly representable inputs (atoms exactly on faces, far outside): zero tolerance, zero band on periodic axes; after exactness-preserving histories'),
    Clause('normalize', oracle_normalize, normalize_cases, quick=3300, thorough=110000,
           min_share={'scaled': 0.22, 'scale_1': 0.22, 'scale_si': 0.07, 'scale_small': 0.12, 'scale_large': 0.09,
                      'nt': 0.34, 'lefthanded': 0.2, 'rotated': 0.16, 'tilted': 0.3, 'pairs': 0.35, 'transform_returned': 0.3,
                      'via_function': 0.12, 'far': 0.04, 'props': 0.3,
                      'hist': 0.35, 'pbc_changed': 0.3, 'pbc_inplace': 0.2, 'inplace_toggled_out': 0.15, 'forms': 0.35,
                      'hist_box_set': 0.03, 'hist_pos_edit': 0.03, 'hist_rebuild': 0.05,
                      'sym': 0.15, 'sym_diag': 0.1, 'sym_perm': 0.043, 'lowertri_negdiag': 0.085, 'lammps_form_input': 0.2,
                      'hist_box_reversed': 0.02,
                      'pos_int': 0.08, 'pos_int_not64': 0.041, 'pos_int_narrow': 0.024, 'pos_int_unsigned': 0.017, 'pos_int_bool': 0.008,
                      'after': 0.177, 'ledger': 0.15, 'ledger_other': 0.07, 'ledger_same_n': 0.014, 'again': 0.073, 'caller_out': 0.03,
                      'caller_in': 0.135, 'caller_in_before': 0.1, 'reuse': 0.035, 'near_face': 0.169, 'near_face_decided': 0.108,
                      'near_face_1e-7': 0.076, 'near_cell': 0.101, 'tiny_tilt': 0.07, 'tiny_tilt_floored': 0.048, 'tiny_tilt_1e-9_1e-5': 0.023,
                      'tiny_rot': 0.019, 'near_equal_len': 0.03, 'decades': 0.019, 'box_dtype': 0.098, 'box_f32': 0.055, 'box_f16': 0.017,
                      'box_int': 0.014, 'pbc_int8': 0.054, 'via_style_given': 0.11, 'floor_active': 0.011},
           max_share={'illcond_skipped': 0.05},
           desc='normalize: input untouched, new right-handed LAMMPS cell with same lengths/angles/volume, proper rotation maps old vectors to new, atoms inside, nearest-image distances unchanged; after any history ending fully periodic, every input form, every length unit'),
    Clause('wrap_enum', oracle_wrap, enumerate=wrap_enum,
           min_share={'nt': 0.2, 'again': 0.5, 'ledger': 0.5, 'pbc_inplace': 0.25, 'inplace_toggled_out': 0.1, 'prior_wrap': 0.27, 'hist_read': 0.18, 'hist_pos_edit': 0.16, 'hist_box_set': 0.16,
                      'hist_other_wrap': 0.15, 'flags_returned': 0.25, 'mixed_pbc': 0.37, 'pbc3': 0.06, 'grew': 0.19, 'wrapped': 0.2},
           desc='wrap for every combination, in every order, of: periodicity at construction (8) / changed afterwards in place or by the setter, an earlier wrap (with / without flags) / normalize (method / function with transform) / wrap of another system before and after that change, return_imageflags; each followed by a repetition on a copy'),
    Clause('normalize_enum', oracle_normalize, enumerate=normalize_enum,
           min_share={'nt': 0.2, 'again': 0.5, 'ledger': 0.5, 'pbc_inplace': 0.25, 'inplace_toggled_out': 0.13, 'prior_wrap': 0.27, 'hist_read': 0.18, 'hist_pos_edit': 0.16, 'hist_box_set': 0.16,
                      'hist_normalize_variant': 0.1, 'hist_other_wrap': 0.15, 'transform_returned': 0.25, 'via_style_given': 0.25, 'via_function': 0.12},
           desc='normalize for every combination, in every order, of: how it is called (method, style given by keyword / positionally, function) x return_transform, periodicity at construction / made periodic afterwards, an earlier wrap / normalize / wrap of another system before and after that change; each followed by a repetition'),
]
