"""C01 - One cell, many parameter sets: Box definitions and coordinate maps agree."""
import math

import numpy as np
from hypothesis import strategies as st

from ..core import Clause, Violation, require
from .. import gens

RULE = ("cells drawn in LAMMPS triangular form (lengths 0.5-50, tilts up to 1.5 lengths, crystal families, "
        "dyadic orthogonal cells), optionally rigidly rotated / shifted origin; constructing parameter set and "
        "read-back set drawn independently; points in relative coords [-2,3]^3 of several leading shapes, list or "
        "array.  Non-trivial: cell tilted or rotated or non-zero origin AND (roundtrip: read-back set differs from "
        "constructing set; posmaps/inside: >=1 point outside [0,1]^3 or on a face; recip_cache: >=2 different setters)")
ASSUMPTIONS = ["numpy linear algebra is correct", "cells with cond(vects) > 1e4 are exempt from the lattice-parameter route"]

EPS = 2.3e-16


# ----------------------------------------------------------------------------- independent helpers

def my_params(V):
    """a,b,c,alpha,beta,gamma (degrees) of row-vector matrix V, angles by atan2(|cross|, dot)"""
    a, b, c = (float(np.linalg.norm(V[i])) for i in range(3))
    def ang(u, v):
        return math.degrees(math.atan2(float(np.linalg.norm(np.cross(u, v))), float(np.dot(u, v))))
    return a, b, c, ang(V[1], V[2]), ang(V[0], V[2]), ang(V[0], V[1])


def build(am, setname, V, o, aslist, ints=None):
    """construct a Box from my numbers through the named parameter set"""
    conv = (lambda x: np.asarray(x, dtype=float).tolist()) if aslist else (lambda x: np.asarray(x, dtype=float))
    if setname == 'vects':
        return am.Box(vects=conv(V), origin=conv(o))
    if setname == 'avect':
        return am.Box(avect=conv(V[0]), bvect=conv(V[1]), cvect=conv(V[2]), origin=conv(o))
    if setname == 'abc':
        a, b, c, al, be, ga = my_params(V)
        return am.Box(a=a, b=b, c=c, alpha=al, beta=be, gamma=ga, origin=conv(o))
    if setname == 'lengths':
        L = [V[0, 0], V[1, 1], V[2, 2]]
        if ints:        # whole-number lengths given as integer-typed values (Python int / numpy int), tilts stay float
            L = [int(round(x)) for x in L] if ints == 'py' else [np.int64(round(x)) for x in L]
        return am.Box(lx=L[0], ly=L[1], lz=L[2], xy=V[1, 0], xz=V[2, 0], yz=V[2, 1], origin=conv(o))
    if setname == 'hilo':
        b = [o[0], o[0] + V[0, 0], o[1], o[1] + V[1, 1], o[2], o[2] + V[2, 2]]
        if ints:
            b = [int(round(x)) for x in b] if ints == 'py' else [np.int64(round(x)) for x in b]
        return am.Box(xlo=b[0], xhi=b[1], ylo=b[2], yhi=b[3], zlo=b[4], zhi=b[5],
                      xy=V[1, 0], xz=V[2, 0], yz=V[2, 1])
    raise ValueError(setname)


def rebuild(am, B, setname):
    """read the named parameter set from B and build a new Box from those numbers"""
    if setname == 'vects':
        return am.Box(vects=B.vects, origin=B.origin)
    if setname == 'avect':
        return am.Box(avect=B.avect, bvect=B.bvect, cvect=B.cvect, origin=B.origin)
    if setname == 'abc':
        return am.Box(a=B.a, b=B.b, c=B.c, alpha=B.alpha, beta=B.beta, gamma=B.gamma, origin=B.origin)
    if setname == 'lengths':
        return am.Box(lx=B.lx, ly=B.ly, lz=B.lz, xy=B.xy, xz=B.xz, yz=B.yz, origin=B.origin)
    if setname == 'hilo':
        return am.Box(xlo=B.xlo, xhi=B.xhi, ylo=B.ylo, yhi=B.yhi, zlo=B.zlo, zhi=B.zhi, xy=B.xy, xz=B.xz, yz=B.yz)
    raise ValueError(setname)


def cmp_cell(V, o, B, tolV, what, same_orientation, otol=None):
    Bv = np.asarray(B.vects, dtype=float)
    require(Bv.shape == (3, 3) and np.all(np.isfinite(Bv)), lambda: '%s: vects not finite 3x3: %r' % (what, Bv))
    vmax = np.abs(V).max()
    if same_orientation:
        err = np.abs(Bv - V).max()
        require(err <= tolV * vmax, lambda: '%s: vects differ by %.3g (tol %.3g)\nexpected\n%r\ngot\n%r'
                % (what, err, tolV * vmax, V, Bv))
    else:
        G0, G1 = V @ V.T, Bv @ Bv.T
        err = np.abs(G0 - G1).max()
        require(err <= 2 * tolV * vmax ** 2, lambda: '%s: Gram matrices differ by %.3g (tol %.3g)' % (what, err, 2 * tolV * vmax ** 2))
        d0, d1 = np.linalg.det(V), np.linalg.det(Bv)
        require(d0 * d1 > 0, lambda: '%s: handedness changed (det %.4g -> %.4g)' % (what, d0, d1))
        require(abs(abs(d0) - abs(d1)) <= 6 * tolV * vmax ** 3 , lambda: '%s: volume changed %.10g -> %.10g' % (what, d0, d1))
    if otol is None:
        otol = 1e-12 * (np.abs(o).max() + vmax)
    eo = np.abs(np.asarray(B.origin, dtype=float) - o).max()
    require(eo <= otol, lambda: '%s: origin differs by %.3g: expected %r got %r' % (what, eo, o, B.origin))


LAMMPS_SETS = ('vects', 'avect', 'abc', 'lengths', 'hilo')
FREE_SETS = ('vects', 'avect', 'abc')


# ----------------------------------------------------------------------------- roundtrip

@st.composite
def roundtrip_cases(draw):
    c = draw(gens.cells(scaled=True))
    compat = c['rot'] is None
    s1 = draw(st.sampled_from(LAMMPS_SETS if compat else ('vects', 'avect')))
    s2 = draw(st.sampled_from(LAMMPS_SETS))
    ints = None
    if compat and s1 in ('lengths', 'hilo') and draw(st.integers(0, 2)) == 0:
        # whole-number lengths and origin (tilts keep their fractional values), passed as integer-typed numbers
        c = dict(c, scale=1.0)
        for k in ('lx', 'ly', 'lz'):
            c[k] = float(max(1, round(c[k])))
        c['origin'] = [float(round(x)) for x in c['origin']]
        ints = draw(st.sampled_from(['py', 'np']))
    return {'cell': c, 'build': s1, 'read': s2, 'aslist': draw(st.booleans()), 'ints': ints}


def oracle_roundtrip(case):
    import atomman as am
    c = case['cell']
    V, o = gens.cell_vects(c), gens.cell_origin(c)
    cond = np.linalg.cond(V)
    labels = gens.cell_labels(c)
    compat = c['rot'] is None
    s1, s2 = case['build'], case['read']
    if cond > 1e4 and 'abc' in (s1, s2):
        return labels | {'illcond_skipped'}
    base = 1e-8
    abctol = base + 40 * EPS * cond ** 2
    B = build(am, s1, V, o, case['aslist'], case.get('ints'))
    if case.get('ints'):
        labels.add('int_typed_lengths')
    hilo_otol = 1e-12 * (np.abs(o).max() + np.abs(V).max())
    cmp_cell(V, o, B, abctol if s1 == 'abc' else base, 'construct via %s' % s1, compat, hilo_otol)
    require(bool(B.is_lammps_norm()) == compat or not compat,
            lambda: 'is_lammps_norm()=%r for a cell built in LAMMPS orientation via %s' % (B.is_lammps_norm(), s1))
    Bv, Bo = np.array(B.vects, dtype=float), np.array(B.origin, dtype=float)
    if not compat and not B.is_lammps_norm():
        if s2 in ('lengths', 'hilo'):
            try:
                rebuild(am, B, s2)
            except AssertionError:
                return labels | {'nonlammps_getter_refused'}
            raise Violation('LAMMPS getters (%s) on a non LAMMPS-compatible cell did not raise AssertionError' % s2)
    B2 = rebuild(am, B, s2)
    same = compat or s2 in ('vects', 'avect')
    tol = abctol if 'abc' in (s1, s2) else base
    # hi/lo arithmetic: xhi-xlo loses |origin|*eps
    if s2 == 'hilo':
        tol += 8 * EPS * np.abs(o).max() / np.abs(V).max()
    cmp_cell(Bv, Bo, B2, tol, 'rebuild via %s (built via %s)' % (s2, s1), same)
    cmp_cell(V, o, B2, tol + (abctol if s1 == 'abc' else base), 'rebuild via %s vs intended cell' % s2, same)
    if not same:
        require(B2.is_lammps_norm(), 'cell rebuilt from lattice parameters is not LAMMPS-compatible')
    if s1 != s2:
        labels.add('sets_differ')
        if labels & {'tilted', 'rotated', 'origin'}:
            labels.add('nt')
    labels.add('build_' + s1); labels.add('read_' + s2)
    return labels


# ----------------------------------------------------------------------------- getters

def oracle_getters(case):
    import atomman as am
    c = case['cell']
    V, o = gens.cell_vects(c), gens.cell_origin(c)
    labels = gens.cell_labels(c)
    B = build(am, case['build'], V, o, case['aslist'])
    vmax = np.abs(V).max()
    a, b, cc, al, be, ga = my_params(V)
    for name, exp in (('a', a), ('b', b), ('c', cc)):
        got = float(getattr(B, name))
        require(abs(got - exp) <= 1e-9 * vmax, lambda: 'Box.%s = %.15g, |vector| = %.15g' % (name, got, exp))
    for name, exp in (('alpha', al), ('beta', be), ('gamma', ga)):
        got = float(getattr(B, name))
        require(0.0 < got < 180.0, lambda: 'Box.%s = %r not in (0,180)' % (name, got))
        require(abs(math.cos(math.radians(got)) - math.cos(math.radians(exp))) <= 1e-8,
                lambda: 'Box.%s = %.12g deg, angle between the vectors = %.12g deg' % (name, got, exp))
    vol = abs(float(np.linalg.det(V)))
    require(abs(float(B.volume) - vol) <= 1e-8 * a * b * cc, lambda: 'Box.volume = %.15g, |det| = %.15g' % (B.volume, vol))
    for i, nm in enumerate(('avect', 'bvect', 'cvect')):
        require(np.abs(np.asarray(getattr(B, nm)) - V[i]).max() <= 1e-8 * vmax, lambda: 'Box.%s = %r, expected %r' % (nm, getattr(B, nm), V[i]))
    R = np.asarray(B.reciprocal_vects, dtype=float)
    cond = np.linalg.cond(V)
    dual = np.abs(np.asarray(B.vects) @ R.T - np.eye(3)).max()
    require(dual <= 1e-12 * cond, lambda: 'vects . reciprocal_vects^T deviates from identity by %.3g' % dual)
    # reciprocal vectors against cross products
    myR = np.array([np.cross(V[1], V[2]), np.cross(V[2], V[0]), np.cross(V[0], V[1])]) / np.linalg.det(V)
    require(np.abs(R - myR).max() <= (1e-8 + 1e-12 * cond) * np.abs(myR).max(),
            lambda: 'reciprocal_vects differ from (b x c, c x a, a x b)/V:\n%r\n%r' % (R, myR))
    if c['rot'] is None and not c.get('lefthanded'):
        exp = dict(lx=V[0, 0], ly=V[1, 1], lz=V[2, 2], xy=V[1, 0], xz=V[2, 0], yz=V[2, 1], xlo=o[0], ylo=o[1], zlo=o[2],
                   xhi=o[0] + V[0, 0], yhi=o[1] + V[1, 1], zhi=o[2] + V[2, 2])
        for k, e in exp.items():
            got = float(getattr(B, k))
            require(abs(got - e) <= 1e-9 * vmax + 1e-13 * np.abs(o).max(), lambda: 'Box.%s = %.15g expected %.15g' % (k, got, e))
        labels.add('lammps')
    if labels & {'tilted', 'rotated', 'origin'}:
        labels.add('nt')
    return labels


@st.composite
def getters_cases(draw):
    c = draw(gens.cells(scaled=True))
    return {'cell': c, 'build': draw(st.sampled_from(['vects', 'avect'])), 'aslist': draw(st.booleans())}


# ----------------------------------------------------------------------------- posmaps

@st.composite
def posmaps_cases(draw):
    c = draw(gens.cells(scaled=True))
    shape = draw(st.sampled_from(['1', 'N', 'MN']))
    if shape == '1':
        pts = draw(gens.relpoints(1, 1))[0]
    elif shape == 'N':
        pts = draw(gens.relpoints(1, 6))
    else:
        n = draw(st.integers(1, 3))
        pts = [draw(gens.relpoints(n, n)) for _ in range(draw(st.integers(1, 3)))]
    return {'cell': c, 'rel': pts, 'aslist': draw(st.booleans())}


def _k(key):
    return 'C01:' + key


def oracle_posmaps(case):
    import atomman as am
    c = case['cell']
    V, o = gens.cell_vects(c), gens.cell_origin(c)
    B = am.Box(vects=V, origin=o)
    labels = gens.cell_labels(c)
    s = np.array(case['rel'], dtype=float)
    x = s @ V + o
    vmax, omax, smax = np.abs(V).max(), np.abs(o).max(), max(1.0, np.abs(s).max())
    inv = np.linalg.inv(V)
    ninv = np.abs(inv).sum(axis=0).max()
    tol_x = 1e-8 * vmax * smax + 1e-13 * omax
    tol_s = (1e-8 * smax + 1e-13 * (omax + vmax * smax) * ninv) * 3
    arg_s = s.tolist() if case['aslist'] else s
    arg_x = x.tolist() if case['aslist'] else x
    labels.add('list' if case['aslist'] else 'array')
    labels.add('ndim%d' % s.ndim)
    gx = B.position_relative_to_cartesian(arg_s)
    require(isinstance(gx, np.ndarray) and gx.shape == s.shape, lambda: 'relative_to_cartesian returned shape %r for input %r' % (getattr(gx, 'shape', None), s.shape))
    require(np.abs(gx - x).max() <= tol_x, lambda: 'relative_to_cartesian differs from s.V+o by %.3g (tol %.3g)' % (np.abs(gx - x).max(), tol_x))
    try:
        gs = B.position_cartesian_to_relative(arg_x)
    except AttributeError as e:
        raise Violation('position_cartesian_to_relative(%s input) raised %r' % ('list' if case['aslist'] else 'array', e),
                        key=_k('c2r-list-input') if case['aslist'] else None)
    require(isinstance(gs, np.ndarray) and gs.shape == s.shape, lambda: 'cartesian_to_relative returned shape %r for input %r' % (getattr(gs, 'shape', None), s.shape))
    require(np.abs(gs - s).max() <= tol_s, lambda: 'cartesian_to_relative(s.V+o) differs from s by %.3g (tol %.3g)' % (np.abs(gs - s).max(), tol_s))
    # mutual inverses through atomman only
    back = B.position_relative_to_cartesian(gs)
    require(np.abs(back - x).max() <= 2 * tol_x + tol_s * vmax, lambda: 'r2c(c2r(x)) differs from x by %.3g' % np.abs(back - x).max())
    back2 = B.position_cartesian_to_relative(np.asarray(gx))
    require(np.abs(back2 - s).max() <= 2 * tol_s, lambda: 'c2r(r2c(s)) differs from s by %.3g' % np.abs(back2 - s).max())
    if (labels & {'tilted', 'rotated', 'origin'}) and (np.any(s < 0) or np.any(s > 1)):
        labels.add('nt')
    return labels


# ----------------------------------------------------------------------------- inside

@st.composite
def inside_cases(draw):
    if draw(st.integers(0, 3)) == 0:
        # dyadic orthogonal cell, points exactly on faces / edges / corners
        L = [draw(gens.dyadic(0.5, 16)) for _ in range(3)]
        o = [draw(gens.dyadic(-8, 8)) for _ in range(3)]
        c = {'lx': L[0], 'ly': L[1], 'lz': L[2], 'xy': 0.0, 'xz': 0.0, 'yz': 0.0, 'origin': o, 'rot': None, 'lefthanded': False}
        coord = st.sampled_from([0.0, 1.0, 0.5, 0.25, -0.25, 1.25, 0.0, 1.0])
        pts = draw(st.lists(st.lists(coord, min_size=3, max_size=3), min_size=1, max_size=8))
        return {'cell': c, 'rel': pts, 'dyadic': True, 'inclusive': draw(st.booleans()), 'aslist': draw(st.booleans())}
    c = draw(gens.cells(scaled=True))
    pts = draw(gens.relpoints(1, 8, lo=-1.0, hi=2.0, special=False))
    return {'cell': c, 'rel': pts, 'dyadic': False, 'inclusive': draw(st.booleans()), 'aslist': draw(st.booleans())}


def oracle_inside(case):
    import atomman as am
    c = case['cell']
    V, o = gens.cell_vects(c), gens.cell_origin(c)
    B = am.Box(vects=V, origin=o)
    labels = gens.cell_labels(c)
    s = np.array(case['rel'], dtype=float)
    x = s @ V + o
    incl = bool(case['inclusive'])
    arg = x.tolist() if case['aslist'] else x
    got = np.asarray(B.inside(arg, inclusive=incl))
    require(got.shape == (len(s),) and got.dtype == bool, lambda: 'inside returned shape %r dtype %r' % (got.shape, got.dtype))
    gout = np.asarray(B.outside(arg, inclusive=not incl))
    require(np.array_equal(gout, ~got), lambda: 'outside(p, inclusive=%r) != not inside(p, inclusive=%r): %r vs %r' % (not incl, incl, gout, got))
    if case['dyadic']:
        # x computed exactly (dyadic numbers): decide exactly from s
        exp = np.all((s >= 0) & (s <= 1), axis=1) if incl else np.all((s > 0) & (s < 1), axis=1)
        require(np.array_equal(got, exp), lambda: 'inside(inclusive=%r) on exact points: expected %r got %r (rel %r)' % (incl, exp.tolist(), got.tolist(), s.tolist()))
        onface = np.any((s == 0) | (s == 1), axis=1) & np.all((s >= 0) & (s <= 1), axis=1)
        labels.add('dyadic')
        if onface.any():
            labels.update({'onface', 'nt'})
        return labels
    # generic: recompute relative coordinates from x by my own solve, exempt a band around faces
    sr = np.linalg.solve(V.T, (x - o).T).T
    cond = np.linalg.cond(V)
    band = 1e-9 * cond + 1e-12 * np.abs(o).max() * np.abs(np.linalg.inv(V)).sum(axis=0).max()
    near = np.any((np.abs(sr) < band) | (np.abs(sr - 1) < band), axis=1)
    exp = np.all((sr >= 0) & (sr <= 1), axis=1)
    bad = (~near) & (exp != got)
    require(not bad.any(), lambda: 'inside(inclusive=%r): expected %r got %r for relative coords %r' % (incl, exp.tolist(), got.tolist(), sr.tolist()))
    if near.any():
        labels.add('band_exempt')
    if (labels & {'tilted', 'rotated', 'origin'}) and exp.any() and (~exp).any():
        labels.add('nt')
    return labels


# ----------------------------------------------------------------------------- recip_cache (history)

@st.composite
def cache_cases(draw):
    n = draw(st.integers(2, 6))
    ops = []
    for _ in range(n):
        kind = draw(st.sampled_from(['vects=', 'origin=', 'set_vectors', 'set_abc', 'set_lengths', 'set_hi_los', 'set(vects)', 'set(origin)']))
        # setters that take arbitrary vectors also get rigidly rotated cells (all nine components non-zero)
        c = draw(gens.cells(rotated=kind in ('vects=', 'set_vectors', 'set(vects)'), scaled=True))
        ops.append({'op': kind, 'cell': c, 'touch': draw(st.booleans())})
    return {'start': draw(gens.cells(rotated=True, scaled=True)), 'ops': ops, 'probe': draw(gens.relpoints(1, 1))[0]}


def oracle_cache(case):
    import atomman as am
    c0 = case['start']
    V, o = gens.cell_vects(c0), gens.cell_origin(c0)
    B = am.Box(vects=V, origin=o)
    B.reciprocal_vects  # populate the caches
    B.inside(o + 0.5 * V.sum(axis=0))
    p = np.array(case['probe'], dtype=float)
    kinds = set()
    for step, op in enumerate(case['ops']):
        c = op['cell']
        nV, no = gens.cell_vects(c), gens.cell_origin(c)
        k = op['op']
        kinds.add(k)
        if k == 'vects=':
            B.vects = nV; V = nV
        elif k == 'origin=':
            B.origin = no; o = no
        elif k == 'set(origin)':
            B.set(origin=no); o = no
        elif k == 'set(vects)':
            B.set(vects=nV, origin=no); V, o = nV, no
        elif k == 'set_vectors':
            B.set_vectors(nV[0], nV[1], nV[2], origin=no); V, o = nV, no
        elif k == 'set_lengths':
            B.set_lengths(lx=nV[0, 0], ly=nV[1, 1], lz=nV[2, 2], xy=nV[1, 0], xz=nV[2, 0], yz=nV[2, 1], origin=no); V, o = nV, no
        elif k == 'set_hi_los':
            B.set_hi_los(no[0], no[0] + nV[0, 0], no[1], no[1] + nV[1, 1], no[2], no[2] + nV[2, 2], xy=nV[1, 0], xz=nV[2, 0], yz=nV[2, 1]); V, o = nV, no
        elif k == 'set_abc':
            if np.linalg.cond(nV) > 1e3:
                continue
            a, b, cc, al, be, ga = my_params(nV)
            B.set_abc(a, b, cc, al, be, ga, origin=no); V, o = nV, no
        cond = np.linalg.cond(V)
        tolrel = 1e-8 + 40 * EPS * cond ** 2
        Bv = np.asarray(B.vects, dtype=float)
        require(np.abs(Bv - V).max() <= tolrel * np.abs(V).max(), lambda: 'step %d (%s): vects are %r expected %r' % (step, k, Bv, V))
        require(np.abs(np.asarray(B.origin) - o).max() <= 1e-12 * (np.abs(o).max() + np.abs(V).max()), lambda: 'step %d (%s): origin %r expected %r' % (step, k, B.origin, o))
        R = np.asarray(B.reciprocal_vects, dtype=float)
        dual = np.abs(Bv @ R.T - np.eye(3)).max()
        require(dual <= 1e-11 * cond, lambda: 'step %d (%s): reciprocal_vects stale: vects.recip^T - I = %.3g' % (step, k, dual))
        x = p @ V + o
        gs = B.position_cartesian_to_relative(x)
        ninv = np.abs(np.linalg.inv(V)).sum(axis=0).max()
        tol_s = 3 * (tolrel * 3 * cond + 1e-13 * (np.abs(o).max() + np.abs(V).max() * 3) * ninv)
        require(np.abs(gs - p).max() <= tol_s, lambda: 'step %d (%s): cartesian_to_relative uses stale cell: got %r expected %r' % (step, k, gs, p))
        # inside() after every step of the history (any cached planes must follow origin and vectors alike)
        pin = np.array([[0.5, 0.5, 0.5], p, [0.25, 0.75, 0.5] + np.floor(p)], dtype=float)
        # a face is resolved only to the rounding of |origin| in units of the cell (setters of different steps may
        # combine a 1e-10 cell with an origin of 1e4: the points themselves are then not representable)
        band = 1e-6 + 1e-12 * np.abs(o).max() * ninv
        clear = ~np.any((np.abs(pin) < band) | (np.abs(pin - 1) < band), axis=1)
        exp_in = np.all((pin >= 0) & (pin <= 1), axis=1)
        got_in = np.asarray(B.inside(pin @ V + o))
        require(np.array_equal(got_in[clear], exp_in[clear]),
                lambda: 'step %d (%s): inside() = %r for relative coordinates %r (expected %r): stale planes?' % (step, k, got_in.tolist(), pin.tolist(), exp_in.tolist()))
        if op['touch']:
            B.reciprocal_vects
            B.planes
    labels = {'ops%d' % len(case['ops'])}
    if len(kinds) >= 2:
        labels.add('nt')
    return labels


# ----------------------------------------------------------------------------- forms (input forms, decades, ledger, caller-side mutation)

VFORMS = ('f64', 'f64', 'list', 'f32', 'F', 'strided', 'ro')
PFORMS = ('f64', 'f64', 'list', 'f32', 'F', 'strided', 'ro')


def as_form(x, form):
    """the float64 array x handed over in another form (values must already be representable in that form)"""
    x = np.array(x, dtype=float)
    if form == 'f64':
        return x.copy()
    if form == 'list':
        return x.tolist()
    if form == 'tuple':
        return tuple(map(tuple, x.tolist())) if x.ndim == 2 else tuple(x.tolist())
    if form == 'f32':
        return x.astype(np.float32)
    if form.startswith('int') or form.startswith('uint'):
        return x.astype(form)
    if form == 'F':
        return np.asfortranarray(x)
    if form == 'ro':
        y = x.copy(); y.setflags(write=False); return y
    if form == 'strided':
        big = np.full(tuple(2 * n for n in x.shape), 7.25)
        big[tuple(slice(None, None, 2) for _ in x.shape)] = x
        return big[tuple(slice(None, None, 2) for _ in x.shape)]
    raise ValueError(form)


def representable(x, form):
    """x rounded to what the form can hold (float64 result)"""
    x = np.array(x, dtype=float)
    if form == 'f32':
        return x.astype(np.float32).astype(float)
    return x


def frozen(a):
    return a.tobytes() if isinstance(a, np.ndarray) else repr(a)


@st.composite
def forms_cases(draw):
    intcell = draw(st.integers(0, 5)) == 0
    if intcell:
        L = [draw(st.integers(1, 60)) for _ in range(3)]
        c = {'lx': float(L[0]), 'ly': float(L[1]), 'lz': float(L[2]),
             'xy': float(draw(st.integers(-L[0], L[0]))), 'xz': float(draw(st.integers(-L[0], L[0]))), 'yz': float(draw(st.integers(-L[1], L[1]))),
             'origin': [float(draw(st.integers(-100, 100))) for _ in range(3)], 'rot': None, 'lefthanded': False}
        vform = draw(st.sampled_from(['int64', 'int32', 'int16', 'int8', 'list']))
        if vform == 'int8':
            for k in ('lx', 'ly', 'lz', 'xy', 'xz', 'yz'):
                c[k] = float(max(-127, min(127, c[k])))
    else:
        c = draw(gens.cells(scaled=True))
        vform = draw(st.sampled_from(VFORMS))
    tiny = None
    if not intcell and c['rot'] is None and draw(st.booleans()):
        # tilts 1e-12 ... 1e-3 of the largest component, kept off Box's documented 1e-9 clean-up threshold
        tiny = []
        for k in ('xy', 'xz', 'yz'):
            how = draw(st.sampled_from(['keep', 'zero', 'tiny', 'tiny']))
            if how == 'zero':
                c[k] = 0.0
            elif how == 'tiny':
                u = draw(st.one_of(nice_exp(-12.0, -9.6), nice_exp(-8.4, -3.0), nice_exp(-8.4, -3.0)))
                c[k] = draw(st.sampled_from([-1.0, 1.0])) * 10.0 ** u * max(c['lx'], c['ly'], c['lz'])
                tiny.append(u)
    n = draw(st.integers(1, 6))
    decades = draw(st.booleans())
    rel = []
    for _ in range(n):
        if decades:
            row = [draw(st.sampled_from([-1.0, 1.0, 1.0])) * draw(gens.nice(0.1, 0.99, 3)) * 10.0 ** draw(st.integers(-6, 6)) for _ in range(3)]
        else:
            row = [draw(gens.nice(-2.0, 3.0, 4)) for _ in range(3)]
        rel.append(row)
    pform = draw(st.sampled_from(PFORMS + (('int64', 'int16') if not decades else ())))
    return {'cell': c, 'vform': vform, 'pform': pform, 'rel': rel, 'tiny': tiny, 'decades': decades,
            'build': draw(st.sampled_from(['vects', 'avect'])), 'read': draw(st.sampled_from(LAMMPS_SETS)),
            'other': draw(gens.cells(scaled=True)), 'mutate': draw(st.booleans())}


def nice_exp(a, b):
    return gens.nice(a, b, 2)


def _row_tols(V, o, s):
    """per-row rounding bounds (each row relative to ITS OWN magnitude) of s.V+o and of its inverse"""
    cond = np.linalg.cond(V)
    inv = np.linalg.inv(V)
    ninv = np.abs(inv).sum(axis=0).max()
    x_mag = np.abs(s) @ np.abs(V) + np.abs(o)                     # (N,3) magnitudes entering each sum
    tol_x = 64 * EPS * x_mag.max(axis=1)
    tol_s = 64 * EPS * (x_mag.max(axis=1) * ninv + cond * np.abs(s).max(axis=1)) * 3
    return tol_x, tol_s, cond, ninv


def oracle_forms(case):
    import atomman as am
    c = case['cell']
    vform, pform = case['vform'], case['pform']
    V = representable(gens.cell_vects(c), vform)
    o = representable(gens.cell_origin(c), vform)
    labels = gens.cell_labels(c) | {'vform_' + vform, 'pform_' + pform}
    vmax, omax = np.abs(V).max(), np.abs(o).max()
    cond = np.linalg.cond(V)
    compat = c['rot'] is None
    # --- construction from the caller's objects: they stay as they were
    aV, ao = as_form(V, vform), as_form(o, vform)
    fV, fo = frozen(aV), frozen(ao)
    if case['build'] == 'vects':
        B = am.Box(vects=aV, origin=ao)
    else:
        B = am.Box(avect=aV[0], bvect=aV[1], cvect=aV[2], origin=ao)
    require(frozen(aV) == fV and frozen(ao) == fo, 'Box(...) modified the vects / origin objects handed in')
    # Box's documented clean-up: components below 1e-9 of the largest may come back as zero; everything else to rounding
    cleanable = np.abs(V) <= 1.5e-9 * vmax
    tolV = np.where(cleanable, np.abs(V), 0.0) + 4 * EPS * vmax
    Bv = np.asarray(B.vects)
    require(Bv.dtype == np.float64 and Bv.shape == (3, 3), lambda: 'Box.vects has dtype %r shape %r' % (Bv.dtype, Bv.shape))
    require(np.all(np.abs(Bv - V) <= tolV), lambda: 'Box built from %s %s: vects\n%r\nexpected\n%r' % (vform, case['build'], Bv, V))
    require(np.array_equal(np.asarray(B.origin, dtype=float), o), lambda: 'Box built from %s: origin %r expected %r' % (vform, B.origin, o))
    Vc = np.where(np.abs(Bv) == 0, 0.0, V)      # the cell as atomman keeps it (cleaned components)
    if case['tiny'] is not None:
        labels.add('tiny_tilt' if case['tiny'] else 'tilt_keep_or_zero')
        for u in case['tiny']:
            labels.add('tiny_above_cleanup' if u > -9 else 'tiny_below_cleanup')
        require(bool(B.is_lammps_norm()), 'is_lammps_norm() False for a triangular cell with small tilts')
        for k, (i, j) in {'xy': (1, 0), 'xz': (2, 0), 'yz': (2, 1)}.items():
            got = float(getattr(B, k))
            require(abs(got - V[i, j]) <= tolV[i, j], lambda: 'Box.%s = %r for a cell built with %r' % (k, got, V[i, j]))
    # --- read through another parameter set and rebuild (tight bound; lattice parameters: conditioned bound)
    s2 = case['read']
    if compat or s2 in FREE_SETS:
        if not (s2 == 'abc' and cond > 1e4):
            B2 = rebuild(am, B, s2)
            B2v = np.asarray(B2.vects, dtype=float)
            if s2 == 'abc':
                t2 = tolV + (1e-12 + 40 * EPS * cond ** 2) * vmax
            elif s2 == 'hilo':
                t2 = tolV + 8 * EPS * (omax + vmax)
            else:
                t2 = tolV
            if compat:
                require(np.all(np.abs(B2v - V) <= t2), lambda: 'rebuild via %s: vects\n%r\nexpected\n%r\n(tolerance %r)' % (s2, B2v, V, t2))
            else:
                G0, G1 = Vc @ Vc.T, B2v @ B2v.T
                # the rebuilt cell is in another orientation: ITS small components fall under the 1e-9 clean-up as well
                require(np.abs(G0 - G1).max() <= 4 * np.max(t2) * vmax + 3.1e-9 * vmax ** 2, lambda: 'rebuild via %s: Gram matrices differ by %.3g' % (s2, np.abs(G0 - G1).max()))
            labels.add('read_' + s2)
    # --- position maps in every input form, each row judged relative to its own magnitude
    s = representable(np.array(case['rel'], dtype=float), pform)
    if pform.startswith('int'):
        s = np.round(s)
    tol_x, tol_s, _, ninv = _row_tols(Vc, o, s)
    x_exp = s @ Vc + o
    Ps = as_form(s, pform); fPs = frozen(Ps)
    gx = B.position_relative_to_cartesian(Ps)
    require(frozen(Ps) == fPs, 'position_relative_to_cartesian modified its argument')
    require(isinstance(gx, np.ndarray) and gx.shape == s.shape and gx.dtype == np.float64, lambda: 'relative_to_cartesian(%s) returned %r' % (pform, gx))
    ex = np.abs(gx - x_exp).max(axis=1)
    require(np.all(ex <= tol_x), lambda: 'relative_to_cartesian(%s input): rows %r differ from s.V+o by %r (own-magnitude bounds %r)\ns=%r' % (pform, np.nonzero(ex > tol_x)[0].tolist(), ex.tolist(), tol_x.tolist(), s.tolist()))
    x_in = representable(x_exp, pform)
    if pform.startswith('int'):
        x_in = np.round(x_in)
        if np.abs(x_in).max() > 32000:      # the harness must not wrap the numbers it hands over
            pform = 'int64'
        if np.abs(x_in).max() > 2 ** 62:
            pform = 'f64'
    s_exp = np.linalg.solve(Vc.T, (x_in - o).T).T
    _, tol_s2, _, _ = _row_tols(Vc, o, s_exp)
    Px = as_form(x_in, pform); fPx = frozen(Px)
    gs = B.position_cartesian_to_relative(Px)
    require(frozen(Px) == fPx, 'position_cartesian_to_relative modified its argument')
    require(isinstance(gs, np.ndarray) and gs.shape == s.shape and gs.dtype == np.float64, lambda: 'cartesian_to_relative(%s) returned %r' % (pform, gs))
    es = np.abs(gs - s_exp).max(axis=1)
    require(np.all(es <= tol_s2), lambda: 'cartesian_to_relative(%s input): rows %r differ from my solve by %r (own-magnitude bounds %r)\nx=%r' % (pform, np.nonzero(es > tol_s2)[0].tolist(), es.tolist(), tol_s2.tolist(), x_in.tolist()))
    # one row at a time = the row of the array call
    for i in range(len(s)):
        g1 = B.position_relative_to_cartesian(as_form(s[i], pform))
        require(np.abs(g1 - gx[i]).max() <= tol_x[i], lambda: 'relative_to_cartesian: row %d alone gives %r, in the array %r' % (i, g1, gx[i]))
        g2 = B.position_cartesian_to_relative(as_form(x_in[i], pform))
        require(np.abs(g2 - gs[i]).max() <= tol_s2[i], lambda: 'cartesian_to_relative: row %d alone gives %r, in the array %r' % (i, g2, gs[i]))
    band = 1e-9 * cond + 1e-12 * omax * ninv
    near = np.any((np.abs(s_exp) < band * np.maximum(1, np.abs(s_exp))) | (np.abs(s_exp - 1) < band * np.maximum(1, np.abs(s_exp))), axis=1)
    exp_in = np.all((s_exp >= 0) & (s_exp <= 1), axis=1)
    got_in = np.asarray(B.inside(Px))
    require(got_in.shape == (len(s),) and got_in.dtype == bool, lambda: 'inside(%s) returned %r' % (pform, got_in))
    require(np.array_equal(got_in[~near], exp_in[~near]), lambda: 'inside(%s input) = %r expected %r for relative coordinates %r' % (pform, got_in.tolist(), exp_in.tolist(), s_exp.tolist()))
    if exp_in.any():
        labels.add('some_inside')
    R1, V1, o1 = B.reciprocal_vects, B.vects, B.origin
    dual = np.abs(Vc @ np.asarray(R1).T - np.eye(3)).max()
    require(dual <= 64 * EPS * cond, lambda: 'vects . reciprocal_vects^T - I = %.3g (cond %.3g)' % (dual, cond))
    ledger = [('relative_to_cartesian result', gx), ('cartesian_to_relative result', gs), ('inside result', got_in),
              ('reciprocal_vects', R1), ('vects', V1), ('origin', o1)]
    kept = [np.array(a, copy=True) for _, a in ledger]
    # --- the caller goes on using its own objects
    if case['mutate']:
        for a in (aV, ao, Ps, Px):
            if isinstance(a, np.ndarray) and a.flags.writeable:
                a[...] = (a * 3 + 1).astype(a.dtype) if a.dtype.kind == 'f' else a[::-1].copy()
                labels.add('caller_overwrote_inputs')
    # --- another Box is built and used
    c2 = case['other']
    V2, o2 = gens.cell_vects(c2), gens.cell_origin(c2)
    Bo = am.Box(vects=V2, origin=o2)
    Bo.position_relative_to_cartesian(s); Bo.position_cartesian_to_relative(x_in); Bo.inside(x_in); Bo.reciprocal_vects; Bo.planes
    for (what, a), k in zip(ledger, kept):
        require(np.array_equal(a, k), lambda: 'the %s handed out earlier changed after later calls: was %r, is %r' % (what, k.tolist(), np.asarray(a).tolist()))
    # --- the arrays handed out are the caller's to overwrite
    for _, a in ledger:
        a[...] = 0
    require(np.array_equal(B.vects, kept[4]) and np.array_equal(B.origin, kept[5]) and np.array_equal(B.reciprocal_vects, kept[3]),
            lambda: 'overwriting (or the caller re-using) arrays handed in / out changed the Box: vects %r (were %r), origin %r (was %r), reciprocal %r (was %r)'
            % (B.vects.tolist(), kept[4].tolist(), B.origin.tolist(), kept[5].tolist(), B.reciprocal_vects.tolist(), kept[3].tolist()))
    gx2 = B.position_relative_to_cartesian(as_form(s, pform))
    gs2 = B.position_cartesian_to_relative(as_form(x_in, pform))
    require(np.all(np.abs(gx2 - kept[0]).max(axis=1) <= tol_x) and np.all(np.abs(gs2 - kept[1]).max(axis=1) <= tol_s2),
            lambda: 'the same maps give other answers after the caller re-used its arrays / another Box was used: %r vs %r; %r vs %r' % (gx2.tolist(), kept[0].tolist(), gs2.tolist(), kept[1].tolist()))
    require(np.array_equal(np.asarray(B.inside(as_form(x_in, pform))), kept[2]), 'inside() gives other answers after the caller re-used its arrays / another Box was used')
    if case['decades']:
        m = np.abs(s[s != 0])
        span = math.log10(m.max() / m.min()) if m.size else 0
        labels.add('decades')
        if span >= 8:
            labels.add('span8')
    if vform.startswith('int'):
        labels.add('int_cell')
    if vform not in ('f64',) or pform not in ('f64',) or case['tiny'] or case['decades']:
        labels.add('nt')
    return labels


CLAUSES = [
    Clause('roundtrip', oracle_roundtrip, roundtrip_cases, quick=16000, thorough=400000,
           min_share={'nt': 0.17, 'read_abc': 0.082, 'read_hilo': 0.038, 'int_typed_lengths': 0.023},
           desc='build from one parameter set, read another, rebuild: same cell (same vectors if LAMMPS-compatible, else same Gram matrix/handedness)'),
    Clause('getters', oracle_getters, getters_cases, quick=8000, thorough=200000, min_share={'nt': 0.39},
           desc='a,b,c,alpha,beta,gamma,volume,reciprocal vectors, LAMMPS getters against independent formulas'),
    Clause('posmaps', oracle_posmaps, posmaps_cases, quick=12000, thorough=300000, min_share={'nt': 0.17, 'list': 0.15},
           desc='relative<->Cartesian maps against s.V+o, mutual inverses, shapes, list and array input'),
    Clause('inside', oracle_inside, inside_cases, quick=12000, thorough=300000, min_share={'nt': 0.17, 'onface': 0.08},
           desc='inside()/outside() against relative coordinates in [0,1]; exact boundary behaviour on dyadic orthogonal cells'),
    Clause('recip_cache', oracle_cache, cache_cases, quick=3000, thorough=60000, min_share={'nt': 0.39},
           desc='history of setters on one Box: vects/origin/reciprocal cache consistent after every step'),
    Clause('forms', oracle_forms, forms_cases, quick=8000, thorough=200000,
           min_share={'nt': 0.39, 'tiny_above_cleanup': 0.032, 'tiny_below_cleanup': 0.035, 'span8': 0.15, 'vform_f32': 0.04, 'pform_f32': 0.04,
                      'int_cell': 0.07, 'caller_overwrote_inputs': 0.15, 'vform_strided': 0.04, 'pform_ro': 0.04, 'some_inside': 0.12},
           desc='every input form (float32, integer dtypes, list, Fortran, strided, read-only) for cell and points; tilts 1e-12..1e-3 of the cell '
                '(kept exactly above Box\'s documented 1e-9 clean-up); point arrays spanning 12 decades with every row judged relative to its own '
                'magnitude and equal to the one-row call; arguments left untouched; results kept in a ledger stay bit-identical after the caller '
                'overwrites what it handed in, another Box is built and used, and the arrays handed out are overwritten'),
]
