"""C01 - One cell, many parameter sets: Box definitions and coordinate maps agree."""
import math

import numpy as np
from hypothesis import strategies as st

from ..core import Clause, Violation, require
from .. import gens

RULE = ("cells drawn in LAMMPS triangular form (lengths 0.5-50, tilts up to 1.5 lengths, crystal families, "
        "dyadic orthogonal cells), optionally rigidly rotated / shifted origin; constructing parameter set and "
        "read-back set drawn independently; points in relative coords [-2,3]^3 of several leading shapes, list or "
        "array.  Non-trivial: cell tilted or rotated or non-zero origin AND (roundtrip: read-back set differs from "
        "constructing set; posmaps/inside: >=1 point outside [0,1]^3 or on a face; recip_cache: >=2 different setters)")
ASSUMPTIONS = ["numpy linear algebra is correct", "cells with cond(vects) > 1e4 are exempt from the lattice-parameter route"]

EPS = 2.3e-16


# ----------------------------------------------------------------------------- independent helpers

def my_params(V):
    """a,b,c,alpha,beta,gamma (degrees) of row-vector matrix V, angles by atan2(|cross|, dot)"""
    a, b, c = (float(np.linalg.norm(V[i])) for i in range(3))
    def ang(u, v):
        return math.degrees(math.atan2(float(np.linalg.norm(np.cross(u, v))), float(np.dot(u, v))))
    return a, b, c, ang(V[1], V[2]), ang(V[0], V[2]), ang(V[0], V[1])


def build(am, setname, V, o, aslist, ints=None):
    """construct a Box from my numbers through the named parameter set"""
    conv = (lambda x: np.asarray(x, dtype=float).tolist()) if aslist else (lambda x: np.asarray(x, dtype=float))
    if setname == 'vects':
        return am.Box(vects=conv(V), origin=conv(o))
    if setname == 'avect':
        return am.Box(avect=conv(V[0]), bvect=conv(V[1]), cvect=conv(V[2]), origin=conv(o))
    if setname == 'abc':
        a, b, c, al, be, ga = my_params(V)
        return am.Box(a=a, b=b, c=c, alpha=al, beta=be, gamma=ga, origin=conv(o))
    if setname == 'lengths':
        L = [V[0, 0], V[1, 1], V[2, 2]]
        if ints:        # whole-number lengths given as integer-typed values (Python int / numpy int), tilts stay float
            L = [int(round(x)) for x in L] if ints == 'py' else [np.int64(round(x)) for x in L]
        return am.Box(lx=L[0], ly=L[1], lz=L[2], xy=V[1, 0], xz=V[2, 0], yz=V[2, 1], origin=conv(o))
    if setname == 'hilo':
        b = [o[0], o[0] + V[0, 0], o[1], o[1] + V[1, 1], o[2], o[2] + V[2, 2]]
        if ints:
            b = [int(round(x)) for x in b] if ints == 'py' else [np.int64(round(x)) for x in b]
        return am.Box(xlo=b[0], xhi=b[1], ylo=b[2], yhi=b[3], zlo=b[4], zhi=b[5],
                      xy=V[1, 0], xz=V[2, 0], yz=V[2, 1])
    raise ValueError(setname)


def rebuild(am, B, setname):
    """read the named parameter set from B and build a new Box from those numbers"""
    if setname == 'vects':
        return am.Box(vects=B.vects, origin=B.origin)
    if setname == 'avect':
        return am.Box(avect=B.avect, bvect=B.bvect, cvect=B.cvect, origin=B.origin)
    if setname == 'abc':
        return am.Box(a=B.a, b=B.b, c=B.c, alpha=B.alpha, beta=B.beta, gamma=B.gamma, origin=B.origin)
    if setname == 'lengths':
        return am.Box(lx=B.lx, ly=B.ly, lz=B.lz, xy=B.xy, xz=B.xz, yz=B.yz, origin=B.origin)
    if setname == 'hilo':
        return am.Box(xlo=B.xlo, xhi=B.xhi, ylo=B.ylo, yhi=B.yhi, zlo=B.zlo, zhi=B.zhi, xy=B.xy, xz=B.xz, yz=B.yz)
    raise ValueError(setname)


def cmp_cell(V, o, B, tolV, what, same_orientation, otol=None):
    Bv = np.asarray(B.vects, dtype=float)
    require(Bv.shape == (3, 3) and np.all(np.isfinite(Bv)), lambda: '%s: vects not finite 3x3: %r' % (what, Bv))
    vmax = np.abs(V).max()
    if same_orientation:
        err = np.abs(Bv - V).max()
        require(err <= tolV * vmax, lambda: '%s: vects differ by %.3g (tol %.3g)\nexpected\n%r\ngot\n%r'
                % (what, err, tolV * vmax, V, Bv))
    else:
        G0, G1 = V @ V.T, Bv @ Bv.T
        err = np.abs(G0 - G1).max()
        require(err <= 2 * tolV * vmax ** 2, lambda: '%s: Gram matrices differ by %.3g (tol %.3g)' % (what, err, 2 * tolV * vmax ** 2))
        d0, d1 = np.linalg.det(V), np.linalg.det(Bv)
        require(d0 * d1 > 0, lambda: '%s: handedness changed (det %.4g -> %.4g)' % (what, d0, d1))
        require(abs(abs(d0) - abs(d1)) <= 6 * tolV * vmax ** 3 , lambda: '%s: volume changed %.10g -> %.10g' % (what, d0, d1))
    if otol is None:
        otol = 1e-12 * (np.abs(o).max() + vmax)
    eo = np.abs(np.asarray(B.origin, dtype=float) - o).max()
    require(eo <= otol, lambda: '%s: origin differs by %.3g: expected %r got %r' % (what, eo, o, B.origin))


LAMMPS_SETS = ('vects', 'avect', 'abc', 'lengths', 'hilo')
FREE_SETS = ('vects', 'avect', 'abc')


# ----------------------------------------------------------------------------- roundtrip

@st.composite
def roundtrip_cases(draw):
    c = draw(gens.cells(scaled=True))
    compat = c['rot'] is None
    s1 = draw(st.sampled_from(LAMMPS_SETS if compat else ('vects', 'avect')))
    s2 = draw(st.sampled_from(LAMMPS_SETS))
    ints = None
    if compat and s1 in ('lengths', 'hilo') and draw(st.integers(0, 2)) == 0:
        # whole-number lengths and origin (tilts keep their fractional values), passed as integer-typed numbers
        c = dict(c, scale=1.0)
        for k in ('lx', 'ly', 'lz'):
            c[k] = float(max(1, round(c[k])))
        c['origin'] = [float(round(x)) for x in c['origin']]
        ints = draw(st.sampled_from(['py', 'np']))
    return {'cell': c, 'build': s1, 'read': s2, 'aslist': draw(st.booleans()), 'ints': ints}


def oracle_roundtrip(case):
    import atomman as am
    c = case['cell']
    V, o = gens.cell_vects(c), gens.cell_origin(c)
    cond = np.linalg.cond(V)
    labels = gens.cell_labels(c)
    compat = c['rot'] is None
    s1, s2 = case['build'], case['read']
    if cond > 1e4 and 'abc' in (s1, s2):
        return labels | {'illcond_skipped'}
    base = 1e-8
    abctol = base + 40 * EPS * cond ** 2
    B = build(am, s1, V, o, case['aslist'], case.get('ints'))
    if case.get('ints'):
        labels.add('int_typed_lengths')
    hilo_otol = 1e-12 * (np.abs(o).max() + np.abs(V).max())
    cmp_cell(V, o, B, abctol if s1 == 'abc' else base, 'construct via %s' % s1, compat, hilo_otol)
    require(bool(B.is_lammps_norm()) == compat or not compat,
            lambda: 'is_lammps_norm()=%r for a cell built in LAMMPS orientation via %s' % (B.is_lammps_norm(), s1))
    Bv, Bo = np.array(B.vects, dtype=float), np.array(B.origin, dtype=float)
    if not compat and not B.is_lammps_norm():
        if s2 in ('lengths', 'hilo'):
            try:
                rebuild(am, B, s2)
            except AssertionError:
                return labels | {'nonlammps_getter_refused'}
            raise Violation('LAMMPS getters (%s) on a non LAMMPS-compatible cell did not raise AssertionError' % s2)
    B2 = rebuild(am, B, s2)
    same = compat or s2 in ('vects', 'avect')
    tol = abctol if 'abc' in (s1, s2) else base
    # hi/lo arithmetic: xhi-xlo loses |origin|*eps
    if s2 == 'hilo':
        tol += 8 * EPS * np.abs(o).max() / np.abs(V).max()
    cmp_cell(Bv, Bo, B2, tol, 'rebuild via %s (built via %s)' % (s2, s1), same)
    cmp_cell(V, o, B2, tol + (abctol if s1 == 'abc' else base), 'rebuild via %s vs intended cell' % s2, same)
    if not same:
        require(B2.is_lammps_norm(), 'cell rebuilt from lattice parameters is not LAMMPS-compatible')
    if s1 != s2:
        labels.add('sets_differ')
        if labels & {'tilted', 'rotated', 'origin'}:
            labels.add('nt')
    labels.add('build_' + s1); labels.add('read_' + s2)
    return labels


# ----------------------------------------------------------------------------- getters

def oracle_getters(case):
    import atomman as am
    c = case['cell']
    V, o = gens.cell_vects(c), gens.cell_origin(c)
    labels = gens.cell_labels(c)
    B = build(am, case['build'], V, o, case['aslist'])
    vmax = np.abs(V).max()
    a, b, cc, al, be, ga = my_params(V)
    for name, exp in (('a', a), ('b', b), ('c', cc)):
        got = float(getattr(B, name))
        require(abs(got - exp) <= 1e-9 * vmax, lambda: 'Box.%s = %.15g, |vector| = %.15g' % (name, got, exp))
    for name, exp in (('alpha', al), ('beta', be), ('gamma', ga)):
        got = float(getattr(B, name))
        require(0.0 < got < 180.0, lambda: 'Box.%s = %r not in (0,180)' % (name, got))
        require(abs(math.cos(math.radians(got)) - math.cos(math.radians(exp))) <= 1e-8,
                lambda: 'Box.%s = %.12g deg, angle between the vectors = %.12g deg' % (name, got, exp))
    vol = abs(float(np.linalg.det(V)))
    require(abs(float(B.volume) - vol) <= 1e-8 * a * b * cc, lambda: 'Box.volume = %.15g, |det| = %.15g' % (B.volume, vol))
    for i, nm in enumerate(('avect', 'bvect', 'cvect')):
        require(np.abs(np.asarray(getattr(B, nm)) - V[i]).max() <= 1e-8 * vmax, lambda: 'Box.%s = %r, expected %r' % (nm, getattr(B, nm), V[i]))
    R = np.asarray(B.reciprocal_vects, dtype=float)
    cond = np.linalg.cond(V)
    dual = np.abs(np.asarray(B.vects) @ R.T - np.eye(3)).max()
    require(dual <= 1e-12 * cond, lambda: 'vects . reciprocal_vects^T deviates from identity by %.3g' % dual)
    # reciprocal vectors against cross products
    myR = np.array([np.cross(V[1], V[2]), np.cross(V[2], V[0]), np.cross(V[0], V[1])]) / np.linalg.det(V)
    require(np.abs(R - myR).max() <= (1e-8 + 1e-12 * cond) * np.abs(myR).max(),
            lambda: 'reciprocal_vects differ from (b x c, c x a, a x b)/V:\n%r\n%r' % (R, myR))
    if c['rot'] is None and not c.get('lefthanded'):
        exp = dict(lx=V[0, 0], ly=V[1, 1], lz=V[2, 2], xy=V[1, 0], xz=V[2, 0], yz=V[2, 1], xlo=o[0], ylo=o[1], zlo=o[2],
                   xhi=o[0] + V[0, 0], yhi=o[1] + V[1, 1], zhi=o[2] + V[2, 2])
        for k, e in exp.items():
            got = float(getattr(B, k))
            require(abs(got - e) <= 1e-9 * vmax + 1e-13 * np.abs(o).max(), lambda: 'Box.%s = %.15g expected %.15g' % (k, got, e))
        labels.add('lammps')
    if labels & {'tilted', 'rotated', 'origin'}:
        labels.add('nt')
    return labels


@st.composite
def getters_cases(draw):
    c = draw(gens.cells(scaled=True))
    return {'cell': c, 'build': draw(st.sampled_from(['vects', 'avect'])), 'aslist': draw(st.booleans())}


# ----------------------------------------------------------------------------- posmaps

@st.composite
def posmaps_cases(draw):
    c = draw(gens.cells(scaled=True))
    shape = draw(st.sampled_from(['1', 'N', 'MN']))
    if shape == '1':
        pts = draw(gens.relpoints(1, 1))[0]
    elif shape == 'N':
        pts = draw(gens.relpoints(1, 6))
    else:
        n = draw(st.integers(1, 3))
        pts = [draw(gens.relpoints(n, n)) for _ in range(draw(st.integers(1, 3)))]
    return {'cell': c, 'rel': pts, 'aslist': draw(st.booleans())}


def _k(key):
    return 'C01:' + key


def oracle_posmaps(case):
    import atomman as am
    c = case['cell']
    V, o = gens.cell_vects(c), gens.cell_origin(c)
    B = am.Box(vects=V, origin=o)
    labels = gens.cell_labels(c)
    s = np.array(case['rel'], dtype=float)
    x = s @ V + o
    vmax, omax, smax = np.abs(V).max(), np.abs(o).max(), max(1.0, np.abs(s).max())
    inv = np.linalg.inv(V)
    ninv = np.abs(inv).sum(axis=0).max()
    tol_x = 1e-8 * vmax * smax + 1e-13 * omax
    tol_s = (1e-8 * smax + 1e-13 * (omax + vmax * smax) * ninv) * 3
    arg_s = s.tolist() if case['aslist'] else s
    arg_x = x.tolist() if case['aslist'] else x
    labels.add('list' if case['aslist'] else 'array')
    labels.add('ndim%d' % s.ndim)
    gx = B.position_relative_to_cartesian(arg_s)
    require(isinstance(gx, np.ndarray) and gx.shape == s.shape, lambda: 'relative_to_cartesian returned shape %r for input %r' % (getattr(gx, 'shape', None), s.shape))
    require(np.abs(gx - x).max() <= tol_x, lambda: 'relative_to_cartesian differs from s.V+o by %.3g (tol %.3g)' % (np.abs(gx - x).max(), tol_x))
    try:
        gs = B.position_cartesian_to_relative(arg_x)
    except AttributeError as e:
        raise Violation('position_cartesian_to_relative(%s input) raised %r' % ('list' if case['aslist'] else 'array', e),
                        key=_k('c2r-list-input') if case['aslist'] else None)
    require(isinstance(gs, np.ndarray) and gs.shape == s.shape, lambda: 'cartesian_to_relative returned shape %r for input %r' % (getattr(gs, 'shape', None), s.shape))
    require(np.abs(gs - s).max() <= tol_s, lambda: 'cartesian_to_relative(s.V+o) differs from s by %.3g (tol %.3g)' % (np.abs(gs - s).max(), tol_s))
    # mutual inverses through atomman only
    back = B.position_relative_to_cartesian(gs)
    require(np.abs(back - x).max() <= 2 * tol_x + tol_s * vmax, lambda: 'r2c(c2r(x)) differs from x by %.3g' % np.abs(back - x).max())
    back2 = B.position_cartesian_to_relative(np.asarray(gx))
    require(np.abs(back2 - s).max() <= 2 * tol_s, lambda: 'c2r(r2c(s)) differs from s by %.3g' % np.abs(back2 - s).max())
    if (labels & {'tilted', 'rotated', 'origin'}) and (np.any(s < 0) or np.any(s > 1)):
        labels.add('nt')
    return labels


# ----------------------------------------------------------------------------- inside

@st.composite
def inside_cases(draw):
    if draw(st.integers(0, 3)) == 0:
        # dyadic orthogonal cell, points exactly on faces / edges / corners
        L = [draw(gens.dyadic(0.5, 16)) for _ in range(3)]
        o = [draw(gens.dyadic(-8, 8)) for _ in range(3)]
        c = {'lx': L[0], 'ly': L[1], 'lz': L[2], 'xy': 0.0, 'xz': 0.0, 'yz': 0.0, 'origin': o, 'rot': None, 'lefthanded': False}
        coord = st.sampled_from([0.0, 1.0, 0.5, 0.25, -0.25, 1.25, 0.0, 1.0])
        pts = draw(st.lists(st.lists(coord, min_size=3, max_size=3), min_size=1, max_size=8))
        return {'cell': c, 'rel': pts, 'dyadic': True, 'inclusive': draw(st.booleans()), 'aslist': draw(st.booleans())}
    c = draw(gens.cells(scaled=True))
    pts = draw(gens.relpoints(1, 8, lo=-1.0, hi=2.0, special=False))
    return {'cell': c, 'rel': pts, 'dyadic': False, 'inclusive': draw(st.booleans()), 'aslist': draw(st.booleans())}


def oracle_inside(case):
    import atomman as am
    c = case['cell']
    V, o = gens.cell_vects(c), gens.cell_origin(c)
    B = am.Box(vects=V, origin=o)
    labels = gens.cell_labels(c)
    s = np.array(case['rel'], dtype=float)
    x = s @ V + o
    incl = bool(case['inclusive'])
    arg = x.tolist() if case['aslist'] else x
    got = np.asarray(B.inside(arg, inclusive=incl))
    require(got.shape == (len(s),) and got.dtype == bool, lambda: 'inside returned shape %r dtype %r' % (got.shape, got.dtype))
    gout = np.asarray(B.outside(arg, inclusive=not incl))
    require(np.array_equal(gout, ~got), lambda: 'outside(p, inclusive=%r) != not inside(p, inclusive=%r): %r vs %r' % (not incl, incl, gout, got))
    if case['dyadic']:
        # x computed exactly (dyadic numbers): decide exactly from s
        exp = np.all((s >= 0) & (s <= 1), axis=1) if incl else np.all((s > 0) & (s < 1), axis=1)
        require(np.array_equal(got, exp), lambda: 'inside(inclusive=%r) on exact points: expected %r got %r (rel %r)' % (incl, exp.tolist(), got.tolist(), s.tolist()))
        onface = np.any((s == 0) | (s == 1), axis=1) & np.all((s >= 0) & (s <= 1), axis=1)
        labels.add('dyadic')
        if onface.any():
            labels.update({'onface', 'nt'})
        return labels
    # generic: recompute relative coordinates from x by my own solve, exempt a band around faces
    sr = np.linalg.solve(V.T, (x - o).T).T
    cond = np.linalg.cond(V)
    band = 1e-9 * cond + 1e-12 * np.abs(o).max() * np.abs(np.linalg.inv(V)).sum(axis=0).max()
    near = np.any((np.abs(sr) < band) | (np.abs(sr - 1) < band), axis=1)
    exp = np.all((sr >= 0) & (sr <= 1), axis=1)
    bad = (~near) & (exp != got)
    require(not bad.any(), lambda: 'inside(inclusive=%r): expected %r got %r for relative coords %r' % (incl, exp.tolist(), got.tolist(), sr.tolist()))
    if near.any():
        labels.add('band_exempt')
    if (labels & {'tilted', 'rotated', 'origin'}) and exp.any() and (~exp).any():
        labels.add('nt')
    return labels


# ----------------------------------------------------------------------------- recip_cache (history)

@st.composite
def cache_cases(draw):
    n = draw(st.integers(2, 6))
    ops = []
    for _ in range(n):
        kind = draw(st.sampled_from(['vects=', 'origin=', 'set_vectors', 'set_abc', 'set_lengths', 'set_hi_los', 'set(vects)', 'set(origin)']))
        # setters that take arbitrary vectors also get rigidly rotated cells (all nine components non-zero)
        c = draw(gens.cells(rotated=kind in ('vects=', 'set_vectors', 'set(vects)'), scaled=True))
        ops.append({'op': kind, 'cell': c, 'touch': draw(st.booleans())})
    return {'start': draw(gens.cells(rotated=True, scaled=True)), 'ops': ops, 'probe': draw(gens.relpoints(1, 1))[0]}


def oracle_cache(case):
    import atomman as am
    c0 = case['start']
    V, o = gens.cell_vects(c0), gens.cell_origin(c0)
    B = am.Box(vects=V, origin=o)
    B.reciprocal_vects  # populate the caches
    B.inside(o + 0.5 * V.sum(axis=0))
    p = np.array(case['probe'], dtype=float)
    kinds = set()
    for step, op in enumerate(case['ops']):
        c = op['cell']
        nV, no = gens.cell_vects(c), gens.cell_origin(c)
        k = op['op']
        kinds.add(k)
        if k == 'vects=':
            B.vects = nV; V = nV
        elif k == 'origin=':
            B.origin = no; o = no
        elif k == 'set(origin)':
            B.set(origin=no); o = no
        elif k == 'set(vects)':
            B.set(vects=nV, origin=no); V, o = nV, no
        elif k == 'set_vectors':
            B.set_vectors(nV[0], nV[1], nV[2], origin=no); V, o = nV, no
        elif k == 'set_lengths':
            B.set_lengths(lx=nV[0, 0], ly=nV[1, 1], lz=nV[2, 2], xy=nV[1, 0], xz=nV[2, 0], yz=nV[2, 1], origin=no); V, o = nV, no
        elif k == 'set_hi_los':
            B.set_hi_los(no[0], no[0] + nV[0, 0], no[1], no[1] + nV[1, 1], no[2], no[2] + nV[2, 2], xy=nV[1, 0], xz=nV[2, 0], yz=nV[2, 1]); V, o = nV, no
        elif k == 'set_abc':
            if np.linalg.cond(nV) > 1e3:
                continue
            a, b, cc, al, be, ga = my_params(nV)
            B.set_abc(a, b, cc, al, be, ga, origin=no); V, o = nV, no
        cond = np.linalg.cond(V)
        tolrel = 1e-8 + 40 * EPS * cond ** 2
        Bv = np.asarray(B.vects, dtype=float)
        require(np.abs(Bv - V).max() <= tolrel * np.abs(V).max(), lambda: 'step %d (%s): vects are %r expected %r' % (step, k, Bv, V))
        require(np.abs(np.asarray(B.origin) - o).max() <= 1e-12 * (np.abs(o).max() + np.abs(V).max()), lambda: 'step %d (%s): origin %r expected %r' % (step, k, B.origin, o))
        R = np.asarray(B.reciprocal_vects, dtype=float)
        dual = np.abs(Bv @ R.T - np.eye(3)).max()
        require(dual <= 1e-11 * cond, lambda: 'step %d (%s): reciprocal_vects stale: vects.recip^T - I = %.3g' % (step, k, dual))
        x = p @ V + o
        gs = B.position_cartesian_to_relative(x)
        ninv = np.abs(np.linalg.inv(V)).sum(axis=0).max()
        tol_s = 3 * (tolrel * 3 * cond + 1e-13 * (np.abs(o).max() + np.abs(V).max() * 3) * ninv)
        require(np.abs(gs - p).max() <= tol_s, lambda: 'step %d (%s): cartesian_to_relative uses stale cell: got %r expected %r' % (step, k, gs, p))
        # inside() after every step of the history (any cached planes must follow origin and vectors alike)
        pin = np.array([[0.5, 0.5, 0.5], p, [0.25, 0.75, 0.5] + np.floor(p)], dtype=float)
        clear = ~np.any((np.abs(pin) < 1e-6) | (np.abs(pin - 1) < 1e-6), axis=1)
        exp_in = np.all((pin >= 0) & (pin <= 1), axis=1)
        got_in = np.asarray(B.inside(pin @ V + o))
        require(np.array_equal(got_in[clear], exp_in[clear]),
                lambda: 'step %d (%s): inside() = %r for relative coordinates %r (expected %r): stale planes?' % (step, k, got_in.tolist(), pin.tolist(), exp_in.tolist()))
        if op['touch']:
            B.reciprocal_vects
            B.planes
    labels = {'ops%d' % len(case['ops'])}
    if len(kinds) >= 2:
        labels.add('nt')
    return labels


CLAUSES = [
    Clause('roundtrip', oracle_roundtrip, roundtrip_cases, quick=16000, thorough=400000,
           min_share={'nt': 0.25, 'read_abc': 0.1, 'read_hilo': 0.05, 'int_typed_lengths': 0.03},
           desc='build from one parameter set, read another, rebuild: same cell (same vectors if LAMMPS-compatible, else same Gram matrix/handedness)'),
    Clause('getters', oracle_getters, getters_cases, quick=8000, thorough=200000, min_share={'nt': 0.5},
           desc='a,b,c,alpha,beta,gamma,volume,reciprocal vectors, LAMMPS getters against independent formulas'),
    Clause('posmaps', oracle_posmaps, posmaps_cases, quick=12000, thorough=300000, min_share={'nt': 0.25, 'list': 0.15},
           desc='relative<->Cartesian maps against s.V+o, mutual inverses, shapes, list and array input'),
    Clause('inside', oracle_inside, inside_cases, quick=12000, thorough=300000, min_share={'nt': 0.25, 'onface': 0.08},
           desc='inside()/outside() against relative coordinates in [0,1]; exact boundary behaviour on dyadic orthogonal cells'),
    Clause('recip_cache', oracle_cache, cache_cases, quick=3000, thorough=60000, min_share={'nt': 0.5},
           desc='history of setters on one Box: vects/origin/reciprocal cache consistent after every step'),
]
