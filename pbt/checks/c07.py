"""C07 - Written LAMMPS data/dump and POSCAR files are well formed and describe the system.

Every file is produced through System.dump(...) as a string, into an io.StringIO or (data files, a share) into a
named file in a private temporary directory, and read back by the independent readers in pbt/oracles (lammps_data,
lammps_dump, poscar; unit table lammps_units).  Nothing of atomman.load is used.

Data files are also written through the potential= route (PotentialLAMMPS records built offline with
potentials.build_lammps_potential for every pair_coeff layout of the builders), with and without explicit
units/atom_style arguments that differ from the potential's own; the same body oracle judges the file with the
values that have to win, and the returned command snippet (units, atom_style, boundary, read_data, pair_style,
pair_coeff, mass, comment prints) is judged against what was written.  Systems are handed over in several
documented input forms (arrays, lists, Fortran-ordered, strided, read-only) and, for a share, after earlier
non-modifying uses of the same System / potential object.

Round 4 classes: (i) atom_style hybrid with two or three sub-styles that share a column (every such combination, enumerated
in clause hybrid_shared under every unit style that rescales the shared column, and as a share of the generated data and
snippet cases); (ii) almost orthogonal cells, tilt / box length = +-10**[-12,-3], in all three formats, judged against the
cell a Box holds after its documented 1e-9 clean-up; (iii) the process-wide working units: a share of the data, dump and
snippet cases runs after unitconvert.reset_units (named units, integer seeds, 'SI'), the case's physical system expressed in
those units, optionally after the same dump under the default or yet another configuration in the same process; the
default units are restored in a finally block.

Cross-pollination round (generator classes that caught seeded changes in other properties; helpers in pbt/gens_c07.py):
(A) result ledger, clause ledger: sequences of writer calls whose returned objects (content, snippet, the prop_info list of
return_prop_info=True, the file-like object) and systems are kept and re-read bit for bit after later calls on the same and
other objects, every call repeated on fresh objects; (B) caller side: every oracle checks that the System, the arrays it was
built from and list arguments are bit-identical after the call (all of it for the non-modifying writers and safecopy=True,
everything but positions and cell for the documented in-place wrap); a share of the systems are `recycled` objects (built in
another state, written in all formats, then overwritten in place / through the setters into the case's state); the ledger
hands the returned prop_info back in as a hand-typed prop_info= list and lets the caller scribble over everything it was
handed before the calls are repeated; (C) form `narrow`: per-atom arrays stored as float32 / float16 / big-endian / int8 ..
uint32 with the limits of the dtype in the free integer columns, positions too for dump files and POSCAR, numpy scalars for
natypes / box_scale; the system's values are the stored ones; (E) atoms 1e-12 .. 1e-3 from a face (all formats), POSCAR scale
factors that close to one; (F) `decades`: per-atom values scaled by one power of ten per atom, 12 decades apart, every row
judged to its own printed precision and token-identical to the same atom written alone; (G) `sym`: tilts of exactly half a
length, equal lengths / tilts, centred origin, POSCAR cells relabelled by one of the 23 proper signed axis permutations;
(H) all four position columns of a dump file in every sampled order (hybrids: clause hybrid_shared).

Listed findings: a disagreement that belongs to an `open:` key of known_findings.txt is collected (class Known)
and raised only after all other checks of the case have run, so the rest of the oracle stays active behind it;
blocking ones (the writer raises) are raised at once.  The share guards of the two clauses that are blocked as a
whole on the unchanged tree (poscar, snippet) are switched on only when the tree under test lets them through.
"""
import copy
import functools
import io
import os
import shutil
import tempfile

import numpy as np
from hypothesis import strategies as st

from ..core import Clause, Violation, require
from .. import gens
from .. import gens_c07 as g7
from ..oracles import lammps_units as LU
from ..oracles import lammps_data as LD
from ..oracles import lammps_dump as LP
from ..oracles import poscar as PO

RULE = ("systems: LAMMPS-compatible cells (orthogonal/triclinic, lengths 0.5-50, tilts up to 1.5 lengths, any origin; "
        "POSCAR also rigidly rotated cells), 1-10 atoms at relative coordinates in [-2,3] mixed with exact 0, 1/4, 1/2, 1 "
        "(inside, outside, on faces), all 8 periodicity settings, 1-4 atom types with gaps, per-atom values in working "
        "units (A, amu, eV, e); every atom_style of the writer incl. hybrids, 8 unit styles, 4 float formats, optional "
        "velocities / own atom ids / scalar, vector and 3x3 extras, x|xs|xu|xsu column variants, POSCAR direct/Cartesian "
        "with scale 1, 0.5, 3.7, a.  Non-trivial: (cell tilted or origin != 0) AND >=1 atom outside [0,1)^3 AND "
        "(atom_style != atomic or units != metal) [data]; ... AND (units != metal or a scaled/unwrapped column or an "
        "extra) [dump]; (tilted, rotated or origin != 0) AND (scale != 1 or Cartesian) [poscar]; style or units not the "
        "default [snippet].  Data/snippet: a share through potential= (8 pair styles built offline, 1-3 model symbols, "
        "allsymbols, system masses, comments on/off; explicit units/atom_style differing from the potential's in most), "
        "f = str | StringIO | file name; all clauses: inputs as arrays | lists | Fortran | strided | read-only, a share "
        "after earlier non-modifying dumps/reads on the same object; data/snippet: ~25 % hybrids of 2-3 sub-styles sharing a column "
        "(mostly under unit styles that rescale it; all combinations enumerated in clause hybrid_shared); all formats: ~18 % cells "
        "with tilt/length = +-10**[-12,-3]; data/dump/snippet: ~25 % under other process-wide working units (named | seed | SI), "
        "three quarters of them after the same dump under the default / another configuration; all clauses: ~20 % atoms 1e-12..1e-3 "
        "from a face, ~15 % exactly structured cells (half tilts, equal lengths/tilts, centred origin; POSCAR: signed axis permutations), "
        "~2/9 per-atom arrays stored narrow / non-native (float32, float16, big-endian, int8..uint32 at the dtype limits; numpy scalar "
        "arguments), ~1/7 recycled System objects (earlier state written, then overwritten in place / through setters); data/dump: ~15 % "
        "per-atom values spanning 12 decades; POSCAR: ~1/6 scale factors 1e-12..1e-3 from one; ledger: 2-3 calls, everything returned "
        "and handed in re-read after later calls, calls repeated on fresh objects before and after the caller overwrote its objects")
ASSUMPTIONS = [
    "the SI values of the LAMMPS units are those of the manual's units page (pbt/oracles/lammps_units.py); working-unit "
    "numbers are taken to SI with the plain base units m, kg, s, C of atomman.unitconvert (judged by C09)",
    "which System property feeds which file column is atomman's documented naming (m_id->mol, charge->q, mu->mux.., "
    "espin->spin, ...); columns without a LAMMPS unit on the manual page (flags, spin, etag, rho/e/cv of style meso, "
    "cs_re/cs_im, free extras) are compared as stored",
    "units electron together with a style that has a density column is outside the domain (the manual defines no "
    "density unit for electron)",
    "template and smd: either published column order is accepted",
    "a float format too coarse to separate lo from hi (box length < 200 print quanta) only gets the structural checks",
    "potential route: the command lines of potentials.PotentialLAMMPS.pair_data_info are trusted for their syntax; "
    "judged is that they name the units/atom_style/boundary/file the data file was written with and list exactly the "
    "atom types of the file (symbols in type order, one mass per type; mass numbers only under metal/real units where "
    "g/mol is the working unit); a system handed to a potential has all symbols set (potentials asserts it)",
    "data files: the writer's documented wrap (periodic directions wrapped with image flags, non-periodic bounds "
    "extended to hold all atoms) is part of the contract; how far a bound is extended is not checked",
    "the system's cell is what a Box holds for the vectors handed over: Box.vects zeroes components up to 1e-9 of the largest "
    "one (documented clean-up, DESIGN 2); it acts again when the data-file wrap extends the cell, so a tilt up to 1e-9 of the "
    "largest WRITTEN cell component may be written as zero (faces then off by that tilt times the extension)",
    "working units: unitconvert.reset_units applies a configuration (C09); a system 'in other working units' is the same physical "
    "system, numbers rescaled with own factors from numericalunits attributes; the potential route's mass numbers are compared "
    "only while amu is the working mass unit; POSCAR files carry working-unit numbers unconverted and are not run under other units",
    "storage dtypes: Atoms keeps the dtype of the arrays it is given (documented: values are converted to numpy arrays, existing "
    "keys are saved over); the system's values are the stored ones (floats rounded to the dtype by the check, so exactly representable). "
    "Positions of data files are not stored narrow: the documented in-place wrap saves the wrapped coordinates over the stored "
    "array, i.e. rounds them to the storage dtype (Atoms semantics, judged by C06)",
    "recycled objects: overwriting system.atoms.<prop>[...] / system.atoms.<prop> = value / atoms_prop(key, value=), Box.set / "
    "System.box_set and the pbc setter are the documented ways of re-defining a System; the atom types are not re-defined",
    "returned prop_info (atom_dump, return_prop_info=True): documented as the filled-in structure that allows 1:1 load/dump "
    "conversions - it lists the file's columns in order, belongs to the caller, and prop_info= re-typed from it gives the same file",
]
LEVEL_TEXT = ("Generated systems x atom styles (all hybrids of 2-3 sub-styles with a shared column enumerated) x unit styles x float "
              "formats (x input forms, earlier uses of the object, potential= with overriding arguments, string/file-like/file-name "
              "sinks, almost orthogonal cells, other process-wide working units incl. after earlier dumps in the process) written with dump('atom_data'|'atom_dump'|"
              "'poscar') and read by independent parsers: structure, counts, bounds/tilt conventions, ids, containment, "
              "and every column against the snapshot converted with an independent unit table, to the printed precision.  Cross-cutting: "
              "atoms next to faces, exactly structured cells, values over 12 decades, narrow / non-native storage dtypes, recycled objects, "
              "arguments and systems bit-identical after every call, and a ledger of returned objects re-read after later calls.")
TECHNIQUE = "independent LAMMPS data/dump and POSCAR readers + LAMMPS-manual unit table; printed-precision interval comparison"
WALL = {'quick': 60, 'thorough': 540}

EPS = 2.3e-16


# ============================================================================= small helpers

def cell_vects7(c):
    """cell vectors of a case: gens.cell_vects, for POSCAR cases optionally with the axes relabelled by a proper signed
    permutation P (exact: every component is +- one component of the LAMMPS cell)"""
    V = gens.cell_vects(c)
    if c.get('P') is not None:
        V = V @ np.array(c['P'], dtype=float).T + 0.0
    return V


def half(tok):
    """half a unit in the last printed digit of a numeric token"""
    t = tok.lower().lstrip('+-')
    ex = 0
    if 'e' in t:
        t, e = t.split('e')
        ex = int(e)
    nd = len(t.split('.')[1]) if '.' in t else 0
    return 0.5 * 10.0 ** (ex - nd)


def fv(tok):
    return float(tok), half(tok)


class Known:
    """collects violations that carry a key of a listed finding so that the remaining checks still run;
    the first one is raised at the end of the oracle"""
    def __init__(self):
        self.items = []

    def add(self, detail, key):
        self.items.append((detail, key))

    def has(self, key):
        return any(k == key for _, k in self.items)

    def finish(self):
        if self.items:
            raise Violation(self.items[0][0], key=self.items[0][1])


UNIT_KEYS = {
    ('cgs', 'charge'): 'C07:units:cgs:charge', ('cgs', 'dipole'): 'C07:units:cgs:charge',
    ('electron', 'velocity'): 'C07:units:electron:velocity', ('electron', 'ang-mom'): 'C07:units:electron:velocity',
    ('electron', 'dipole'): 'C07:units:electron:dipole',
}
K_HYBRID = 'C07:hybrid:units-ignored'
K_SNIPPET = 'C07:snippet:units-none'
K_VOLUME = 'C07:style:volume-unit-missing'
K_LJ_ANG = 'C07:units:lj:ang-derived'
K_LJ_DUMP = 'C07:dump:lj:torque-none'
K_POSCAR_COUNT = 'C07:poscar:count-eq-list'
K_POSCAR_CART = 'C07:poscar:cartesian-scale'
K_POSCAR_NTYPES = 'C07:poscar:unused-last-type'
K_NARROW = 'C07:narrow-float-column:unit-conversion-in-storage-dtype'
K_BIGENDIAN = 'C07:big-endian-columns:writer-raises'
K_POSCAR_NARROW = 'C07:poscar:narrow-float-positions:scale-division-in-storage-dtype'


def base_units():
    import atomman.unitconvert as uc
    return {k: float(uc.unit[k]) for k in ('m', 'kg', 's', 'C')}


def cmp_value(kn, what, tok, exp_w, quantity, units, hybrid, base, extra_abs=0.0, store=None):
    """token against exp_w (working units) converted to `units`; True if it agrees.  A disagreement that belongs
    to a listed finding is recorded in kn, any other raises.  store: name of the narrow float dtype the column is stored
    in (exp_w is exactly representable in it)."""
    got, h = fv(tok)
    f, rel = LU.factor(units, quantity, base)
    exp = exp_w * f
    tol = h + (rel + 16 * EPS) * abs(exp) + extra_abs
    if abs(got - exp) <= tol:
        return True
    detail = ('%s: file has %s, the system value %.17g converted to %s %s is %.17g (|diff| %.3g > tol %.3g)'
              % (what, tok, exp_w, units, quantity or 'dimensionless', exp, abs(got - exp), tol))
    if store is not None and f != 1.0:
        # the value the conversion gives when it is carried out in the storage dtype (factor rounded to the dtype,
        # quotient rounded / flushed to zero / overflowing there)
        with np.errstate(all='ignore'):
            emu = float(np.asarray(exp_w, dtype=store) / np.asarray(1.0 / f, dtype=store))
        eps_s = float(np.finfo(store).eps)
        if (np.isfinite(emu) and abs(got - emu) <= tol + 4 * eps_s * abs(emu)) or abs(got - exp) <= tol + 4 * eps_s * abs(exp) \
                or (not np.isfinite(emu) and not np.isfinite(got)):
            kn.add(detail + ' [column stored as %s: the conversion was carried out in %s]' % (store, store), K_NARROW)
            return False
    if hybrid and quantity is not None and units != 'metal':
        fm, relm = LU.factor('metal', quantity, base)
        if abs(got - exp_w * fm) <= h * 1.0001 + (relm + 16 * EPS) * abs(exp_w * fm) + extra_abs:
            kn.add(detail + ' [equals the value in metal units: hybrid sub-style tables ignore units]', K_HYBRID)
            return False
    key = UNIT_KEYS.get((units, quantity))
    if key is not None:
        kn.add(detail, key)
        return False
    raise Violation(detail)


def cmp_int(what, tok, exp):
    require(LD.is_int(tok) and int(tok) == int(exp), lambda: '%s: file has %r, the system has %r' % (what, tok, exp))


# ============================================================================= generators

STYLES = ('atomic',) + tuple(k for k in sorted(LD.ATOM_COLUMNS) if k != 'atomic')
UNITS = ('metal', 'real', 'si', 'cgs', 'electron', 'micro', 'nano', 'lj')
assert set(UNITS) == set(LU.STYLES)
HYBRIDS = ('hybrid charge sphere', 'hybrid sphere dipole', 'hybrid molecular charge', 'hybrid bond ellipsoid',
           'hybrid full sphere', 'hybrid electron', 'hybrid charge peri')
ALL_STYLES = STYLES + HYBRIDS
FORMATS = ('%.13f', '%.8f', '%.5e', '%.16e')

# ----------------------------------------------------------------------------- hybrids whose sub-styles share a field
# LAMMPS lists a value that several sub-styles of `atom_style hybrid` define once; the writer has to convert it once.
# Every ordered pair / triple of distinct sub-styles with at least one common per-atom column beyond id type x y z
# (mol | q | density | mass | volume | spin+eradius) is generated.  A shared column is "scaled" under a unit style when
# its working-unit -> LAMMPS-unit factor is not one (only then a conversion applied twice, or not at all, shows).
SUBSTYLES = tuple(k for k in STYLES if k != 'atomic')


def _extra_cols(sub):
    return [c for c in LD.ATOM_COLUMNS[sub] if c not in ('id', 'type', 'x', 'y', 'z')]


def shared_columns(style):
    """columns that more than one sub-style of a hybrid style defines (manual names), in column order"""
    words = style.split()
    if words[0] != 'hybrid':
        return []
    seen, shared = [], []
    for sub in words[1:]:
        for c in _extra_cols(sub):
            if c in seen:
                if c not in shared:
                    shared.append(c)
            else:
                seen.append(c)
    return shared


def _overlapping(k):
    import itertools
    out = []
    for combo in itertools.permutations(SUBSTYLES, k):
        style = 'hybrid ' + ' '.join(combo)
        if shared_columns(style):
            out.append(style)
    return tuple(out)


OVER2 = _overlapping(2)
OVER3 = _overlapping(3)
# the default working units (angstrom, amu, eV, e; time follows) in SI - only to pick unit styles in the generator,
# the oracle takes the live table
_DEF_BASE = {'m': 1e10, 'kg': 1.0 / LU.AMU, 'C': 1.0 / LU.E, 's': 1.0 / (1e-10 * (LU.AMU / LU.E) ** 0.5)}


def scaled_shared(style, units, base):
    """the shared columns of a hybrid style whose conversion factor under `units` differs from one"""
    out = []
    for c in shared_columns(style):
        q = COLMAP[c][2]
        if q is None or units == 'lj':
            continue
        try:
            f = LU.factor(units, q, base)[0]
        except KeyError:
            continue
        if abs(f - 1.0) > 1e-6:
            out.append(c)
    return out

# data-file column -> (System property, component, LAMMPS quantity)
COLMAP = {
    'mol': ('m_id', None, None), 'q': ('charge', None, 'charge'),
    'mux': ('mu', 0, 'dipole'), 'muy': ('mu', 1, 'dipole'), 'muz': ('mu', 2, 'dipole'),
    'spin': ('espin', None, None), 'eradius': ('eradius', None, 'length'),
    'ellipsoidflag': ('eflag', None, None), 'lineflag': ('lflag', None, None), 'triangleflag': ('tflag', None, None),
    'bodyflag': ('bflag', None, None), 'density': ('density', None, 'density'), 'mass': ('mass', None, 'mass'),
    'rho': ('rho', None, None), 'e': ('e', None, None), 'cv': ('cv', None, None),
    'volume': ('volume', None, 'volume'), 'kradius': ('kradius', None, 'length'), 'cradius': ('cradius', None, 'length'),
    'diameter': ('diameter', None, 'length'), 'templateindex': ('m_template', None, None),
    'templateatom': ('a_template', None, None), 'etag': ('e_id', None, None),
    'cs_re': ('cs_re', None, None), 'cs_im': ('cs_im', None, None),
}
VELMAP = {
    'vx': ('velocity', 0, 'velocity'), 'vy': ('velocity', 1, 'velocity'), 'vz': ('velocity', 2, 'velocity'),
    'ervel': ('eradial_velocity', None, 'velocity'),
    'lx': ('ang_momentum', 0, 'ang-mom'), 'ly': ('ang_momentum', 1, 'ang-mom'), 'lz': ('ang_momentum', 2, 'ang-mom'),
    'wx': ('ang_velocity', 0, 'ang-vel'), 'wy': ('ang_velocity', 1, 'ang-vel'), 'wz': ('ang_velocity', 2, 'ang-vel'),
}
PROPGEN = {
    'm_id': ('int', 1, 5), 'charge': ('float', -3, 3), 'mu': ('vec', -2, 2), 'espin': ('int', -1, 3),
    'eradius': ('float', 0.1, 3), 'eflag': ('int', 0, 1), 'lflag': ('int', 0, 1), 'tflag': ('int', 0, 1),
    'bflag': ('int', 0, 1), 'density': ('float', 0.5, 20), 'mass': ('float', 1, 200), 'rho': ('float', 0, 10),
    'e': ('float', 0, 10), 'cv': ('float', 0, 10), 'volume': ('float', 0.5, 50), 'kradius': ('float', 0.5, 5),
    'cradius': ('float', 0.5, 5), 'diameter': ('float', 0.1, 5), 'radius': ('float', 0.1, 5),
    'm_template': ('int', 1, 4), 'a_template': ('int', 1, 4), 'e_id': ('int', 1, 9), 'cs_re': ('float', -1, 1),
    'cs_im': ('float', -1, 1), 'velocity': ('vec', -5, 5), 'eradial_velocity': ('float', -2, 2),
    'ang_momentum': ('vec', -3, 3), 'ang_velocity': ('vec', -3, 3), 'force': ('vec', -2, 2),
    'pe': ('float', -6, 0), 'tag': ('int', 0, 9), 'disp': ('vec', -1, 1), 'stress': ('ten', -2, 2),
}


def style_props(style, velocity):
    cols = LD.atom_columns(style)[0]
    names = []
    for c in cols:
        if c in COLMAP and COLMAP[c][0] not in names:
            names.append(COLMAP[c][0])
    if velocity:
        for c in LD.velocity_columns(style)[1:]:
            if VELMAP[c][0] not in names:
                names.append(VELMAP[c][0])
    return names


def style_needs(style, colname):
    return colname in LD.atom_columns(style)[0]


@functools.lru_cache(maxsize=None)
def _allowed_units(style):
    return tuple(u for u in UNITS if not (u == 'electron' and style_needs(style, 'density')))


@functools.lru_cache(maxsize=None)
def _units_for(style):
    allowed = _allowed_units(style)
    if style.startswith('hybrid'):
        # hybrids with a shared column: mostly the unit styles under which that column is rescaled
        hot = tuple(u for u in allowed if scaled_shared(style, u, _DEF_BASE))
        if hot:
            return st.sampled_from(hot + hot + hot + allowed)
    return st.sampled_from(allowed)


@functools.lru_cache(maxsize=None)
def _fmt_for(units):
    if units in ('si', 'cgs'):
        return st.sampled_from(('%.13f', '%.5e', '%.16e', '%.16e'))
    return st.sampled_from(FORMATS)


def gen_prop(rng, name, n):
    kind, lo, hi = PROPGEN[name]
    if kind == 'int':
        return [int(v) for v in rng.integers(lo, hi + 1, size=n)]
    if kind == 'float':
        return [round(float(v), 4) for v in rng.uniform(lo, hi, size=n)]
    if kind == 'vec':
        return [[round(float(v), 4) for v in row] for row in rng.uniform(lo, hi, size=(n, 3))]
    return [[[round(float(v), 4) for v in r] for r in m] for m in rng.uniform(lo, hi, size=(n, 3, 3))]


def gen_atype(rng, n):
    nt = int(rng.integers(1, 5))
    pool = list(range(1, nt + 1))
    if nt >= 3 and rng.integers(0, 2):
        pool.remove(int(rng.integers(1, nt)))          # a gap below the highest type
    return [int(pool[i]) for i in rng.integers(0, len(pool), size=n)]


def _clean_cell(c):
    # crystal-family cells carry tilts like 5e-16 (cos 90 deg); Box floors such components anyway - give the
    # case printable numbers so that "tilted" is exact
    c = dict(c)
    for k in ('lx', 'ly', 'lz', 'xy', 'xz', 'yz'):
        c[k] = round(c[k], 6) + 0.0
    return c


_CELLS_LMP = gens.cells(rotated=False).map(_clean_cell)
_CELLS_ANY = gens.cells(rotated=True).map(_clean_cell)
_REL = gens.relpoints(1, 10)
_REL_SMALL = gens.relpoints(1, 3)
_SEED = st.integers(0, 2 ** 32 - 1)
_BITS = st.integers(0, 4095)
# (the shared column of most combinations is the unit-less molecule id: those that share a column with a unit get their own branches)
_OVER2U = tuple(h for h in OVER2 if any(COLMAP[c][2] is not None for c in shared_columns(h)))
_OVER3U = tuple(h for h in OVER3 if any(COLMAP[c][2] is not None for c in shared_columns(h)))
_ALLSTYLES = st.one_of(st.sampled_from(ALL_STYLES), st.sampled_from(ALL_STYLES), st.sampled_from(ALL_STYLES),
                       st.sampled_from(ALL_STYLES), st.sampled_from(ALL_STYLES), st.sampled_from(_OVER2U), st.sampled_from(_OVER3U),
                       st.sampled_from(OVER2 + OVER3))
_SYMS = ('Fe', 'Cu', 'Al', 'O', 'Fe')


def gen_symbols(rng, natypes, mode):
    """mode 0: none, 1: all set, 2: one missing (None), 3: all set + one unused trailing symbol"""
    if mode == 0:
        return None
    syms = [_SYMS[int(i)] for i in rng.integers(0, len(_SYMS), size=natypes)]
    if mode == 2:
        syms[int(rng.integers(0, natypes))] = None
    if mode == 3:
        syms.append('Ni')
    return syms




# ----------------------------------------------------------------------------- almost orthogonal cells
# tilt factors that are tiny but not zero (shear strains 1e-12 .. 1e-3, log-uniform): tilt / box length = sign * 10**e.
# Box (documented clean-up, DESIGN 2) zeroes vector components up to 1e-9 of the largest one: the system's cell is the
# cleaned one (cleaned_vects below); ratios within 10 % of that rung are moved off it by construction.
_TINY_ONE = st.tuples(st.sampled_from((0, 1, 2, 2, 2)), st.floats(-12.0, -3.0, allow_nan=False), st.sampled_from((-1.0, 1.0)))
_TINY = st.one_of(st.none(), st.none(), st.none(), st.none(), st.tuples(_TINY_ONE, _TINY_ONE, _TINY_ONE))
_TINY_SN = st.one_of(st.none(), st.none(), st.none(), st.tuples(_TINY_ONE, _TINY_ONE, _TINY_ONE))      # (snippet clause: a little more often)
CLEAN_RUNG = 1e-9


def apply_tiny(c, tt):
    """cell dict with tiny tilts put in: per tilt factor (mode, exponent, sign); mode 0 keeps the cell's value,
    1 sets zero, 2 sets sign * 10**exponent * length; at least one factor is made tiny"""
    if tt is None:
        return c
    c = dict(c)
    tt = [list(t) for t in tt]
    if not any(t[0] == 2 for t in tt):
        tt[int(abs(tt[0][1]) * 7) % 3][0] = 2
    for key, lk, (mode, ex, sg) in zip(('xy', 'xz', 'yz'), ('lx', 'lx', 'ly'), tt):
        if mode == 1:
            c[key] = 0.0
        elif mode == 2:
            c[key] = sg * 10.0 ** ex * c[lk]
    vmax = max(abs(c[k]) for k in ('lx', 'ly', 'lz', 'xy', 'xz', 'yz'))
    for key in ('xy', 'xz', 'yz'):
        r = abs(c[key]) / vmax
        if 0.9 * CLEAN_RUNG < r < 1.1 * CLEAN_RUNG:
            c[key] = c[key] * 2.0
    c['tiny'] = True
    return c


def cleaned_vects(V0):
    """the cell a Box holds for the vectors V0: components up to 1e-9 of the largest are zero (Box.vects, documented).
    Second value: True when a component sits on the rung itself (outcome depends on the last bit; not judged)"""
    r = np.abs(V0) / np.abs(V0).max()
    V = V0.copy()
    V[r <= CLEAN_RUNG] = 0.0
    onrung = bool(np.any((r > 0.999 * CLEAN_RUNG) & (r < 1.001 * CLEAN_RUNG)))
    return V, onrung


# ----------------------------------------------------------------------------- process-wide working units
# atomman.unitconvert.reset_units sets PROCESS-GLOBAL working units.  case['wu'] = None (process left as it is: the
# default units) or {'cfg': configuration the judged dump runs under, 'pre': None | configuration under which the same
# physical system was dumped with the same arguments earlier in the same process}.  The numbers of a case are numbers in
# the default working units (angstrom, amu, eV, e); under another configuration the system is that PHYSICAL system
# expressed in the working units (own factors from numericalunits attributes, = what uc.set_in_units gives), and the file
# is judged against the same independent LAMMPS unit table with the live base units.  The oracle always restores the
# default units (finally).  POSCAR files carry working-unit numbers without any conversion: not part of this class.
DEFAULT_UNITS = {'length': 'angstrom', 'mass': 'amu', 'energy': 'eV', 'charge': 'e'}
DEFAULT_CFG = {'kind': 'named', 'units': dict(DEFAULT_UNITS)}
_WU_NAMED = {'length': ['nm', 'nm', 'pm', 'm', 'cm', 'aBohr', 'um', 'angstrom'], 'mass': ['kg', 'g', 'amu'],
             'time': ['ns', 'ps', 'fs', 's'], 'energy': ['J', 'eV', 'kcal'], 'charge': ['C', 'e']}
# named choices always contain a length unit and never all of length+mass+time+energy (what reset_units does then: C09)
_WU_SUBSETS = [('length',), ('length', 'time'), ('length', 'time'), ('length', 'mass'), ('length', 'energy'), ('length', 'charge'),
               ('length', 'mass', 'time'), ('length', 'mass', 'energy'), ('length', 'time', 'energy'),
               ('length', 'mass', 'time', 'charge'), ('length', 'mass', 'energy', 'charge'), ('length', 'time', 'energy', 'charge')]
_S_WU_SUBSET = st.sampled_from(_WU_SUBSETS)
_S_WU_Q = {q: st.sampled_from(v) for q, v in _WU_NAMED.items()}
_ALT_CFG = [{'kind': 'named', 'units': {'length': 'nm', 'time': 'ns'}}, {'kind': 'named', 'units': {'length': 'pm', 'mass': 'kg', 'energy': 'J'}}]


@st.composite
def _named_cfg(draw):
    sub = draw(_S_WU_SUBSET)
    return {'kind': 'named', 'units': {q: draw(_S_WU_Q[q]) for q in sub}}


_S_CFG = st.one_of(_named_cfg(), _named_cfg(), _named_cfg(), _named_cfg(),
                   st.builds(lambda v: {'kind': 'seed', 'seed': v}, st.integers(0, 2 ** 31 - 1)),
                   st.just({'kind': 'SI'}), st.just(DEFAULT_CFG))
_WU_ON = st.sampled_from((False, False, True))
_WU_PRE = st.sampled_from(('none', 'default', 'default', 'other', 'other'))


def _other_than(cfg, ref):
    # Hypothesis favours its simplest choices: make two configurations differ by construction
    return cfg if cfg != ref else [a for a in _ALT_CFG if a != ref][0]


@st.composite
def work_units(draw):
    if not draw(_WU_ON):
        return None
    cfg = draw(_S_CFG)
    pk = draw(_WU_PRE)
    if pk == 'default':
        cfg = _other_than(cfg, DEFAULT_CFG)
        pre = DEFAULT_CFG
    elif pk == 'other':
        pre = _other_than(draw(_S_CFG), cfg)
    else:
        pre = None
    return {'cfg': cfg, 'pre': pre}


_WU = work_units()


def apply_units(uc, cfg):
    if cfg['kind'] == 'named':
        uc.reset_units(**cfg['units'])
    elif cfg['kind'] == 'seed':
        uc.reset_units(seed=int(cfg['seed']))
    else:
        uc.reset_units(seed='SI')


def restore_units(uc):
    uc.reset_units(length='angstrom', mass='amu', energy='eV', charge='e')


# System property -> LAMMPS quantity (dimension) of its numbers; properties not listed carry plain numbers
PROP_Q = {'charge': 'charge', 'mu': 'dipole', 'eradius': 'length', 'kradius': 'length', 'cradius': 'length',
          'diameter': 'length', 'radius': 'length', 'density': 'density', 'mass': 'mass', 'volume': 'volume',
          'velocity': 'velocity', 'eradial_velocity': 'velocity', 'ang_momentum': 'ang-mom', 'ang_velocity': 'ang-vel',
          'force': 'force'}


def default_unit_sizes():
    """size in the CURRENT working units of the default-working-unit unit of every quantity (own arithmetic)"""
    import numericalunits as nu
    L, M, E, Q = float(nu.angstrom), float(nu.amu), float(nu.eV), float(nu.e)
    T = L * (M / E) ** 0.5
    return {q: L ** a * M ** b * T ** c * Q ** d for q, (a, b, c, d) in LU.DIM.items()}


def _mul(v, f):
    if isinstance(v, list):
        return [_mul(x, f) for x in v]
    return v * f


def in_working_units(case):
    """the case's physical system expressed in the working units in force now (copy; 'wu' removed)"""
    sz = default_unit_sizes()
    out = copy.deepcopy(case)
    out.pop('wu', None)
    c = out['cell']
    for k in ('lx', 'ly', 'lz', 'xy', 'xz', 'yz'):
        c[k] = c[k] * sz['length']
    c['origin'] = [v * sz['length'] for v in c['origin']]
    for name, q in PROP_Q.items():
        if name in out['props']:
            out['props'][name] = _mul(out['props'][name], sz[q])
    if out.get('masses') is not None:
        out['masses'] = [None if m is None else m * sz['mass'] for m in out['masses']]
    out['mass_is_amu'] = bool(abs(sz['mass'] - 1.0) < 1e-12)
    return out


def cfg_labels(wu, labels):
    labels.add('wu')
    cfg = wu['cfg']
    labels.add('wu_' + cfg['kind'] if cfg != DEFAULT_CFG else 'wu_default')
    if cfg['kind'] == 'named' and cfg != DEFAULT_CFG:
        labels.add('wu_len_' + cfg['units']['length'])
    if wu['pre'] is not None:
        labels.add('wu_pre')
        labels.add('wu_pre_default' if wu['pre'] == DEFAULT_CFG else 'wu_pre_other')


def under_units(inner, pre_call):
    """oracle that runs `inner` on the case's physical system under the case's working-unit plan"""
    def oracle(case):
        wu = case.get('wu')
        if wu is None:
            return inner(case)
        import atomman.unitconvert as uc
        try:
            if wu['pre'] is not None:
                apply_units(uc, wu['pre'])
                pre_call(in_working_units(case))
            apply_units(uc, wu['cfg'])
            labels = set(inner(in_working_units(case)))
            cfg_labels(wu, labels)
        finally:
            restore_units(uc)
        return labels
    oracle.__name__ = inner.__name__
    return oracle


# ----------------------------------------------------------------------------- input forms and object history
FORMS = ('array', 'array', 'list', 'fortran', 'readonly', 'strided', 'narrow')      # (the older forms keep their 1/7 each)
PRE_OPS = ('data_safe', 'dump', 'poscar', 'read')
PRE_UNITS = ('metal', 'real', 'si', 'nano')
RECYCLE = ('inplace', 'setter')
LIMIT_PROPS = ('m_id', 'e_id', 'tag')       # integer columns free to take any value: put at the limits of the storage dtype


def gen_form_history(rng):
    """how the inputs are handed to atomman (documented array-likes) and what was done with the system before
    the judged call: operations that are documented not to change the system"""
    form = FORMS[int(rng.integers(0, len(FORMS)))]
    pre = []
    if rng.integers(0, 12) == 0:
        for _ in range(int(rng.integers(1, 3))):
            pre.append([PRE_OPS[int(rng.integers(0, len(PRE_OPS)))], PRE_UNITS[int(rng.integers(0, len(PRE_UNITS)))]])
    return form, pre


def finish_case(case, rng, narrow_pos):
    """input form, earlier uses of the object, and the two caller-side classes that need numbers in the case:
    narrow   the per-atom arrays (and, narrow_pos, the positions) are STORED in a narrow / non-native dtype (g7.FLOAT_DT,
             g7.INT_DT); the oracle takes the stored values (floats rounded to the dtype: exactly representable) as the
             system's values; free integer columns get the limits of the dtype
    recycle  the System object lived before: built in another state (other positions, values, cell, pbc), written in all
             three formats, then overwritten in place / re-defined through the setters into the case's state"""
    case['form'], case['pre'] = gen_form_history(rng)
    case['recycle'] = RECYCLE[int(rng.integers(0, 2))] if rng.integers(0, 7) == 0 else None
    if case['form'] != 'narrow':
        return case
    nr = g7.gen_narrow(rng, allow_f16=case.get('decades') is None)
    nr['pos'] = bool(narrow_pos)
    case['narrow'] = nr
    lo, hi = g7.int_limits(nr['i'])
    props = case['props']
    n = len(case['atype'])
    for name in LIMIT_PROPS:
        if name in props:
            props[name] = list(props[name])
            props[name][int(rng.integers(0, n))] = hi
            if name == 'tag' and lo < 0 and n > 1:
                props[name][int(rng.integers(0, n))] = lo
    if 'atom_id' in props:
        props['atom_id'] = [hi - int(k) for k in rng.permutation(n + 3)[:n]]
    return case


def narrowed(case):
    """the case with the numbers a narrow storage dtype holds (float columns rounded to the dtype: the system's values ARE
    the stored ones).  Numbers that leave the range of the dtype (other working units) are stored as doubles."""
    if case.get('form') != 'narrow':
        return case
    nr = case['narrow']
    out = dict(case)
    props = {}
    for name, v in case['props'].items():
        if name == 'atom_id' or PROPGEN[name][0] == 'int':
            props[name] = v
            continue
        with np.errstate(over='ignore', under='ignore'):
            b = np.array(v, dtype=float).astype(nr['f']).astype(float)
        if not np.all(np.isfinite(b)):
            out['narrow'] = dict(nr, f='float64')
            return out
        props[name] = b.tolist()
    out['props'] = props
    if nr['scalar'] and isinstance(case.get('scale'), float):
        out['scale'] = float(np.dtype(nr['f'] if nr['f'] in ('float32', 'float16') else 'float32').type(case['scale']))
    return out


def narrow_of(case):
    return case['narrow'] if case.get('form') == 'narrow' else None


def narrow_float(case):
    """name of the narrow float dtype the float columns are stored in (None: doubles)"""
    nr = narrow_of(case)
    return nr['f'] if nr is not None and nr['f'] in ('float32', 'float16') else None


# ----------------------------------------------------------------------------- potential= route
# LAMMPS potentials that potentials.build_lammps_potential builds offline (no database, no files read): the pair
# styles cover every pair_coeff layout of the builders (parameter file + one symbol per atom type; library file +
# model symbols + parameter file + symbols; eim; classic eam with one file per type; true pair styles with one
# line per type pair).
POT_STYLES = (('eam/alloy', 'param'), ('tersoff', 'param'), ('sw', 'param'), ('meam', 'libparam'), ('eim', 'eim'),
              ('eam', 'eam'), ('lj/cut', 'pair'), ('morse', 'pair'))
POT_ELEMENTS = ('Ni', 'Al', 'Cu', 'Fe', 'O')
STD_MASS = {'Ni': 58.6934, 'Al': 26.98154, 'Cu': 63.546, 'Fe': 55.845, 'O': 15.999}     # IUPAC standard weights
POT_COMMENTS = (None, 'c07 demonstration potential', 'two lines\nof comments')


def _other(rng, pool, value):
    rest = [v for v in pool if v != value]
    return rest[int(rng.integers(0, len(rest)))]


def gen_pot(rng, style, units, natypes, want_override):
    """potential spec + the system's symbols/masses + the explicit units/atom_style arguments of the dump call.
    `style`/`units` are what the file is to be written with: either given explicitly (then the potential's own
    setting differs - the documented "individual values will be used" - or, rarely, coincides) or taken from the
    potential (argument None)."""
    ps, kind = POT_STYLES[int(rng.integers(0, len(POT_STYLES)))]
    npot = int(rng.integers(1, 4))
    elements = [POT_ELEMENTS[int(i)] for i in rng.permutation(len(POT_ELEMENTS))[:npot]]
    symbols = [e + 'x' for e in elements] if rng.integers(0, 3) == 0 else list(elements)
    pot = {'pair_style': ps, 'kind': kind, 'elements': elements, 'symbols': symbols,
           'masses': [round(float(v), 3) for v in rng.uniform(1, 200, size=npot)] if rng.integers(0, 2) else None,
           'allsymbols': bool(rng.integers(0, 3) == 0),
           'comments': POT_COMMENTS[int(rng.integers(0, len(POT_COMMENTS)))],
           'dois': ['10.1000/c07.%d' % int(rng.integers(0, 100))] if rng.integers(0, 3) == 0 else None,
           'commands': [['pair_modify', 'shift', 'yes']] if rng.integers(0, 4) == 0 else None,
           'style_terms': None, 'files': None, 'interactions': None}
    if kind == 'param':
        pot['files'] = ['model.%s' % ps.replace('/', '.')]
    elif kind == 'libparam':
        pot['files'] = ['library.meam', 'model.meam' if rng.integers(0, 2) else None]
    elif kind == 'eim':
        pot['files'] = ['ffield.eim']
    elif kind == 'eam':
        pot['files'] = ['%s.eam' % s for s in symbols]
    else:
        pot['style_terms'] = [round(float(rng.uniform(2, 12)), 2)]
        nterm = 2 if ps == 'lj/cut' else 3
        pot['interactions'] = [{'symbols': sorted([symbols[i], symbols[j]]),
                                'terms': [round(float(v), 3) for v in rng.uniform(0.1, 4, size=nterm)]}
                               for i in range(npot) for j in range(i, npot)]
    # explicit argument / potential's own setting
    args = {}
    for name, value, pool in (('units', units, UNITS), ('atom_style', style, ALL_STYLES)):
        m = int(rng.integers(0, 20))
        if want_override:
            m = 8 + m % 9
        if m < 8:
            args[name] = None; pot[name] = value                    # taken from the potential
        elif m < 17:
            args[name] = value; pot[name] = _other(rng, pool, value)  # explicit value overrides the potential's
        else:
            args[name] = value; pot[name] = value
    sys_symbols = [symbols[int(i)] for i in rng.integers(0, npot, size=natypes)]
    if rng.integers(0, 6) == 0:
        sys_symbols.append(symbols[int(rng.integers(0, npot))])       # a trailing type without atoms
    sys_masses = None
    if rng.integers(0, 5) < 2:
        sys_masses = [round(float(v), 3) if rng.integers(0, 3) else None for v in rng.uniform(1, 200, size=len(sys_symbols))]
    comments_kw = (None, None, True, False, False)[int(rng.integers(0, 5))]
    prior = None
    if rng.integers(0, 4) == 0:
        # the same potential object was used before, for another file with other explicit values
        prior = {'units': UNITS[int(rng.integers(0, len(UNITS)))] if rng.integers(0, 3) else None,
                 'atom_style': ('atomic', 'charge')[int(rng.integers(0, 2))]}
    return pot, args, sys_symbols, sys_masses, comments_kw, prior


def pot_norm_symbols(case):
    """the symbol of every atom type LAMMPS will see: the system's, plus (allsymbols) the potential's unused ones"""
    pot = case['pot']
    out = list(case['symbols'])
    if pot['allsymbols']:
        out += [s for s in pot['symbols'] if s not in out]
    return out


def add_pot(case, rng, want_override):
    """turn a data-file case into one that goes through dump('atom_data', potential=...)"""
    pot, args, syms, masses, comments_kw, prior = gen_pot(rng, case['style'], case['units'], max(case['atype']), want_override)
    case.update({'pot': pot, 'style_arg': args['atom_style'], 'units_arg': args['units'], 'symbols': syms,
                 'masses': masses, 'comments_kw': comments_kw, 'prior': prior})


def add_decades(case, seed):
    """per-atom float values (not the positions) scaled by one power of ten per atom, 12 decades between the extremes"""
    ks = g7.decade_exponents(seed, len(case['atype']))
    case['decades'] = None
    if ks is None:
        return
    hit = False
    for name in list(case['props']):
        if name != 'atom_id' and PROPGEN[name][0] != 'int':
            case['props'][name] = g7.scale_rows(case['props'][name], ks)
            hit = True
    if hit:
        case['decades'] = ks


_POTSHARE_DATA = st.sampled_from((False, False, False, True))
_POTSHARE_SNIPPET = st.sampled_from((False, True, True))


@st.composite
def data_cases(draw):
    c = apply_tiny(g7.apply_sym(draw(_CELLS_LMP), draw(g7.SYM)), draw(_TINY))
    pbc = draw(gens.pbcs)
    rel = g7.apply_near(draw(_REL), draw(g7.NEAR))
    dec = draw(g7.DECADES)
    style = draw(_ALLSTYLES)
    units = draw(_units_for(style))
    fmt = draw(_fmt_for(units))
    bits = draw(_BITS)
    rng = np.random.default_rng(draw(_SEED))
    n = len(rel)
    velocity = bool(bits & 1)
    atype = gen_atype(rng, n)
    props = {name: gen_prop(rng, name, n) for name in style_props(style, velocity)}
    if bits & 64 and not velocity:
        props['pe'] = gen_prop(rng, 'pe', n)              # a property the format has no place for
    own_ids = bool(bits & 128) and bool(bits & 512)
    if own_ids:
        props['atom_id'] = [int(v) for v in rng.permutation(np.arange(1, n + 4))[:n] * 3]
    case = {'cell': c, 'pbc': pbc, 'rel': rel, 'atype': atype, 'props': props, 'symbols': None,
            'style': style, 'units': units, 'fmt': fmt,
            'style_arg': None if (style == 'atomic' and bits & 4) else style,
            'units_arg': None if (units == 'metal' and bits & 8) else units,
            'safecopy': bool(bits & 16), 'return_info': bool(bits & 32),
            'natypes_extra': 1 if (bits & 256) else 0, 'sink': ('str', 'str', 'path', 'io')[(bits >> 10) & 3]}
    add_decades(case, dec)
    if draw(_POTSHARE_DATA):
        add_pot(case, rng, False)
    finish_case(case, rng, narrow_pos=False)
    case['sink'] = ('str', 'str', 'path', 'io')[int(rng.integers(0, 4))]
    case['wu'] = draw(_WU)
    return case


DUMP_OPTIONAL = ('velocity', 'force', 'charge', 'mu', 'mass', 'diameter', 'radius', 'ang_velocity', 'ang_momentum',
                 'm_id', 'pe', 'tag', 'disp', 'stress')
POSVARIANTS = ('pos', 'spos', 'upos', 'supos')
_UNITS_ALL = st.sampled_from(UNITS)


@st.composite
def dump_cases(draw):
    c = apply_tiny(g7.apply_sym(draw(_CELLS_LMP), draw(g7.SYM)), draw(_TINY))
    pbc = draw(gens.pbcs)
    rel = g7.apply_near(draw(_REL), draw(g7.NEAR))
    dec = draw(g7.DECADES)
    units = draw(_UNITS_ALL)
    fmt = draw(_fmt_for(units))
    bits = draw(_BITS)
    rng = np.random.default_rng(draw(_SEED))
    n = len(rel)
    atype = gen_atype(rng, n)
    props = {}
    for name in DUMP_OPTIONAL:
        if rng.integers(0, 4) == 0:
            props[name] = gen_prop(rng, name, n)
    if bits & 1:
        props['atom_id'] = [int(v) for v in rng.permutation(np.arange(1, n + 4))[:n] * 3]
    explicit = None
    if bits & 2:
        # explicit prop_name list: ids, types, 1-3 position variants, then a subset of the other properties
        k = int(rng.integers(1, 5))
        variants = [POSVARIANTS[int(i)] for i in rng.permutation(4)[:k]]
        others = [p for p in props if p != 'atom_id' and rng.integers(0, 2)]
        explicit = ['atom_id', 'atype'] + variants + others
    case = {'cell': c, 'pbc': pbc, 'rel': rel, 'atype': atype, 'props': props, 'symbols': None,
            'units': units, 'fmt': fmt, 'prop_name': explicit, 'sink': 'io' if (bits & 12) == 12 else 'str'}
    add_decades(case, dec)
    finish_case(case, rng, narrow_pos=True)
    if case['form'] == 'narrow' and explicit is None and rng.integers(0, 2):
        # all columns, named explicitly in another order than they are stored in
        case['prop_name'] = ['atom_id', 'atype', 'pos'] + [p for p in props if p != 'atom_id'][::-1]
    case['wu'] = draw(_WU)
    return case


_SCALES_PLAIN = st.sampled_from([1.0, 1.0, 0.5, 3.7, 'a'])
# scale factors 1e-12 .. 1e-3 away from one (a "scale is one" shortcut with a tolerance would show)
_SCALES_NEAR1 = st.tuples(st.floats(-12.0, -3.0, allow_nan=False), st.sampled_from((-1.0, 1.0))).map(lambda t: 1.0 + t[1] * 10.0 ** t[0])
_SCALES = st.one_of(_SCALES_PLAIN, _SCALES_PLAIN, _SCALES_PLAIN, _SCALES_PLAIN, _SCALES_PLAIN, _SCALES_NEAR1)
_COORD = st.sampled_from(['direct', 'cartesian', 'Direct', 'Cartesian'])
_PFMT = st.sampled_from([None, '%.13f', '%.8f', '%.5e', '%.16e'])
_HEADER = st.sampled_from(['', 'generated', 'Fe3 O4  # comment', '  two  words '])


@st.composite
def poscar_cases(draw):
    c = apply_tiny(g7.apply_sym(draw(_CELLS_ANY), draw(g7.SYM)), draw(_TINY))
    perm = draw(g7.PERM)
    if perm is not None:
        # axes relabelled by a proper signed permutation instead of a generic rotation
        c = dict(c, rot=None, P=g7.PROPER24[perm])
    rel = g7.apply_near(draw(_REL), draw(g7.NEAR))
    scale = draw(_SCALES)
    coord = draw(_COORD)
    fmt = draw(_PFMT)
    bits = draw(_BITS)
    rng = np.random.default_rng(draw(_SEED))
    n = len(rel)
    atype = gen_atype(rng, n)
    natypes = max(atype)
    mode = (0, 1, 1, 2, 1, 1, 0, 3)[bits & 7]
    syms = gen_symbols(rng, natypes, mode)
    sym_arg = None
    if bits & 8 and mode in (0, 2):
        sym_arg = [s for s in gen_symbols(rng, natypes, 1)]
    if scale == 'a':
        scale = c['lx']
    case = {'cell': c, 'pbc': draw(gens.pbcs), 'rel': rel, 'atype': atype, 'props': {}, 'symbols': syms,
            'symbols_arg': sym_arg, 'scale': float(scale), 'coord': coord, 'fmt': fmt, 'header': draw(_HEADER),
            'sink': 'io' if (bits & 48) == 48 else 'str'}
    finish_case(case, rng, narrow_pos=True)
    case['pre'] = [q for q in case['pre'] if q[0] == 'read']
    return case


@st.composite
def snippet_cases(draw):
    c = apply_tiny(g7.apply_sym(draw(_CELLS_LMP), draw(g7.SYM)), draw(_TINY_SN))
    pbc = draw(gens.pbcs)
    rel = draw(_REL_SMALL)
    style = draw(_ALLSTYLES)
    units = draw(_units_for(style))
    bits = draw(_BITS)
    rng = np.random.default_rng(draw(_SEED))
    n = len(rel)
    props = {name: gen_prop(rng, name, n) for name in style_props(style, False)}
    case = {'cell': c, 'pbc': pbc, 'rel': rel, 'atype': gen_atype(rng, n), 'props': props, 'symbols': None,
            'style': style, 'units': units, 'fmt': '%.8f',
            'style_arg': None if (style == 'atomic' and bits & 4) else style,
            'units_arg': None if (units == 'metal' and bits & 8) else units,
            'sink': ('str', 'str', 'path', 'io')[(bits >> 10) & 3]}
    if draw(_POTSHARE_SNIPPET):
        add_pot(case, rng, bool(bits & 16))
    finish_case(case, rng, narrow_pos=False)
    case['sink'] = ('str', 'str', 'path', 'io')[int(rng.integers(0, 4))]
    case['wu'] = draw(_WU)
    return case


# ============================================================================= building the system

def snapshot(case):
    """cell vectors of the system (what a Box holds for the vectors handed over: cleaned_vects), origin, relative
    coordinates in that cell, absolute positions"""
    c = case['cell']
    V0 = cell_vects7(c)
    o = gens.cell_origin(c)
    s0 = np.array(case['rel'], dtype=float)
    x0 = s0 @ V0 + o
    V, onrung = cleaned_vects(V0)
    if onrung:
        raise OnRung()
    nr = narrow_of(case)
    if nr is not None and nr.get('pos'):
        # positions stored in a narrow dtype: the system's positions are the stored (rounded) ones
        with np.errstate(over='ignore', under='ignore'):
            xb = x0.astype(nr['f']).astype(float)
        if np.all(np.isfinite(xb)) and not np.array_equal(xb, x0):
            x0 = xb
            s0 = (x0 - o) @ np.linalg.inv(V)
    if not np.array_equal(V, V0):
        s0 = (x0 - o) @ np.linalg.inv(V)
    return V, o, s0, x0


class OnRung(Exception):
    """a cell vector component sits on Box's clean-up rung (1e-9 of the largest): whether it is zeroed depends on the last
    bit, so the system's cell is not known to the oracle; the generator keeps off the rung, rotated cells can land on it
    only by accident"""


def is_tilted(V):
    return bool(V[1, 0] or V[2, 0] or V[2, 1])


def _icast(a, dt):
    """integer array in the storage dtype dt when every value fits (else as it is)"""
    lo, hi = g7.int_limits(dt)
    a = np.asarray(a)
    if a.size and int(a.min()) >= lo and int(a.max()) <= hi:
        return a.astype(dt)
    return a


def _donor(a, k, shift=0.5):
    """other numbers of the same shape, dtype and kind (the earlier life of a recycled object)"""
    if isinstance(a, list):
        return _donor(np.array(a), k, shift).tolist()
    if a.dtype.kind in 'iub':
        return np.roll(a, 1, axis=0)
    return (np.roll(a, 1, axis=0) * (-1.25 if k % 2 else 0.75) + (shift if k % 3 else 0.0)).astype(a.dtype)


def build_system(am, case, V, o, x0, held=None):
    """the System of a case, handed to atomman in the case's input form.  `held` (a dict) receives the objects the caller
    handed in, so that the oracle can check that a call left them alone."""
    form = case.get('form', 'array')
    props = {k: np.array(v) for k, v in case['props'].items()}
    atype = np.array(case['atype'], dtype=int)
    pos = x0.copy()
    vects, origin = cell_vects7(case['cell']), o.copy()      # as given: the clean-up is Box's
    pbc = list(case['pbc'])
    if form == 'list':
        # plain Python sequences (floats convert exactly)
        props = copy.deepcopy(case['props'])
        atype, pos, vects, origin, pbc = list(case['atype']), x0.tolist(), vects.tolist(), o.tolist(), tuple(case['pbc'])
    elif form == 'fortran':
        pos = np.asfortranarray(pos)
        vects = np.asfortranarray(vects)
        props = {k: (np.asfortranarray(v) if v.ndim > 1 else v) for k, v in props.items()}
        atype = atype.astype(np.int32)
        pbc = np.array(case['pbc'], dtype=bool)
    elif form == 'strided':
        big = np.zeros((len(x0), 6))
        big[:, ::2] = x0
        pos = big[:, ::2]
        wide = np.zeros(2 * len(x0), dtype=int)
        wide[::2] = case['atype']
        atype = wide[::2]
    elif form == 'readonly':
        for a in [pos, vects, origin, atype] + list(props.values()):
            a.setflags(write=False)
    elif form == 'narrow':
        # narrow / non-native storage dtypes; every value is exactly representable (narrowed(), snapshot())
        nr = case['narrow']
        atype = _icast(atype, nr['i'])
        for k, v in list(props.items()):
            if v.dtype.kind in 'iu':
                props[k] = _icast(v, nr['i'])
            else:
                with np.errstate(over='ignore', under='ignore'):
                    w = v.astype(nr['f'])
                if np.array_equal(w.astype(float), v):
                    props[k] = w
        if nr.get('pos'):
            with np.errstate(over='ignore', under='ignore'):
                w = pos.astype(nr['f'])
            if np.array_equal(w.astype(float), pos):
                pos = w
        pbc = np.array(case['pbc'], dtype=np.bool_)
    target = None
    if case.get('recycle'):
        # the object's earlier life: same atoms (types), other positions / values / cell / periodicity
        target = (pos, props, vects, origin, pbc)
        size = float(np.abs(np.array(vects, dtype=float)).max())         # (shifts in units of the cell: any working units)
        pos = _donor(pos, 1, 0.5 * size)
        props = {k: (v if k == 'atom_id' else _donor(v, i)) for i, (k, v) in enumerate(props.items())}
        dv = np.array(vects, dtype=float) * 1.5
        vects = dv.tolist() if isinstance(vects, list) else dv
        do = np.array(origin, dtype=float) + 2.5 * size
        origin = do.tolist() if isinstance(origin, list) else do
        pbc = [not b for b in case['pbc']]
    if held is not None and target is None:
        held.update({'pos': pos, 'atype': atype, 'vects': vects, 'origin': origin})
        held.update({'prop:' + k: v for k, v in props.items()})
    # read-only arrays: Atoms documents that without safecopy a property may point to the caller's array (the in-place
    # wrap of dump then has nothing to write to: documented aliasing, not judged), so they go in with safecopy=True
    atoms = am.Atoms(atype=atype, pos=pos, safecopy=(form == 'readonly'), **props)
    box = am.Box(vects=vects, origin=origin)
    kw = {}
    if case.get('masses') is not None:
        kw['masses'] = list(case['masses'])
    system = am.System(atoms=atoms, box=box, pbc=pbc, symbols=case.get('symbols'), scale=False, **kw)
    if target is not None:
        # written in every format in its earlier state (whatever a writer keeps is kept now) ...
        system.dump('poscar')
        if not (case['cell'].get('rot') or case['cell'].get('P')):
            system.dump('atom_dump')
            system.dump('atom_data', safecopy=True)
        # ... then the caller overwrites it in place / re-defines it through the setters
        tpos, tprops, tvects, torigin, tpbc = target
        if case['recycle'] == 'inplace':
            system.atoms.pos[:] = tpos
            for k, v in tprops.items():
                system.atoms.view[k][...] = v
            system.box.set(vects=tvects, origin=torigin)
        else:
            system.atoms.pos = tpos
            for k, v in tprops.items():
                system.atoms_prop(key=k, value=v)
            system.box_set(vects=tvects, origin=torigin)
        system.pbc = tpbc
    for op, u in case.get('pre') or []:
        # earlier use of the same object that is documented to leave it as it is
        if op == 'data_safe':
            system.dump('atom_data', safecopy=True, units=u, atom_style='atomic')
        elif op == 'dump':
            system.dump('atom_dump', lammps_units=u)
        elif op == 'poscar':
            system.dump('poscar')
        else:
            system.natypes, system.natoms, system.box.a, system.box.alpha, system.box.volume, system.atoms_prop(), system.pbc, system.atoms.pos
    return system


def sys_state(system, held=None):
    """copies of everything a writer is handed: per-atom arrays, cell, periodicity, symbols, masses and (held) the
    caller's own arrays"""
    st_ = {'view:' + k: np.array(v, copy=True) for k, v in system.atoms.view.items()}
    st_['vects'] = np.array(system.box.vects, copy=True)
    st_['origin'] = np.array(system.box.origin, copy=True)
    st_['pbc'] = np.array(system.pbc, copy=True)
    st_['symbols'] = tuple(system.symbols)
    st_['masses'] = tuple(system.masses)
    for k, v in (held or {}).items():
        st_['caller:' + k] = copy.deepcopy(v)
    return st_


def _same(a, b):
    if isinstance(a, np.ndarray) or isinstance(b, np.ndarray):
        return (isinstance(a, np.ndarray) and isinstance(b, np.ndarray) and a.dtype == b.dtype and a.shape == b.shape
                and np.array_equal(a, b))
    return type(a) is type(b) and a == b


def state_diff(before, after, skip=()):
    """names of the pieces that are not bit-identical (dtype, shape, values)"""
    return [k for k in before if k not in skip and (k not in after or not _same(before[k], after[k]))] + \
           [k for k in after if k not in before and k not in skip]


def require_untouched(before, system, held, what, skip=()):
    diff = state_diff(before, sys_state(system, held), skip)
    require(not diff, lambda: '%s changed what the caller handed in: %s' % (what, ', '.join(diff)))


def form_labels(case, labels):
    labels.add('form_' + case.get('form', 'array'))
    if case.get('pre'):
        labels.add('history')
    if case.get('recycle'):
        labels.add('recycled')
        labels.add('recycled_' + case['recycle'])
    nr = narrow_of(case)
    if nr is not None:
        labels.add('narrow_' + nr['f'].replace('>', 'be_'))
        labels.add('narrow_' + nr['i'].replace('>', 'be_'))
    if case.get('decades'):
        labels.add('decades')


def narrow_parse_failure(case, text, e, units, x0=None):
    """a file that is not well formed because a narrow float column left the range of its dtype during the conversion
    (inf tokens; nan is written as an empty field): the listed storage-dtype finding.  Decided by carrying out the
    conversion of every stored column in its dtype."""
    st_dt = narrow_float(case)
    if st_dt is None or units == 'lj':
        return
    base = base_units()
    items = [(np.array(v, dtype=float), PROP_Q[name]) for name, v in case['props'].items() if name in PROP_Q]
    if x0 is not None and case['narrow'].get('pos'):
        items.append((x0, 'length'))
    for a, q in items:
        try:
            f = LU.factor(units, q, base)[0]
        except KeyError:
            continue
        with np.errstate(all='ignore'):
            emu = a.astype(st_dt) / np.asarray(1.0 / f, dtype=st_dt)
        if not np.all(np.isfinite(emu)):
            raise Violation('not a well-formed file: %s - a %s column stored as %s was converted in %s and left its range '
                            '(inf tokens / nan written as an empty field)' % (e, q, st_dt, st_dt), key=K_NARROW)


def build_potential(p):
    """PotentialLAMMPS record built offline from the spec (fixed keys: nothing random, nothing read from disk)"""
    import potentials
    kw = dict(pair_style=p['pair_style'], id='c07-' + p['kind'], key='4a0c7c07-0000-4000-8000-000000000001',
              potid='c07-model', potkey='4a0c7c07-0000-4000-8000-000000000002', symbols=list(p['symbols']),
              elements=list(p['elements']), units=p['units'], atom_style=p['atom_style'], allsymbols=bool(p['allsymbols']))
    for src, dst in (('masses', 'masses'), ('comments', 'comments'), ('dois', 'dois'), ('style_terms', 'pair_style_terms'),
                     ('commands', 'command_terms')):
        if p.get(src) is not None:
            kw[dst] = [list(v) for v in p[src]] if src == 'commands' else (list(p[src]) if isinstance(p[src], list) else p[src])
    kind = p['kind']
    if kind in ('param', 'eim'):
        kw['paramfile'] = p['files'][0]
    elif kind == 'libparam':
        kw['libfile'], kw['paramfile'] = p['files'][0], p['files'][1]
    elif kind == 'eam':
        kw['paramfiles'] = list(p['files'])
    else:
        kw['interactions'] = [{'symbols': list(i['symbols']), 'terms': list(i['terms'])} for i in p['interactions']]
    return potentials.build_lammps_potential(**kw).potential()


def system_labels(case, s0, V):
    c = case['cell']
    labs = set(gens.cell_labels(c)) - {'tilted'}
    # tilted: a tilt that survives Box's clean-up (rotated cells - POSCAR only - are judged on the unrotated cell)
    if is_tilted(V if not (c.get('rot') or c.get('P')) else cleaned_vects(gens.cell_vects(dict(c, rot=None, P=None)))[0]):
        labs.add('tilted')
    if c.get('tiny'):
        labs.add('tiny_tilt')
        r = [abs(c[k]) / max(abs(c[j]) for j in ('lx', 'ly', 'lz', 'xy', 'xz', 'yz')) for k in ('xy', 'xz', 'yz')]
        small = [v for v in r if 0 < v < 2e-3]
        if any(v <= CLEAN_RUNG for v in small):
            labs.add('tiny_cleaned')
        if any(CLEAN_RUNG < v < 1.5e-5 for v in small):
            labs.add('tiny_1e-9_1e-5')
        if any(v >= 1.5e-5 for v in small):
            labs.add('tiny_1e-5_1e-3')
    outside = bool(np.any(s0 < 0) or np.any(s0 >= 1))
    if outside:
        labs.add('outside')
    if np.any((s0 == 0) | (s0 == 1)):
        labs.add('onface')
    p = case['pbc']
    labs.add('pbc_all' if all(p) else 'pbc_none' if not any(p) else 'pbc_mixed')
    if len(set(case['atype'])) < max(case['atype']):
        labs.add('type_gap')
    g7.near_labels(case['rel'], labs)
    if c.get('sym'):
        labs.add('sym')
        labs.add('sym_' + c['sym'])
    if c.get('P') is not None:
        labs.add('sym')
        labs.add('sym_perm')
    form_labels(case, labs)
    return labs, outside


def style_labels(style, units, base, labels):
    if style in ALL_STYLES:
        labels.add('style_' + style.replace(' ', '_'))
    if style.startswith('hybrid'):
        labels.add('hybrid')
        sh = shared_columns(style)
        if sh:
            labels.add('shared')
            labels.add('shared_%d' % (len(style.split()) - 1))
            for c in sh:
                labels.add('shared_' + c)
            sc = scaled_shared(style, units, base)
            if sc:
                labels.add('shared_scaled')
                for c in sc:
                    labels.add('shared_scaled_' + c)


def _nonnative(case):
    if 'calls' in case:
        return any(_nonnative(c['case']) for c in case['calls'])
    nr = narrow_of(case)
    return nr is not None and (nr['f'].startswith('>') or nr['i'].startswith('>'))


def guarded(inner):
    def oracle(case):
        try:
            return inner(case)
        except OnRung:
            return {'onrung'}
        except ValueError as e:
            if 'Big-endian buffer not supported on little-endian compiler' in str(e) and _nonnative(case):
                raise Violation('a writer raised ValueError(%s) for a system whose per-atom arrays are stored big-endian (%r): '
                                'the DataFrame of the atoms is built on the arrays as stored and pandas cannot re-order '
                                'non-native columns' % (e, case.get('narrow')), key=K_BIGENDIAN)
            raise
    oracle.__name__ = inner.__name__.lstrip('_')
    return oracle


# ============================================================================= data files

def _volume_involved(style):
    return style_needs(style, 'volume')


def expected_natypes(case):
    """atom types the header must announce: the natypes argument if given, else (documented) the system's natypes
    or, with a potential, the number of symbols the potential needs listed"""
    base = len(pot_norm_symbols(case)) if case.get('pot') is not None else max(case['atype'])
    return base + case.get('natypes_extra', 0)


def call_data_dump(case, system):
    """System.dump('atom_data') with the listed blocking findings turned into keyed violations.
    Returns (what dump returned with the file content put back in front, file name given or None)."""
    import atomman as am
    style, units = case['style'], case['units']
    kw = dict(atom_style=case['style_arg'], units=case['units_arg'], float_format=case['fmt'])
    if case.get('natypes_extra'):
        kw['natypes'] = expected_natypes(case)
        if narrow_of(case) is not None and case['narrow']['scalar']:
            kw['natypes'] = np.dtype(case['narrow']['i']).type(kw['natypes'])       # a numpy integer scalar
    if 'safecopy' in case:
        kw['safecopy'] = case['safecopy']
    if 'return_info' in case:
        kw['return_info'] = case['return_info']
    if case.get('pot') is not None:
        kw['potential'] = build_potential(case['pot'])
        if case.get('comments_kw') is not None:
            kw['comments'] = case['comments_kw']
        pr = case.get('prior')
        if pr is not None:
            # history of the potential object: it wrote another system's file with other explicit values before
            ns = len(case['symbols'])
            other = am.System(atoms=am.Atoms(atype=list(range(1, ns + 1)), pos=np.full((ns, 3), 0.25), charge=np.zeros(ns)),
                              box=am.Box(), symbols=list(case['symbols']))
            other.dump('atom_data', potential=kw['potential'], units=pr['units'], atom_style=pr['atom_style'])
    buf = None
    tmpdir = None
    fname = None
    sink = case.get('sink')
    if sink == 'io':
        buf = kw['f'] = io.StringIO()
    elif sink == 'path':
        tmpdir = tempfile.mkdtemp(prefix='c07-')
        fname = kw['f'] = os.path.join(tmpdir, 'atom.dat')
    try:
        ret = system.dump('atom_data', **kw)
        if sink in ('io', 'path'):
            # content goes to the file / file-like object; only the snippet (or nothing) is returned
            what = 'f=<file-like>' if sink == 'io' else 'f=<file name>'
            require(ret is None or isinstance(ret, str), lambda: '%s: expected info str or None, got %r' % (what, type(ret),))
            require((ret is not None) == bool(case.get('return_info', True)), lambda: '%s, return_info=%r: returned %r' % (what, case.get('return_info', True), type(ret)))
            if sink == 'io':
                content = buf.getvalue()
            else:
                require(os.path.isfile(fname), lambda: '%s: no file was written' % what)
                with open(fname, encoding='UTF-8') as fp:
                    content = fp.read()
            return ((content, ret) if ret is not None else content), fname
        return ret, None
    except KeyError as e:
        if e.args == ('volume',) and _volume_involved(style):
            raise Violation("dump('atom_data', atom_style=%r) raised KeyError('volume'): lammps.style.unit() has no "
                            "'volume' entry" % style, key=K_VOLUME)
        if e.args == ('None',) and units == 'lj' and 'velocity' in case['props'] and \
                (set(LD.velocity_columns(style)) & {'lx', 'wx'}):
            raise Violation("dump('atom_data', atom_style=%r, units='lj') with velocities raised KeyError('None'): "
                            "ang-mom/ang-vel units of lj are the strings 'None*None*None' and '1/None'" % style, key=K_LJ_ANG)
        raise
    finally:
        if tmpdir is not None:
            shutil.rmtree(tmpdir, ignore_errors=True)


def _oracle_data(case):
    import atomman as am
    case = narrowed(case)
    V, o, s0, x0 = snapshot(case)
    labels, outside = system_labels(case, s0, V)
    style, units, fmt = case['style'], case['units'], case['fmt']
    hybrid = style.startswith('hybrid')
    n = len(x0)
    base = base_units()
    kn = Known()
    held = {}
    system = build_system(am, case, V, o, x0, held)
    before = sys_state(system, held)
    V_sys = V
    ret, fname = call_data_dump(case, system)
    # what the caller handed in is as it was: everything with safecopy; without, the documented in-place wrap may move the
    # positions (also in the caller's own position array, which Atoms may share) and extend the cell - nothing else
    require_untouched(before, system, held, "dump('atom_data', safecopy=%r)" % case['safecopy'],
                      () if case['safecopy'] else ('view:pos', 'caller:pos', 'vects', 'origin'))
    labels.add('inputs_kept')
    info = None
    if case['return_info']:
        require(isinstance(ret, tuple) and len(ret) == 2 and all(isinstance(r, str) for r in ret),
                lambda: 'return_info=True: expected (content, info) strings, got %r' % (type(ret),))
        text, info = ret
    else:
        require(isinstance(ret, str), lambda: 'return_info=False, f=None: expected the content as str, got %r' % (type(ret),))
        text = ret
    try:
        d = LD.parse(text)
    except LD.FormatError as e:
        narrow_parse_failure(case, text, e, units)
        raise Violation('not a well-formed data file: %s\n%s' % (e, text[:600]))
    # ---- header counts
    require(d['natoms'] == n, lambda: 'header says %d atoms, the system has %d' % (d['natoms'], n))
    exp_nt = expected_natypes(case)
    require(d['natypes'] == exp_nt, lambda: 'header says %d atom types, expected %d%s' % (
        d['natypes'], exp_nt, '' if case.get('pot') is None else ' (symbols the potential needs listed: %r)' % (pot_norm_symbols(case),)))
    sec = d['sections']
    require(len(sec['Atoms']['rows']) == n, 'Atoms section length')
    cm = sec['Atoms']['comment']
    if cm:
        require(cm.split()[0] == style.split()[0], lambda: 'Atoms section comment %r does not name atom_style %r' % (cm, style))
    if info is not None:
        judge_snippet(case, info, fname, labels, kn)
    has_vel = 'velocity' in case['props']
    require(('Velocities' in sec) == has_vel, lambda: 'Velocities section present=%r but system has velocity=%r' % ('Velocities' in sec, has_vel))
    # ---- box
    fl, rel_l = LU.factor(units, 'length', base)
    lo = np.zeros(3); hi = np.zeros(3); hlo = np.zeros(3); hhi = np.zeros(3)
    for i, ax in enumerate('xyz'):
        (lo[i], hlo[i]), (hi[i], hhi[i]) = fv(d['bounds'][ax][0]), fv(d['bounds'][ax][1])
    tl = np.zeros(3); htl = np.zeros(3)
    if d['tilt'] is not None:
        for i in range(3):
            tl[i], htl[i] = fv(d['tilt'][i])
    if is_tilted(V) and not all(case['pbc']):
        # the wrap extends the cell along non-periodic directions and sets the box anew: Box's clean-up (components up to
        # 1e-9 of the largest one become zero) then acts relative to the WRITTEN cell - such a tilt may come out as zero
        rung = 1.001 * CLEAN_RUNG * (max(float(np.max(hi - lo)), float(np.abs(tl).max())) + float(np.max(hlo + hhi)))
        Vs = V.copy()
        for (i, j), k in (((1, 0), 0), ((2, 0), 1), ((2, 1), 2)):
            # (the tilt of a vector grows with the vector; a zero token only counts where the format resolves the tilt)
            grown = abs(V[i, j]) * fl * max(1.0, (hi[i] - lo[i]) / (V[i, i] * fl))
            if V[i, j] != 0.0 and grown <= rung and tl[k] == 0.0 and abs(V[i, j]) * fl > htl[k]:
                Vs[i, j] = 0.0
        if not np.array_equal(Vs, V):
            labels.add('tilt_cleaned_on_extension')
            lost = float(np.abs(V - Vs).sum()) * fl
            V = Vs
            s0 = (x0 - o) @ np.linalg.inv(V)
    tilted = is_tilted(V)
    require((d['tilt'] is not None) == tilted, lambda: 'tilt line present=%r but the cell has tilts %r' % (
        d['tilt'] is not None, [V[1, 0], V[2, 0], V[2, 1]]))
    VL, oL, x0L = V * fl, o * fl, x0 * fl
    if np.any(np.diag(VL) < 200 * (hlo + hhi)):
        labels.add('underresolved')
        return labels
    require(np.all(hi > lo), lambda: 'bounds do not satisfy lo < hi: lo %r hi %r' % (lo.tolist(), hi.tolist()))
    Vw = np.array([[hi[0] - lo[0], 0, 0], [tl[0], hi[1] - lo[1], 0], [tl[1], tl[2], hi[2] - lo[2]]])
    cond = float(np.linalg.cond(V))
    smax = max(1.0, float(np.abs(s0).max()))
    mag = (np.abs(o).max() + np.abs(V).sum() * (1 + smax)) * fl
    arith = (32 * EPS * cond + rel_l) * mag          # floating-point floor of wrap + conversion, LAMMPS units
    if 'tilt_cleaned_on_extension' in labels:
        # the faces were placed with the tilt still in the cell: they are off by the lost tilt times the extension
        arith += lost * (1 + smax)
    dVw = np.array([[hlo[0] + hhi[0], 0, 0], [htl[0], hlo[1] + hhi[1], 0], [htl[1], htl[2], hlo[2] + hhi[2]]]) + arith
    iVL = np.abs(np.linalg.inv(VL))
    A = Vw @ np.linalg.inv(VL)
    tolA = dVw @ iVL
    offd = ~np.eye(3, dtype=bool)
    require(np.all(np.abs(A[offd]) <= tolA[offd]), lambda: 'written cell vectors are not parallel to the system\'s:\nwritten\n%r\nsystem (in %s)\n%r' % (Vw, units, VL))
    alpha = np.diag(A); tol_al = np.diag(tolA)
    m = (lo - oL) @ np.linalg.inv(VL)
    tol_m = (hlo + arith) @ iVL
    M = m + alpha
    tol_M = tol_m + tol_al
    band = 64 * EPS * cond * (1 + np.abs(o).max() / np.abs(np.diag(V)).min())
    smin, smx = s0.min(axis=0), s0.max(axis=0)
    extended = False
    for i in range(3):
        what = 'direction %d (pbc=%r)' % (i, case['pbc'][i])
        if case['pbc'][i]:
            require(abs(m[i]) <= tol_m[i] and abs(alpha[i] - 1) <= tol_al[i],
                    lambda: '%s: periodic cell vector/origin changed: lower face at %.3g, length ratio %.12g' % (what, m[i], alpha[i]))
            continue
        require(m[i] <= tol_m[i] and M[i] >= 1 - tol_M[i], lambda: '%s: written cell is smaller than the system\'s cell (relative lo %.6g hi %.6g)' % (what, m[i], M[i]))
        if smin[i] > band + tol_m[i]:
            require(abs(m[i]) <= tol_m[i], lambda: '%s: all atoms inside but lower bound moved to relative %.6g' % (what, m[i]))
        else:
            require(m[i] <= smin[i] + band + tol_m[i], lambda: '%s: lower bound (relative %.6g) does not hold the lowest atom (%.6g)' % (what, m[i], smin[i]))
        if smx[i] < 1 - band - tol_M[i]:
            require(abs(M[i] - 1) <= tol_M[i], lambda: '%s: all atoms inside but upper bound moved to relative %.6g' % (what, M[i]))
        else:
            require(M[i] >= smx[i] - band - tol_M[i], lambda: '%s: upper bound (relative %.6g) does not hold the highest atom (%.6g)' % (what, M[i], smx[i]))
        if abs(m[i]) > tol_m[i] or abs(M[i] - 1) > tol_M[i]:
            extended = True
    # ---- Atoms section under every admissible column order
    own = case['props'].get('atom_id')
    try:
        interps = LD.split_atoms(sec['Atoms']['rows'], style)
    except LD.FormatError as e:
        narrow_parse_failure(case, text, e, units)
        raise Violation('Atoms section malformed for atom_style %s: %s\n%s' % (style, e, text[:600]))
    first = None
    result = None
    for cols, recs, flags in interps:
        k2 = Known()
        try:
            result = _check_atoms(case, cols, recs, flags, k2, own, x0L, Vw, dVw, lo, hlo, arith, fl, base, system, units, hybrid)
            kn.items.extend(k2.items)
            break
        except Violation as v:
            if first is None:
                first = v
    if result is None:
        raise first
    ids, flags_used = result
    if flags_used:
        labels.add('imageflags')
    # ---- Velocities
    if has_vel:
        try:
            vcols, vrecs = LD.split_velocities(sec['Velocities']['rows'], style)
        except LD.FormatError as e:
            narrow_parse_failure(case, text, e, units)
            raise Violation('Velocities section malformed for atom_style %s: %s' % (style, e))
        vids = [int(r['id']) for r in vrecs]
        require(sorted(vids) == sorted(ids), lambda: 'Velocities atom-IDs %r differ from the Atoms ids %r' % (vids, ids))
        index_of = {a: k for k, a in enumerate(ids)}
        for r in vrecs:
            k = index_of[int(r['id'])]
            for cname in vcols[1:]:
                pname, comp, q = VELMAP[cname]
                val = case['props'][pname][k]
                if comp is not None:
                    val = val[comp]
                cmp_value(kn, 'Velocities atom %d column %s' % (k, cname), r[cname], val, q, units, hybrid, base,
                          store=narrow_float(case))
        labels.add('velocities')
    # ---- rows spanning many decades: the row of the smallest atom is the row of that atom written alone
    if case.get('decades') and case.get('pot') is None:
        single_row_data(am, case, V, o, x0, sec, style, ids)
    # ---- the caller's system: untouched with safecopy, else the wrapped state that was written
    if case['safecopy']:
        require(np.array_equal(system.atoms.pos, x0) and np.array_equal(system.box.vects, am.Box(vects=V_sys, origin=o).vects)
                and np.array_equal(system.box.origin, o), 'safecopy=True but the caller\'s system was modified')
        labels.add('safecopy')
    style_labels(style, units, base, labels)
    labels.add('units_' + units)
    labels.add('fmt_' + fmt)
    if extended:
        labels.add('extended')
    if case['style_arg'] is None or case['units_arg'] is None:
        labels.add('defaults')
    if own is not None:
        labels.add('own_ids')
    if case.get('sink') == 'io':
        labels.add('filelike')
    if case.get('sink') == 'path':
        labels.add('filename')
    if case.get('pot') is not None:
        labels.add('potential')
    if tilted and not (V[1, 0] or V[2, 0]):
        labels.add('only_yz')
    if (labels & {'tilted', 'origin'}) and outside and (style != 'atomic' or units != 'metal'):
        labels.add('nt')
    kn.finish()
    return labels


def _check_atoms(case, cols, recs, flags, kn, own, x0L, Vw, dVw, lo, hlo, arith, fl, base, system, units, hybrid):
    n = len(recs)
    style = case['style']
    ids = [int(r['id']) for r in recs]
    require(len(set(ids)) == n, lambda: 'atom ids are not unique: %r' % (ids,))
    if sorted(ids) == list(range(1, n + 1)):
        idx = [a - 1 for a in ids]
    else:
        require(own is not None and sorted(ids) == sorted(own), lambda: 'atom ids %r are neither 1..N nor the system\'s own %r' % (ids, own))
        idx = [own.index(a) for a in ids]
    F = np.array(flags, dtype=float) if flags is not None else np.zeros((n, 3))
    xw = np.zeros((n, 3)); hx = np.zeros((n, 3))
    for r, rec in enumerate(recs):
        k = idx[r]
        cmp_int('atom %d type' % k, rec['type'], case['atype'][k])
        for j, ax in enumerate('xyz'):
            xw[r, j], hx[r, j] = fv(rec[ax])
        for cname in cols:
            if cname in COLMAP:
                pname, comp, q = COLMAP[cname]
                val = case['props'][pname][k]
                if comp is not None:
                    val = val[comp]
                if cname in LD.INT_COLUMNS:
                    cmp_int('atom %d column %s' % (k, cname), rec[cname], val)
                else:
                    cmp_value(kn, 'atom %d column %s' % (k, cname), rec[cname], val, q, units, hybrid, base,
                              store=narrow_float(case) if PROPGEN[pname][0] != 'int' else None)
    # positions: image flags re-applied with the WRITTEN cell give the system's positions
    order = np.array(idx)
    target = x0L[order]
    recon = xw + F @ Vw
    tol = hx + np.abs(F) @ dVw + arith
    err = np.abs(recon - target)
    pos_ok = bool(np.all(err <= tol))
    if not pos_ok:
        detail = ('positions: file x + imageflags.cell differs from the system position (in %s) by %.3g (tol %.3g); atom %d: file %r flags %r expected %r'
                  % (units, err.max(), tol.flat[np.argmax(err)], order[np.argmax(err.max(axis=1))],
                     xw[np.argmax(err.max(axis=1))].tolist(), F[np.argmax(err.max(axis=1))].tolist(),
                     target[np.argmax(err.max(axis=1))].tolist()))
        fm, _ = LU.factor('metal', 'length', base)
        if hybrid and units != 'metal' and abs(fm - fl) > 1e-6 * fl:
            r2 = xw + F @ (Vw * (fm / fl))
            t2 = hx + np.abs(F) @ (dVw * (fm / fl)) + arith * (fm / fl)
            if np.all(np.abs(r2 - target * (fm / fl)) <= t2):
                kn.add(detail + ' [atom coordinates are in metal units while the box is in %s]' % units, K_HYBRID)
            else:
                raise Violation(detail)
        else:
            raise Violation(detail)
    if pos_ok:
        # every atom within the written bounds (triclinic test in relative coordinates)
        iVw = np.linalg.inv(Vw)
        sw = (xw - lo) @ iVw
        tol_s = (hx + hlo + arith) @ np.abs(iVw) + (np.abs(sw) @ dVw) @ np.abs(iVw)
        bad = (sw < -tol_s) | (sw > 1 + tol_s)
        require(not bad.any(), lambda: 'atom outside the written bounds: relative coordinates %r (tol %r)' % (sw[bad.any(axis=1)].tolist(), tol_s[bad.any(axis=1)].tolist()))
        if not case['safecopy']:
            # the caller's system is now the wrapped system: that is what the file must hold
            px = np.asarray(system.atoms.pos, dtype=float)[order] * fl
            require(np.all(np.abs(px - xw) <= hx + arith), lambda: 'file positions differ from the (wrapped) system left with the caller by %.3g' % np.abs(px - xw).max())
            bv = np.asarray(system.box.vects, dtype=float) * fl
            require(np.all(np.abs(bv - Vw) <= dVw), lambda: 'file cell differs from the (wrapped) system\'s box:\n%r\n%r' % (Vw, bv))
            bo = np.asarray(system.box.origin, dtype=float) * fl
            require(np.all(np.abs(bo - lo) <= hlo + arith), lambda: 'file lo bounds differ from the (wrapped) system\'s origin: %r %r' % (lo, bo))
    return ids, bool(np.any(F != 0))


def single_row_data(am, case, V, o, x0, sec, style, ids):
    """decades: the atom whose values are the smallest of the file is written again as a one-atom system (same cell, style,
    units, format); its non-position tokens must be the same strings"""
    k = int(np.argmin(case['decades']))
    one = dict(case, rel=[case['rel'][k]], atype=[case['atype'][k]], pre=None, recycle=None,
               props={name: [v[k]] for name, v in case['props'].items()})
    sys1 = build_system(am, one, V, o, x0[k:k + 1])
    text1 = sys1.dump('atom_data', atom_style=case['style'], units=case['units'], float_format=case['fmt'], safecopy=True,
                      return_info=False)
    d1 = LD.parse(text1)
    own = case['props'].get('atom_id')
    idk = k + 1 if sorted(ids) == list(range(1, len(ids) + 1)) else own[k]
    pairs = [(LD.split_atoms(sec['Atoms']['rows'], style)[0][:2], LD.split_atoms(d1['sections']['Atoms']['rows'], style)[0][:2])]
    if 'Velocities' in sec:
        pairs.append((LD.split_velocities(sec['Velocities']['rows'], style), LD.split_velocities(d1['sections']['Velocities']['rows'], style)))
    for (cols, recs), (cols1, recs1) in pairs:
        rec = [r for r in recs if int(r['id']) == idk][0]
        for cname in cols:
            if cname in ('id', 'x', 'y', 'z'):
                continue
            require(rec[cname] == recs1[0][cname],
                    lambda: 'decades: atom %d column %s reads %s in the file of all atoms (per-atom powers of ten %r) and %s when '
                            'the atom is written alone' % (k, cname, rec[cname], case['decades'], recs1[0][cname]))


def _pre_data(case):
    """an earlier data file of the same system with the same style, units and format (not judged here)"""
    import atomman as am
    case = narrowed(case)
    V, o, s0, x0 = snapshot(case)
    system = build_system(am, dict(case, pre=None), V, o, x0)
    try:
        system.dump('atom_data', atom_style=case['style'], units=case['units'], float_format=case['fmt'], safecopy=True)
    except KeyError as e:
        if e.args not in (('volume',), ('None',)):       # the listed blocking findings: raised keyed by the judged call
            raise


oracle_data = guarded(under_units(_oracle_data, _pre_data))


# ============================================================================= command snippet

def parse_snippet(info):
    """LAMMPS input lines -> [(command, [args])], [print lines]; '#' starts a comment (the print lines of the
    potential's metadata are quoted text and kept apart)"""
    cmds, prints = [], []
    for line in info.split('\n'):
        if line.split()[:1] == ['print']:
            prints.append(line.strip())
            continue
        body = line.split('#')[0].split()
        if body:
            cmds.append((body[0], body[1:]))
    return cmds, prints


def _tokens_match(got, exp):
    """command arguments against expected terms: words literally, numbers by value"""
    if len(got) != len(exp):
        return False
    for g, e in zip(got, exp):
        if isinstance(e, str):
            if g != e:
                return False
        else:
            try:
                if float(g) != float(e):
                    return False
            except ValueError:
                return False
    return True


def expected_pair_coeff(case):
    """pair_coeff argument lists LAMMPS needs for the atom types of the written file (LAMMPS pair_style pages:
    one element mapping per atom type after the file name(s) for the many-body styles; `I J args` for every pair of
    types for true pair styles; `I I file` per type for classic eam) - written from the spec, not with potentials"""
    pot = case['pot']
    norm = pot_norm_symbols(case)
    kind = pot['kind']
    if kind == 'param':
        return [['*', '*', pot['files'][0]] + norm]
    if kind == 'libparam':
        return [['*', '*', pot['files'][0]] + list(pot['symbols']) + [pot['files'][1] or 'NULL'] + norm]
    if kind == 'eim':
        return [['*', '*'] + list(pot['symbols']) + [pot['files'][0]] + norm]
    if kind == 'eam':
        return [[str(t + 1), str(t + 1), pot['files'][pot['symbols'].index(sym)]] for t, sym in enumerate(norm)]
    terms = {tuple(i['symbols']): list(i['terms']) for i in pot['interactions']}
    return [[str(i + 1), str(j + 1)] + terms[tuple(sorted([norm[i], norm[j]]))]
            for i in range(len(norm)) for j in range(i, len(norm))]


def judge_snippet(case, info, fname, labels, kn=None):
    """the command snippet returned with a data file against what the file was written with (case['units'],
    case['style'], the pbc, the file name, and - with a potential - the atom types of the file)"""
    style, units = case['style'], case['units']
    pot = case.get('pot')
    cmds, prints = parse_snippet(info)
    names = [c[0] for c in cmds]
    for single in ('units', 'atom_style', 'boundary', 'read_data', 'pair_style'):
        require(names.count(single) <= 1, lambda: 'command %s appears %d times in the snippet:\n%s' % (single, names.count(single), info))
    first = {}
    for i, nm in enumerate(names):
        first.setdefault(nm, i)
    def get(nm):
        return cmds[first[nm]][1] if nm in first else None
    require('boundary' in first and len(get('boundary')) == 3, lambda: 'snippet has no boundary command with three flags:\n%s' % info)
    for i in range(3):
        f = get('boundary')[i]
        if case['pbc'][i]:
            require(f == 'p', lambda: 'boundary flag %d is %r for a periodic direction' % (i, f))
        else:
            require(f in ('f', 's', 'm'), lambda: 'boundary flag %d is %r for a non-periodic direction' % (i, f))
    if fname is None:
        require('read_data' not in first, 'read_data command although no file name was given')
    else:
        require(get('read_data') == [fname], lambda: 'file written to %r but the snippet has read_data %r' % (fname, get('read_data')))
        labels.add('read_data')
    bad = []
    if get('units') != [units]:
        bad.append('units %s (file written in %s)' % (' '.join(get('units') or ['<missing>']), units))
    if get('atom_style') != style.split():
        bad.append('atom_style %s (file written as %s)' % (' '.join(get('atom_style') or ['<missing>']), style))
    if bad:
        isnone = get('units') == ['None'] and get('atom_style') == ['None']
        detail = 'snippet names ' + ' and '.join(bad)
        if pot is not None:
            detail += ' [potential: units %s atom_style %s; arguments: units=%r atom_style=%r]' % (
                pot['units'], pot['atom_style'], case['units_arg'], case['style_arg'])
        if isnone and kn is not None:
            kn.add(detail, K_SNIPPET)
            return
        raise Violation(detail, key=K_SNIPPET if isnone else None)
    # LAMMPS: units, atom_style and boundary cannot follow the command that creates the box
    if 'read_data' in first:
        for pre in ('units', 'atom_style', 'boundary'):
            require(first[pre] < first['read_data'], lambda: '%s comes after read_data in the snippet:\n%s' % (pre, info))
    if pot is None:
        extra = sorted(set(names) & {'pair_style', 'pair_coeff', 'mass'})
        require(not extra, lambda: 'no potential given but the snippet has %r commands' % (extra,))
        return
    # ---- potential part: describes the atom types of the file that was written
    norm = pot_norm_symbols(case)
    require('pair_style' in first, lambda: 'potential given but the snippet has no pair_style command:\n%s' % info)
    exp_ps = [pot['pair_style']] + list(pot['style_terms'] or [])
    require(_tokens_match(get('pair_style'), exp_ps), lambda: 'pair_style %r, the potential has %r' % (get('pair_style'), exp_ps))
    got_pc = [c[1] for c in cmds if c[0] == 'pair_coeff']
    exp_pc = expected_pair_coeff(case)
    left = list(got_pc)
    for e in exp_pc:
        hit = [g for g in left if _tokens_match(g, e)]
        require(hit, lambda: 'no pair_coeff line %r for the file\'s atom types (symbols %r); the snippet has %r' % (e, norm, got_pc))
        left.remove(hit[0])
    require(not left, lambda: 'pair_coeff lines %r do not belong to the file\'s atom types (symbols %r)' % (left, norm))
    got_m = [c[1] for c in cmds if c[0] == 'mass']
    require(all(len(g) == 2 and LD.is_int(g[0]) for g in got_m) and sorted(int(g[0]) for g in got_m) == list(range(1, len(norm) + 1)),
            lambda: 'mass lines %r: expected one for each of the %d atom types the potential lists' % (got_m, len(norm)))
    if units in ('metal', 'real') and case.get('mass_is_amu', True):
        # g/mol = the working mass unit: the numbers are the system's masses where set, else the potential's
        sm = list(case.get('masses') or [])
        for g in got_m:
            t = int(g[0]) - 1
            k = pot['symbols'].index(norm[t])
            if t < len(sm) and sm[t] is not None:
                exp, rel = sm[t], 1e-12
            elif pot['masses'] is not None:
                exp, rel = pot['masses'][k], 1e-12
            else:
                exp, rel = STD_MASS[pot['elements'][k]], 2e-3
            require(abs(float(g[1]) - exp) <= rel * exp, lambda: 'mass %s %s: type %d (%s) has mass %r in the system/potential' % (g[0], g[1], t + 1, norm[t], exp))
    last_pre = max(first[k] for k in ('units', 'atom_style', 'boundary') if k in first)
    box = first.get('read_data', last_pre)
    for nm in ('pair_style', 'pair_coeff', 'mass'):
        require(first[nm] > box, lambda: '%s precedes the units/atom_style/boundary/read_data block:\n%s' % (nm, info))
    require(first['pair_style'] < first['pair_coeff'], 'pair_coeff before pair_style')
    ck = case.get('comments_kw')
    if ck is False:
        require(not prints, lambda: 'comments=False but the snippet prints %r' % (prints,))
    elif pot['comments'] is not None:
        for part in pot['comments'].split('\n'):
            require(any(part in p for p in prints), lambda: 'comments=%r: the potential\'s comment %r is not printed' % (ck, part))
        labels.add('pot_comments')
    if pot['commands']:
        for c in pot['commands']:
            require(any(nm == c[0] and _tokens_match(a, c[1:]) for nm, a in cmds), lambda: 'the potential\'s extra command %r is missing' % (c,))
    labels.add('pot')
    labels.add('pot_' + pot['kind'])
    ov = [k for k, arg in (('units', case['units_arg']), ('atom_style', case['style_arg'])) if arg is not None and arg != pot[k]]
    if ov:
        labels.add('pot_override')
        for k in ov:
            labels.add('pot_override_' + k)
    if case['units_arg'] is None or case['style_arg'] is None:
        labels.add('pot_own')
    if len(norm) > len(case['symbols']):
        labels.add('pot_allsymbols_added')
    if len(case['symbols']) > max(case['atype']):
        labels.add('pot_trailing_type')
    if case.get('masses') is not None:
        labels.add('pot_sysmasses')
    if case.get('prior') is not None:
        labels.add('pot_prior_use')


def _oracle_snippet(case):
    import atomman as am
    case = narrowed(case)
    V, o, s0, x0 = snapshot(case)
    labels, outside = system_labels(case, s0, V)
    held = {}
    system = build_system(am, case, V, o, x0, held)
    before = sys_state(system, held)
    ret, fname = call_data_dump(case, system)
    require_untouched(before, system, held, "dump('atom_data')", ('view:pos', 'caller:pos', 'vects', 'origin'))
    require(isinstance(ret, tuple) and len(ret) == 2 and isinstance(ret[1], str), lambda: 'expected (content, info), got %r' % (type(ret),))
    text, info = ret
    style, units = case['style'], case['units']
    judge_snippet(case, info, fname, labels)
    # the header of the file the snippet came with (full judgement of the body: clause data)
    try:
        d = LD.parse(text)
    except LD.FormatError as e:
        raise Violation('not a well-formed data file: %s\n%s' % (e, text[:600]))
    exp_nt = expected_natypes(case)
    require(d['natypes'] == exp_nt, lambda: 'header says %d atom types, expected %d' % (d['natypes'], exp_nt))
    cm = d['sections']['Atoms']['comment']
    if cm:
        require(cm.split()[0] == style.split()[0], lambda: 'Atoms section comment %r does not name atom_style %r' % (cm, style))
    style_labels(style, units, base_units(), labels)
    labels.add('units_' + units)
    if case['style_arg'] is None or case['units_arg'] is None:
        labels.add('defaults')
    if case.get('sink') == 'io':
        labels.add('filelike')
    if style != 'atomic' or units != 'metal':
        labels.add('nt')
    return labels


oracle_snippet = guarded(under_units(_oracle_snippet, _pre_data))


# ============================================================================= dump files

DUMPCOLS = {   # System property -> (dump custom column names, LAMMPS quantity)
    'atype': (['type'], None), 'm_id': (['mol'], None), 'mass': (['mass'], 'mass'),
    'pos': (['x', 'y', 'z'], 'length'), 'upos': (['xu', 'yu', 'zu'], 'length'),
    'spos': (['xs', 'ys', 'zs'], 'scaled'), 'supos': (['xsu', 'ysu', 'zsu'], 'scaled'),
    'velocity': (['vx', 'vy', 'vz'], 'velocity'), 'force': (['fx', 'fy', 'fz'], 'force'), 'charge': (['q'], 'charge'),
    'mu': (['mux', 'muy', 'muz'], 'dipole'), 'radius': (['radius'], 'length'), 'diameter': (['diameter'], 'length'),
    'ang_velocity': (['omegax', 'omegay', 'omegaz'], 'ang-vel'), 'ang_momentum': (['angmomx', 'angmomy', 'angmomz'], 'ang-mom'),
}


def dump_kwargs(case):
    kw = dict(lammps_units=case['units'], float_format=case['fmt'])
    if case['prop_name'] is not None:
        kw['prop_name'] = list(case['prop_name'])
    return kw


def _oracle_dump(case):
    import atomman as am
    case = narrowed(case)
    V, o, s0, x0 = snapshot(case)
    labels, outside = system_labels(case, s0, V)
    units, fmt = case['units'], case['fmt']
    n = len(x0)
    base = base_units()
    kn = Known()
    held = {}
    system = build_system(am, case, V, o, x0, held)
    before = sys_state(system, held)
    kw = dump_kwargs(case)
    names_arg = kw.get('prop_name')
    buf = None
    if case.get('sink') == 'io':
        buf = kw['f'] = io.StringIO()
    try:
        text = system.dump('atom_dump', **kw)
        # a writer that does not modify: the system, the arrays it was built from and the list of names are as they were
        require_untouched(before, system, held, "dump('atom_dump')")
        require(names_arg is None or names_arg == case['prop_name'], lambda: "dump('atom_dump') changed the caller's prop_name list to %r" % (names_arg,))
        labels.add('inputs_kept')
        if buf is not None:
            require(text is None, lambda: 'f=<file-like>: expected None, got %r' % (type(text),))
            text = buf.getvalue()
            labels.add('filelike')
    except TypeError as e:
        if units == 'lj' and "unsupported operand type(s) for +: 'NoneType' and 'str'" in str(e):
            raise Violation("dump('atom_dump', lammps_units='lj') raised TypeError: the torque entry of standard_conversions "
                            "adds None + '*' + None", key=K_LJ_DUMP)
        raise
    except KeyError as e:
        if e.args == ('None',) and units == 'lj' and (('ang_momentum' in _dump_props(case)) or ('ang_velocity' in _dump_props(case))):
            raise Violation("dump('atom_dump', lammps_units='lj') with ang_momentum/ang_velocity raised KeyError('None')", key=K_LJ_ANG)
        raise
    require(isinstance(text, str), lambda: 'f=None: expected the content as str, got %r' % (type(text),))
    try:
        d = LP.parse(text)
    except LP.FormatError as e:
        narrow_parse_failure(case, text, e, units, x0)
        raise Violation('not a well-formed dump file: %s\n%s' % (e, text[:600]))
    require(d['natoms'] == n, lambda: 'NUMBER OF ATOMS %d, system has %d' % (d['natoms'], n))
    for i in range(3):
        require((d['boundary'][i] == 'pp') == bool(case['pbc'][i]), lambda: 'boundary flags %r for pbc %r' % (d['boundary'], case['pbc']))
    # ---- box: bounding box <-> lo/hi + tilts
    c = case['cell']
    tilted = is_tilted(V)
    require(d['triclinic'] == tilted, lambda: 'BOX BOUNDS triclinic=%r but the cell has tilts %r' % (d['triclinic'], [V[1, 0], V[2, 0], V[2, 1]]))
    fl, rel_l = LU.factor(units, 'length', base)
    lob = np.zeros(3); hib = np.zeros(3); hlo = np.zeros(3); hhi = np.zeros(3)
    for i in range(3):
        (lob[i], hlo[i]), (hib[i], hhi[i]) = fv(d['bounds'][i][0]), fv(d['bounds'][i][1])
    tl = np.zeros(3); htl = np.zeros(3)
    if tilted:
        for i in range(3):
            tl[i], htl[i] = fv(d['tilt'][i])
    xy, xz, yz = V[1, 0] * fl, V[2, 0] * fl, V[2, 1] * fl
    L = np.diag(V) * fl
    oL = o * fl
    mag = (np.abs(o).max() + np.abs(V).sum()) * fl
    arith = (16 * EPS + rel_l) * mag
    exp_lo = np.array([oL[0] + min(0.0, xy, xz, xy + xz), oL[1] + min(0.0, yz), oL[2]])
    exp_hi = np.array([oL[0] + L[0] + max(0.0, xy, xz, xy + xz), oL[1] + L[1] + max(0.0, yz), oL[2] + L[2]])
    require(np.all(np.abs(lob - exp_lo) <= hlo + arith) and np.all(np.abs(hib - exp_hi) <= hhi + arith),
            lambda: 'bounding box differs: file lo %r hi %r; expected (xlo+min(0,xy,xz,xy+xz) ...) lo %r hi %r in %s' % (lob.tolist(), hib.tolist(), exp_lo.tolist(), exp_hi.tolist(), units))
    require(np.all(np.abs(tl - np.array([xy, xz, yz])) <= htl + arith), lambda: 'tilt factors (xy xz yz) in file %r, system %r' % (tl.tolist(), [xy, xz, yz]))
    if np.any(L < 200 * (hlo + hhi)):
        labels.add('underresolved')
    else:
        require(np.all(hib > lob), lambda: 'bounds do not satisfy lo < hi: %r %r' % (lob.tolist(), hib.tolist()))
    # the cell as a reader reconstructs it from the file (for unscaling)
    rlo = np.array([lob[0] - min(0.0, tl[0], tl[1], tl[0] + tl[1]), lob[1] - min(0.0, tl[2]), lob[2]])
    rhi = np.array([hib[0] - max(0.0, tl[0], tl[1], tl[0] + tl[1]), hib[1] - max(0.0, tl[2]), hib[2]])
    Vr = np.array([[rhi[0] - rlo[0], 0, 0], [tl[0], rhi[1] - rlo[1], 0], [tl[1], tl[2], rhi[2] - rlo[2]]])
    hrlo = np.array([hlo[0] + htl[0] + htl[1], hlo[1] + htl[2], hlo[2]])
    hrhi = np.array([hhi[0] + htl[0] + htl[1], hhi[1] + htl[2], hhi[2]])
    dVr = np.array([[hrlo[0] + hrhi[0], 0, 0], [htl[0], hrlo[1] + hrhi[1], 0], [htl[1], htl[2], hrlo[2] + hrhi[2]]])
    # ---- columns
    names = _dump_props(case)
    expcols = []
    colinfo = {}
    for p in names:
        if p == 'atom_id':
            expcols.append('id'); continue
        if p in DUMPCOLS:
            cn, q = DUMPCOLS[p]
            for j, cname in enumerate(cn):
                expcols.append(cname)
                colinfo[cname] = (p, (j,) if len(cn) > 1 else (), q)
        else:
            arr = np.array(case['props'][p])
            for index in np.ndindex(*arr.shape[1:]):
                cname = p + ''.join('[%d]' % i for i in index)
                expcols.append(cname)
                colinfo[cname] = (p, index, None)
    require(sorted(d['columns']) == sorted(expcols), lambda: 'ITEM: ATOMS columns %r, expected %r' % (d['columns'], expcols))
    ci = {cname: j for j, cname in enumerate(d['columns'])}
    ids = [int(r[ci['id']]) for r in d['rows']]
    require(len(set(ids)) == n, lambda: 'atom ids are not unique: %r' % (ids,))
    own = case['props'].get('atom_id')
    if own is not None:
        require(sorted(ids) == sorted(own), lambda: 'ids %r are not the system\'s own %r' % (ids, own))
        idx = [own.index(a) for a in ids]
        labels.add('own_ids')
    else:
        require(sorted(ids) == list(range(1, n + 1)), lambda: 'ids %r are not 1..N' % (ids,))
        idx = [a - 1 for a in ids]
    x0L = x0 * fl
    for r, row in enumerate(d['rows']):
        k = idx[r]
        for cname, (p, index, q) in colinfo.items():
            tok = row[ci[cname]]
            if p in ('pos', 'upos'):
                cmp_value(kn, 'atom %d column %s' % (k, cname), tok, x0[k][index[0]], 'length', units, False, base, extra_abs=arith,
                          store=narrow_float(case) if system.atoms.pos.dtype != np.float64 else None)
                continue
            if p in ('spos', 'supos'):
                continue
            val = case['atype'][k] if p == 'atype' else case['props'][p][k]
            for i in index:
                val = val[i]
            if isinstance(val, int):
                cmp_int('atom %d column %s' % (k, cname), tok, val)
            else:
                cmp_value(kn, 'atom %d column %s' % (k, cname), tok, val, q, units, False, base, store=narrow_float(case))
        for p in ('spos', 'supos'):
            if p in names:
                cn = DUMPCOLS[p][0]
                sv = np.zeros(3); hs = np.zeros(3)
                for j in range(3):
                    sv[j], hs[j] = fv(row[ci[cn[j]]])
                xr = rlo + sv @ Vr
                tolx = hrlo + hs @ np.abs(Vr) + np.abs(sv) @ dVr + arith * (1 + np.abs(sv).max())
                require(np.all(np.abs(xr - x0L[k]) <= tolx), lambda: 'atom %d: unscaled %s = %r, system position (in %s) %r (tol %r)' % (k, cn, xr.tolist(), units, x0L[k].tolist(), tolx.tolist()))
    labels.add('units_' + units)
    labels.add('fmt_' + fmt)
    labels.add('explicit' if case['prop_name'] is not None else 'allprops')
    for p in names:
        if p in ('spos', 'upos', 'supos', 'velocity', 'stress', 'charge', 'mu'):
            labels.add('has_' + p)
    if tilted and (xy < 0 or xz < 0 or xy + xz < 0 or yz < 0):
        labels.add('neg_tilt')
    if len([p for p in names if p in POSVARIANTS]) == 4:
        labels.add('all_pos_variants')
    if case.get('decades'):
        single_row_dump(am, case, V, o, x0, d, ci, ids, colinfo)
    if (labels & {'tilted', 'origin'}) and outside and (units != 'metal' or (set(names) - {'atom_id', 'atype', 'pos'})):
        labels.add('nt')
    kn.finish()
    return labels


def single_row_dump(am, case, V, o, x0, d, ci, ids, colinfo):
    """decades: the smallest atom written alone (same cell, unit style, format, columns) gives the same tokens in every
    column that is not a position"""
    k = int(np.argmin(case['decades']))
    one = dict(case, rel=[case['rel'][k]], atype=[case['atype'][k]], pre=None, recycle=None,
               props={name: [v[k]] for name, v in case['props'].items()})
    sys1 = build_system(am, one, V, o, x0[k:k + 1])
    d1 = LP.parse(sys1.dump('atom_dump', **dump_kwargs(case)))
    own = case['props'].get('atom_id')
    idk = own[k] if own is not None else k + 1
    row = d['rows'][ids.index(idk)]
    c1 = {cname: j for j, cname in enumerate(d1['columns'])}
    for cname, (p, index, q) in colinfo.items():
        if p in POSVARIANTS:
            continue
        require(row[ci[cname]] == d1['rows'][0][c1[cname]],
                lambda: 'decades: atom %d column %s reads %s in the file of all atoms (per-atom powers of ten %r) and %s when the '
                        'atom is written alone' % (k, cname, row[ci[cname]], case['decades'], d1['rows'][0][c1[cname]]))


def _dump_props(case):
    if case['prop_name'] is not None:
        return list(case['prop_name'])
    return ['atom_id', 'atype', 'pos'] + [p for p in case['props'] if p != 'atom_id']


def _pre_dump(case):
    """an earlier dump file of the same system with the same unit style and format (not judged here)"""
    import atomman as am
    case = narrowed(case)
    V, o, s0, x0 = snapshot(case)
    system = build_system(am, dict(case, pre=None), V, o, x0)
    kw = dict(lammps_units=case['units'], float_format=case['fmt'])
    if case['prop_name'] is not None:
        kw['prop_name'] = list(case['prop_name'])
    try:
        system.dump('atom_dump', **kw)
    except (TypeError, KeyError):
        if case['units'] != 'lj':                         # the listed blocking findings under lj: keyed by the judged call
            raise


oracle_dump = guarded(under_units(_oracle_dump, _pre_dump))


# ============================================================================= POSCAR

def _match_rows(got, exp, tol):
    """rows of one species: in order, or as a multiset (bipartite matching on |got-exp| <= tol)"""
    if len(got) == 0:
        return True
    ok = np.all(np.abs(got[:, None, :] - exp[None, :, :]) <= tol[:, None, :], axis=2)
    if np.all(np.diag(ok)):
        return True
    from scipy.sparse import csr_matrix
    from scipy.sparse.csgraph import maximum_bipartite_matching
    mt = maximum_bipartite_matching(csr_matrix(ok.astype(int)), perm_type='column')
    return bool(np.all(mt >= 0))


def poscar_kwargs(case):
    scale = float(case['scale'])
    nr = narrow_of(case)
    if nr is not None and nr['scalar']:
        scale = np.dtype(nr['f'] if nr['f'] in ('float32', 'float16') else 'float32').type(scale)      # a numpy floating scalar (exact: narrowed())
    kw = dict(header=case['header'], coordstyle=case['coord'], box_scale=scale)
    if case['fmt'] is not None:
        kw['float_format'] = case['fmt']
    if case['symbols_arg'] is not None:
        kw['symbols'] = list(case['symbols_arg'])
    return kw


def _oracle_poscar(case):
    import atomman as am
    case = narrowed(case)
    V, o, s0, x0 = snapshot(case)
    labels, outside = system_labels(case, s0, V)
    n = len(x0)
    kn = Known()
    held = {}
    system = build_system(am, case, V, o, x0, held)
    before = sys_state(system, held)
    scale = float(case['scale'])
    kw = poscar_kwargs(case)
    syms_arg = kw.get('symbols')
    buf = None
    if case.get('sink') == 'io':
        buf = kw['f'] = io.StringIO()
    try:
        text = system.dump('poscar', **kw)
        require_untouched(before, system, held, "dump('poscar')")
        require(syms_arg is None or syms_arg == case['symbols_arg'], lambda: "dump('poscar') changed the caller's symbols list to %r" % (syms_arg,))
        labels.add('inputs_kept')
        if buf is not None:
            require(text is None, lambda: 'f=<file-like>: expected None, got %r' % (type(text),))
            text = buf.getvalue()
            labels.add('filelike')
    except ValueError as e:
        if 'truth value of an empty array is ambiguous' in str(e):
            raise Violation("dump('poscar') raised ValueError (%s): `if count == []` on a numpy array" % e, key=K_POSCAR_COUNT)
        raise
    require(isinstance(text, str), lambda: 'f=None: expected the content as str, got %r' % (type(text),))
    try:
        d = PO.parse(text)
    except PO.FormatError as e:
        syms = case['symbols_arg'] or case['symbols']
        if syms is not None and None not in syms and len(syms) > max(case['atype']) and 'species names but' in str(e):
            raise Violation('not a well-formed POSCAR: %s (the system has %d symbols, the highest type present is %d)'
                            % (e, len(syms), max(case['atype'])), key=K_POSCAR_NTYPES)
        raise Violation('not a well-formed POSCAR: %s\n%s' % (e, text[:500]))
    require(d['comment'] == case['header'], lambda: 'comment line %r, header given %r' % (d['comment'], case['header']))
    sc, hsc = fv(d['scale_tok'])
    require(abs(sc - scale) <= hsc + 4 * EPS * scale, lambda: 'scale factor %s, box_scale given %r' % (d['scale_tok'], scale))
    require(sc > 0, 'scale factor not positive')
    Lt = np.zeros((3, 3)); hL = np.zeros((3, 3))
    for i in range(3):
        for j in range(3):
            Lt[i, j], hL[i, j] = fv(d['lattice_tok'][i][j])
    vmax = np.abs(V).max()
    cond = float(np.linalg.cond(V))
    arith = 16 * EPS * cond * (vmax + np.abs(o).max()) * max(1.0, float(np.abs(s0).max()) * 3)
    Vr = sc * Lt
    dVr = sc * hL + np.abs(Lt) * hsc + 8 * EPS * vmax
    require(np.all(np.abs(Vr - V) <= dVr), lambda: 'scale * lattice rows differ from the system\'s box vectors by %.3g:\nfile (scale %s)\n%r\nsystem\n%r' % (np.abs(Vr - V).max(), d['scale_tok'], Lt, V))
    # ---- species
    exp_syms = case['symbols_arg'] if case['symbols_arg'] is not None else case['symbols']
    if exp_syms is not None and None in exp_syms:
        exp_syms = None
    if exp_syms is None:
        require(d['symbols'] is None, lambda: 'species line %r although the system has no complete symbols' % (d['symbols'],))
    else:
        require(d['symbols'] == list(exp_syms), lambda: 'species line %r, system symbols %r' % (d['symbols'], exp_syms))
        labels.add('symbols')
        if len(set(exp_syms)) < len(exp_syms):
            labels.add('repeated_symbol')
    atype = np.array(case['atype'])
    ntyp = max(max(case['atype']), len(exp_syms) if exp_syms else 0)
    exp_counts = [int(np.sum(atype == t)) for t in range(1, ntyp + 1)]
    require(d['counts'] == exp_counts, lambda: 'ions per species %r, the system has %r atoms of types 1..%d' % (d['counts'], exp_counts, ntyp))
    require(len(d['rows']) == n, 'number of ion lines')
    # ---- coordinates
    want_cart = case['coord'][0] in 'cCkK'
    require(d['cartesian'] == want_cart, lambda: 'coordinate mode line %r for coordstyle %r' % (d['mode_line'], case['coord']))
    R = np.zeros((n, 3)); hR = np.zeros((n, 3))
    for r in range(n):
        for j in range(3):
            R[r, j], hR[r, j] = fv(d['rows'][r][j])
    if want_cart:
        X = sc * R
        tolX = sc * hR + np.abs(R) * hsc + arith
    else:
        X = R @ Vr
        tolX = hR @ np.abs(Vr) + np.abs(R) @ dVr + arith
    order = np.concatenate([np.nonzero(atype == t)[0] for t in range(1, ntyp + 1)]).astype(int)
    offs = np.cumsum([0] + exp_counts)
    def matches(target):
        for t in range(ntyp):
            a, b = offs[t], offs[t + 1]
            if not _match_rows(X[a:b], target[order[a:b]], tolX[a:b]):
                return False
        return True
    # the format has no origin: absolute positions or positions relative to the box origin
    if not (matches(x0) or matches(x0 - o)):
        detail = ('positions: actual coordinates read from the file (scale applied%s) differ from the system\'s, with or without '
                  'the box origin; first rows read %r, system %r' % (' to Cartesian numbers' if want_cart else '',
                                                                      X[:2].tolist(), x0[order[:2]].tolist()))
        st_dt = narrow_float(case) if system.atoms.pos.dtype != np.float64 else None
        if want_cart and st_dt is not None:
            # positions stored in a narrow float dtype: division by the scale factor carried out in that dtype
            tolN = tolX + 4 * float(np.finfo(st_dt).eps) * np.abs(X)
            def m3(target):
                return all(_match_rows(X[offs[t]:offs[t + 1]], target[order[offs[t]:offs[t + 1]]], tolN[offs[t]:offs[t + 1]]) for t in range(ntyp))
            if m3(x0) or m3(x0 - o):
                raise Violation(detail + ' [positions stored as %s: they were divided by the scale factor in %s]' % (st_dt, st_dt), key=K_POSCAR_NARROW)
        if want_cart and abs(sc - 1) > 1e-9:
            Xu = R.copy()
            tolU = hR + arith
            def m2(target):
                return all(_match_rows(Xu[offs[t]:offs[t + 1]], target[order[offs[t]:offs[t + 1]]], tolU[offs[t]:offs[t + 1]]) for t in range(ntyp))
            if m2(x0) or m2(x0 - o):
                raise Violation(detail + ' [the Cartesian numbers were not divided by the scale factor]', key=K_POSCAR_CART)
        raise Violation(detail)
    labels.add('cartesian' if want_cart else 'direct')
    labels.add('scale1' if scale == 1.0 else 'scaled')
    if scale != 1.0 and abs(scale - 1.0) <= 1.001e-3:
        labels.add('scale_near1')
    labels.add('fmt_%s' % case['fmt'])
    if 0 in exp_counts:
        labels.add('zero_count')
    if case['symbols_arg'] is not None:
        labels.add('symbols_arg')
    if (labels & {'tilted', 'rotated', 'origin', 'sym_perm'}) and (scale != 1.0 or want_cart):
        labels.add('nt')
    kn.finish()
    return labels


oracle_poscar = guarded(_oracle_poscar)


# ============================================================================= result ledger and caller-side mutation
# A ledger case is a short sequence of writer calls (atom_dump with return_prop_info=True, atom_data, poscar), each on its own
# System.  Everything a call returned - content, command snippet, the prop_info list of dicts, the file-like object written
# to - is kept together with a copy; the system and the caller's arrays are recorded as the call left them.  Then: later
# calls on other objects and (non-modifying ones, other unit styles) on the same objects; the returned prop_info handed back
# in as the caller's own, partially filled prop_info= list; the ledger re-read (nothing a call returned or was handed may have
# moved); every call repeated on a fresh object (bit-identical output); the caller overwrites what it was handed out (the
# prop_info lists) and what it handed in (its arrays, the systems, through in-place writes and setters); every call repeated
# once more (still the first answers); finally every call is judged by the oracle of its own clause, in the process in which
# all of this happened.

def ledger_sub(sub, kind):
    """a generated case of clause `kind` as a ledger call: default working units, no named file, floats stored as doubles
    (the two listed storage-dtype findings are met in the clauses themselves)"""
    sub = dict(sub)
    sub['wu'] = None
    if sub.get('sink') == 'path':
        sub['sink'] = 'str'
    if sub.get('form') == 'narrow':
        nr = sub['narrow']
        sub['narrow'] = dict(nr, f='float64', i='int16' if nr['i'].startswith('>') else nr['i'])
    return sub


_LEDGER_KIND = st.sampled_from(('dump', 'dump', 'data', 'poscar'))
_LEDGER_N = st.sampled_from((2, 2, 3))


@st.composite
def ledger_cases(draw):
    calls = []
    for _ in range(draw(_LEDGER_N)):
        kind = draw(_LEDGER_KIND)
        calls.append({'kind': kind, 'case': ledger_sub(draw(_SUB_CASES[kind]), kind)})
    return {'calls': calls, 'bits': draw(_BITS)}


def raw_call(am, kind, case):
    """one writer call on a freshly built System; everything it returned"""
    case = narrowed(case)
    V, o, s0, x0 = snapshot(case)
    held = {}
    system = build_system(am, case, V, o, x0, held)
    rec = {'kind': kind, 'case': case, 'system': system, 'held': held, 'info': None, 'pinfo': None, 'buf': None}
    if kind == 'data':
        ret, fname = call_data_dump(case, system)
        rec['text'], rec['info'] = ret if isinstance(ret, tuple) else (ret, None)
        return rec
    kw = dump_kwargs(case) if kind == 'dump' else poscar_kwargs(case)
    if kind == 'dump':
        kw['return_prop_info'] = True
    if case.get('sink') == 'io':
        rec['buf'] = kw['f'] = io.StringIO()
    ret = system.dump('atom_dump' if kind == 'dump' else 'poscar', **kw)
    if kind == 'dump':
        if rec['buf'] is None:
            require(isinstance(ret, tuple) and len(ret) == 2, lambda: 'return_prop_info=True: expected (content, prop_info), got %r' % (type(ret),))
            rec['text'], rec['pinfo'] = ret
        else:
            rec['text'], rec['pinfo'] = rec['buf'].getvalue(), ret
        require(isinstance(rec['pinfo'], list) and all(isinstance(q, dict) for q in rec['pinfo']),
                lambda: 'return_prop_info=True: prop_info is %r, a list of dict is documented' % (type(rec['pinfo']),))
    else:
        rec['text'] = ret if rec['buf'] is None else rec['buf'].getvalue()
    require(isinstance(rec['text'], str), lambda: 'content is %r' % (type(rec['text']),))
    return rec


def partial_prop_info(pinfo):
    """what a caller writes by hand from a returned prop_info: names, column names (a str for one column, a tuple for
    several), units; shape only where the number of columns does not give it; no dtype"""
    out = []
    for q in pinfo:
        tn = list(q['table_name'])
        r = {'prop_name': q['prop_name'], 'table_name': tn[0] if len(tn) == 1 else tuple(tn)}
        if len(tuple(q['shape'])) > 1:
            r['shape'] = list(q['shape'])
        if q.get('unit') is not None:
            r['unit'] = q['unit']
        out.append(r)
    return out


def _lammps_cell(case):
    return not (case['cell'].get('rot') or case['cell'].get('P'))


def _oracle_ledger(case):
    import atomman as am
    labels = {'ledger', 'calls_%d' % len(case['calls'])}
    bits = case['bits']
    recs = []
    for c in case['calls']:
        rec = raw_call(am, c['kind'], c['case'])
        rec['kept'] = (rec['text'], rec['info'], copy.deepcopy(rec['pinfo']))
        rec['after'] = sys_state(rec['system'], rec['held'])
        recs.append(rec)
        if rec['pinfo'] is not None:
            # the returned prop_info lists the columns of the file it came with, in order
            cols = LP.parse(rec['text'])['columns']
            flat = [t for q in rec['pinfo'] for t in q['table_name']]
            require(flat == cols, lambda: 'returned prop_info lists the columns %r, the file has %r' % (flat, cols))
            labels.add('pinfo_returned')
    if len([r for r in recs if r['kind'] == 'dump']) >= 2:
        labels.add('two_dumps')
    # ---- later, non-modifying uses of the same objects under other unit styles
    for i, rec in enumerate(recs):
        if (bits >> i) & 1:
            sysm = rec['system']
            sysm.dump('poscar', box_scale=2.0, coordstyle='cartesian')
            if _lammps_cell(rec['case']):
                sysm.dump('atom_dump', lammps_units=('si', 'nano', 'real')[(bits >> 3) % 3], prop_name=['atom_id', 'atype', 'spos', 'upos'])
                sysm.dump('atom_data', units=('cgs', 'micro', 'electron')[(bits >> 5) % 3], atom_style='atomic', safecopy=True)
            labels.add('later_same_object')
    # ---- the returned prop_info handed back in, as the caller's own partially filled list
    for rec in recs:
        if rec['pinfo'] is not None and (bits >> 7) & 1:
            mine = partial_prop_info(rec['pinfo'])
            keep = copy.deepcopy(mine)
            text2 = rec['system'].dump('atom_dump', prop_info=mine, lammps_units=rec['case']['units'], float_format=rec['case']['fmt'])
            require(repr(mine) == repr(keep), lambda: "dump('atom_dump', prop_info=...) changed the caller's prop_info list:\nbefore %r\nafter  %r" % (keep, mine))
            require(text2 == rec['text'], lambda: 'the file written through prop_info= (the returned prop_info, re-typed by hand) differs from the file '
                                                   'it was returned with:\n%s\n---\n%s' % (text2[:500], rec['text'][:500]))
            labels.add('pinfo_in')
    # ---- the ledger, re-read after everything that happened since
    def reread(when):
        for i, rec in enumerate(recs):
            require((rec['text'], rec['info']) == rec['kept'][:2] and rec['pinfo'] == rec['kept'][2],
                    lambda: 'call %d (%s): what the call returned changed %s: prop_info %r, was %r' % (i, rec['kind'], when, rec['pinfo'], rec['kept'][2]))
            if rec['buf'] is not None:
                require(rec['buf'].getvalue() == rec['text'], lambda: 'call %d (%s): the file-like object written to changed %s' % (i, rec['kind'], when))
            diff = state_diff(rec['after'], sys_state(rec['system'], rec['held']))
            require(not diff, lambda: 'call %d (%s): the system / the caller\'s arrays changed %s: %s' % (i, rec['kind'], when, ', '.join(diff)))
    reread('after later calls on this and other objects')
    # ---- every call again on a fresh object: bit-identical
    def again(when):
        for i, (c, rec) in enumerate(zip(case['calls'], recs)):
            r2 = raw_call(am, c['kind'], c['case'])
            require(r2['text'] == rec['kept'][0] and r2['info'] == rec['kept'][1] and r2['pinfo'] == rec['kept'][2],
                    lambda: 'call %d (%s) repeated on a fresh object %s gives another result:\n%s\n--- first\n%s\nprop_info %r, first %r'
                            % (i, rec['kind'], when, r2['text'][:400], rec['kept'][0][:400], r2['pinfo'], rec['kept'][2]))
    again('after later calls')
    reread('after the calls were repeated')
    # ---- the caller overwrites what it was handed out and what it handed in
    for rec in recs:
        if rec['pinfo'] is not None:
            for q in rec['pinfo']:
                q['table_name'].reverse()
                q['table_name'].append('junk')
                q['unit'] = 'nm'
                q['shape'] = (7,)
            rec['pinfo'].reverse()
            del rec['pinfo'][:1]
        sysm = rec['system']
        for k, a in sysm.atoms.view.items():
            if k != 'atype' and a.flags.writeable:
                a[...] = 7 if a.dtype.kind in 'iu' else -3.25
        if (bits >> 8) & 1:
            sysm.atoms.pos = np.full((sysm.natoms, 3), 0.125)
            sysm.box_set(vects=np.array(sysm.box.vects) * 3.0, origin=[1.0, 2.0, 3.0])
        else:
            sysm.box.set(a=2.0, b=3.0, c=5.0, alpha=80.0, beta=70.0, gamma=65.0)
        sysm.pbc = [not bool(b) for b in sysm.pbc]
        for a in rec['held'].values():
            if isinstance(a, np.ndarray) and a.flags.writeable and a.dtype.kind == 'f':
                a[...] = 1e30 if a.dtype.itemsize > 2 else 6e4
    labels.add('caller_overwrote')
    again('after the caller overwrote the returned prop_info lists, its arrays and the systems')
    # ---- every call judged by the oracle of its clause, here and now
    nt = False
    for c in case['calls']:
        sub = _SUB_ORACLES[c['kind']](c['case'])
        labels.add('kind_' + c['kind'])
        nt = nt or 'nt' in sub
        labels |= {l for l in sub if l in ('recycled', 'history', 'form_narrow', 'form_list', 'form_strided', 'form_fortran', 'form_readonly',
                                           'tiny_tilt', 'near_face', 'decades', 'sym', 'filelike', 'potential')}
    if nt:
        labels.add('nt')
    return labels


# ============================================================================= hybrids with shared columns, enumerated
_ENUM_CELLS = ({'lx': 6.0, 'ly': 5.5, 'lz': 7.25, 'xy': 0.0, 'xz': 0.0, 'yz': 0.0, 'origin': [0.0, 0.0, 0.0]},
               {'lx': 4.5, 'ly': 6.0, 'lz': 5.0, 'xy': 1.25, 'xz': -0.75, 'yz': 2.0, 'origin': [-3.0, 1.5, 12.0]},
               {'lx': 11.0, 'ly': 3.5, 'lz': 8.0, 'xy': -2.5, 'xz': 0.0, 'yz': 0.5, 'origin': [0.0, 0.0, 0.0]})


def hybrid_enum(tier):
    """every combination of two and of three distinct sub-styles with a shared column that has a LAMMPS unit, under every
    unit style whose factor for such a column is not one (default working units; electron left out where a density
    column has no unit): quick - pairs in both orders, triples in one order rotating with the index; thorough - every
    order.  Small fixed-size systems from a seeded generator."""
    import itertools
    cases = []
    k = 0
    for size in (2, 3):
        for combo in itertools.combinations(SUBSTYLES, size):
            perms = list(itertools.permutations(combo))
            hot = [u for u in _allowed_units('hybrid ' + ' '.join(combo)) if scaled_shared('hybrid ' + ' '.join(combo), u, _DEF_BASE)]
            for units in hot:
                k += 1
                if tier != 'quick':
                    chosen = perms
                elif size == 2:
                    chosen = perms
                else:
                    chosen = [perms[k % len(perms)]]
                for j, perm in enumerate(chosen):
                    style = 'hybrid ' + ' '.join(perm)
                    rng = np.random.default_rng(1000 * k + j)
                    n = 3
                    velocity = bool((k + j) % 2)
                    cell = dict(_ENUM_CELLS[(k + j) % 3], rot=None, lefthanded=False)
                    rel = [[round(float(v), 3) for v in row] for row in rng.uniform(-1.0, 2.0, size=(n, 3))]
                    props = {name: gen_prop(rng, name, n) for name in style_props(style, velocity)}
                    cases.append({'cell': cell, 'pbc': gens.PBCS[(k + 3 * j) % 8], 'rel': rel, 'atype': gen_atype(rng, n),
                                  'props': props, 'symbols': None, 'style': style, 'units': units,
                                  'fmt': '%.16e' if units in ('si', 'cgs') else ('%.13f', '%.8f')[(k + j) % 2],
                                  'style_arg': style, 'units_arg': units, 'safecopy': bool(k % 2), 'return_info': bool(j % 2),
                                  'natypes_extra': 0, 'sink': 'str', 'form': 'array', 'pre': [], 'wu': None})
    return cases


# ============================================================================= clauses

def _blocked():
    """which whole-clause findings are present in the tree under test (decides only whether the share guards
    of a clause can be met at all: a clause whose every case hits a listed finding records no labels)"""
    out = set()
    try:
        import atomman as am
        s = am.System(atoms=am.Atoms(atype=[1], pos=[[0.0, 0.0, 0.0]]), box=am.Box(), pbc=[True, True, True])
        try:
            s.dump('poscar')
        except ValueError as e:
            if 'truth value of an empty array is ambiguous' in str(e):
                out.add('poscar')
        try:
            info = s.dump('atom_data', safecopy=True)[1]
            if 'units None' in info:
                out.add('snippet')
        except Exception:
            pass
    except Exception:
        pass
    return out


_BLOCKED = _blocked()

_SUB_CASES = {'data': data_cases(), 'dump': dump_cases(), 'poscar': poscar_cases()}
_SUB_ORACLES = {'data': oracle_data, 'dump': oracle_dump, 'poscar': oracle_poscar}
oracle_ledger = guarded(_oracle_ledger)

CLAUSES = [
    Clause('data', oracle_data, data_cases, quick=6000, thorough=150000,
           min_share={'shared': 0.12, 'shared_scaled': 0.078, 'shared_2': 0.045, 'shared_3': 0.07, 'tiny_tilt': 0.085,
                      'tiny_1e-9_1e-5': 0.047, 'tiny_cleaned': 0.047, 'tiny_1e-5_1e-3': 0.028, 'wu': 0.13, 'wu_pre_default': 0.053,
                      'wu_pre_other': 0.028, 'wu_named': 0.084, 'wu_seed': 0.015, 'wu_SI': 0.013,
                      'nt': 0.15, 'imageflags': 0.18, 'extended': 0.3, 'velocities': 0.11, 'only_yz': 0.015,
                      'hybrid': 0.02, 'safecopy': 0.09, 'potential': 0.07, 'pot_override': 0.024, 'pot_own': 0.02,
                      'filename': 0.022, 'read_data': 0.012, 'history': 0.08, 'form_list': 0.04, 'form_fortran': 0.045,
                      'form_readonly': 0.06, 'form_strided': 0.051,
                      'near_face': 0.085, 'near_1e-12_1e-8': 0.022, 'near_1e-8_1e-3': 0.07, 'sym': 0.04, 'sym_half': 0.018, 'decades': 0.04,
                      'form_narrow': 0.045, 'recycled': 0.05, 'recycled_inplace': 0.025, 'recycled_setter': 0.018,
                      'inputs_kept': 0.45},
           desc="dump('atom_data') (also via potential= and into a named file): header counts, lo<hi, tilt line, ids, containment, "
                "cell (wrap contract), types, positions with image flags re-applied, per-style columns and Velocities against the "
                "independent unit table; the returned snippet judged as in clause snippet"),
    Clause('hybrid_shared', oracle_data, enumerate=hybrid_enum, nontrivial='shared_scaled',
           min_share={'shared_scaled': 0.9, 'shared_3': 0.4, 'shared_2': 0.012, 'velocities': 0.25,      # (shared_2: 0.13 quick, 0.025 thorough - all 6 orders of every triple there; 0.065 tripped in the thorough tier)
                      'shared_scaled_q': 0.15,
                      'shared_scaled_density': 0.3, 'shared_scaled_mass': 0.02, 'shared_scaled_volume': 0.02, 'shared_scaled_eradius': 0.025},
           desc="dump('atom_data') for every combination of two and three sub-styles of atom_style hybrid that share a column with a "
                "LAMMPS unit, under every unit style that rescales it: the shared column is listed once and converted once"),
    Clause('dump', oracle_dump, dump_cases, quick=4000, thorough=100000,
           min_share={'tiny_tilt': 0.085, 'tiny_1e-9_1e-5': 0.04, 'tiny_cleaned': 0.045, 'tiny_1e-5_1e-3': 0.028, 'wu': 0.12,
                      'wu_pre_default': 0.053, 'wu_pre_other': 0.025, 'wu_named': 0.08, 'wu_seed': 0.015, 'wu_SI': 0.012,
                      'nt': 0.2, 'explicit': 0.12, 'neg_tilt': 0.08, 'own_ids': 0.12, 'history': 0.035, 'form_list': 0.06,
                      'form_fortran': 0.062, 'form_readonly': 0.05, 'form_strided': 0.051,
                      'near_face': 0.093, 'near_1e-12_1e-8': 0.03, 'sym': 0.065, 'sym_half': 0.024, 'decades': 0.05, 'form_narrow': 0.03,
                      'recycled': 0.1, 'all_pos_variants': 0.035, 'inputs_kept': 0.45},
           desc="dump('atom_dump'): ITEM blocks, boundary flags, bounding box <-> lo/hi/tilt relation, column header, "
                "x|xs|xu|xsu unscaled with the written box, standard columns in LAMMPS units, extras as stored"),
    Clause('poscar', oracle_poscar, poscar_cases, quick=4400, thorough=80000,
           min_share={} if 'poscar' in _BLOCKED else {'tiny_tilt': 0.08, 'tiny_1e-9_1e-5': 0.037, 'tiny_cleaned': 0.047, 'tiny_1e-5_1e-3': 0.028,
                                                              'nt': 0.15, 'cartesian': 0.08, 'scaled': 0.12, 'symbols': 0.15, 'zero_count': 0.05,
                                                              'repeated_symbol': 0.06, 'form_list': 0.045, 'form_fortran': 0.037,
                                                              'form_readonly': 0.052, 'form_strided': 0.04,
                                                              'near_face': 0.093, 'near_1e-12_1e-8': 0.034, 'sym': 0.09, 'sym_perm': 0.07,
                                                              'scale_near1': 0.15, 'form_narrow': 0.035,
                                                              'recycled': 0.045, 'inputs_kept': 0.45},
           desc="dump('poscar'): comment, scale, scale*lattice = box, species line, counts per type, mode line, "
                "positions with the scale applied (up to the box origin), grouped by type"),
    Clause('ledger', oracle_ledger, ledger_cases, quick=350, thorough=12000,
           min_share={'two_dumps': 0.16, 'pinfo_returned': 0.37, 'pinfo_in': 0.12, 'later_same_object': 0.25, 'kind_data': 0.17,
                      'kind_poscar': 0.11, 'caller_overwrote': 0.45, 'recycled': 0.15, 'nt': 0.35},
           desc="sequences of 2-3 writer calls (atom_dump with return_prop_info, atom_data, poscar): everything returned (content, "
                "snippet, prop_info, file-like object) and handed in (system, caller's arrays, prop_info= list) is bit-identical after later "
                "calls on the same and other objects; repeated calls on fresh objects give bit-identical files, also after the caller "
                "overwrote what it was handed; every call judged by the oracle of its clause"),
    Clause('snippet', oracle_snippet, snippet_cases, quick=1400, thorough=20000,
           min_share={} if 'snippet' in _BLOCKED else {'shared': 0.12, 'wu': 0.11, 'tiny_tilt': 0.085,
                                                               'nt': 0.4, 'defaults': 0.01, 'pot': 0.22, 'pot_override': 0.18,
                                                               'pot_own': 0.08, 'pot_prior_use': 0.05, 'pot_allsymbols_added': 0.02,
                                                               'pot_sysmasses': 0.08, 'pot_comments': 0.08, 'read_data': 0.02,
                                                               'history': 0.1, 'form_narrow': 0.05, 'recycled': 0.05, 'sym': 0.065},
           desc="command snippet returned with a data file, without and with potential= (explicit units/atom_style overriding "
                "the potential's): boundary flags, units and atom_style actually used, read_data file name, command order, "
                "pair_style/pair_coeff/mass lines for exactly the atom types of the file, comments switch"),
]
