"""C18 - Gamma surface periodic, interpolating; Peierls-Nabarro energies match formulas."""
import io
import math
import os
import signal
import tempfile

import numpy as np

from ..core import Clause, Violation, require
from .. import gens
from .. import gens_c18 as G
from ..oracles import gsf_ref, pn_ref

RULE = ("gamma surfaces: n1 x n2 grids (4-15) of Fourier-sum or random energies (optionally plane-separation data, the "
        "duplicated a=1 edge, shuffled row order) over shift vectors that are Cartesian (rectangular/oblique, any plane) "
        "or crystal vectors (integer, half-integer, Miller-Bravais) in cubic/hexagonal/orthorhombic/any-family boxes, "
        "optionally rotated; queries in [-3,3]^2 as scalars, lists, arrays of 1,2,3,7 points, integer periods in [-3,3]. "
        "PN: hand-built SPD / isotropic / Stroh energy-coefficient tensors in axis-aligned or generic (m,n) frames, optional "
        "crystal rotation, Burgers vector of any character in the slip plane, gamma surface spanning the slip plane; "
        "uniform grids of 7-401 points, spacing b/4..b/20, arctangent profile plus sine/ramp perturbations in the edge and "
        "screw components; tau, alpha (none/scalar/0-3 terms), symmetric beta, cutoff, all four finite-difference/stress flags. "
        "Object history (about half of the cases of every stateful clause): a GammaSurface gets other data loaded into the "
        "existing object by set()/model() (and the first back), is queried again in the other interpolation mode / mode order; "
        "an SDVPN is evaluated 1-3 more times on the same object with x/disregistry given as arguments, keywords, through the "
        "setters or mixed (same length with new spacing, new length, translated grid, same grid, back to the first), with "
        "tau/alpha/beta/cutoff/flags changed through their setters in between; solve is preceded and followed by evaluations "
        "of another grid and takes its settings from the constructor, the setters or its keywords; every evaluation is judged "
        "like the first.  "
        "Option combinations: every legal combination of the optional keywords of the coordinate conversions and of "
        "E_gsf/delta - alternative a1vect and a2vect, a1vect only, a2vect only (integer combinations of the stored vectors, "
        "handed over integer-typed when whole) x default / explicit plotting axis xvect x position given as a1/a2, pos or "
        "x/y - judged against my own 2D basis algebra (documented default of xvect: the Cartesian of the a1vect in use).  "
        "Input forms (over half of the cases of coords, coords_multi, pn_terms, pn_total, solve): float ndarray, list, nested "
        "tuple, read-only ndarray, non-contiguous view, numpy scalars, integer-typed (whole-number fractional and plotting "
        "coordinates; x grids of whole angstroms and disregistries rounded to whole angstroms as int ndarray / list of ints; "
        "for solve: the initial guess and x in all these forms, through the setters or solve's keywords); tau/beta as "
        "list/tuple/read-only/non-contiguous; after every call the caller's objects are compared with a snapshot.  "
        "Units (about 60 % of the cases of every clause; exactly 1 in the rest): an overall length scale 10^k, k = -12..+4 "
        "(1e-10: a cell in metres, atomman's SI working units) multiplies the cell edges / Cartesian shift vectors, plane "
        "separations, positions, plotting axes, x grids, disregistries, Burgers vectors, half-widths and cutoff, and an "
        "independent energy-per-area scale 10^j, j = -8..+8, the E_gsf values (K_tensor and tau x 10^(j-k), beta x 10^j, "
        "alpha x 10^(j-2k)); each surface loaded into an object in a history carries its own scales; all references are "
        "evaluated in the scaled units and every tolerance is relative (solve: k = -2..+2, see gens_c18).  "
        "Generator classes carried over from the other properties (judged by the same oracles): "
        "(A) result ledger - clauses ledger / ledger_pn keep every array, tuple and text a GammaSurface / SDVPN returned and compare it bit "
        "for bit, and read every answer again, after 2-6 later operations (more calls on the same object, calls on / reloads / setters / a "
        "solve of ANOTHER object on the same data or gamma surface); "
        "(B) caller-side mutation - in the same histories the caller overwrites in place the arrays it handed in (shift vectors, sample "
        "coordinates, energies; x, disregistry, tau, beta - held as float64 / non-contiguous / reversed-stride / read-only arrays, lists, "
        "tuples, storage dtypes), re-defines its Box through every setter, builds another surface from the re-used objects, overwrites the "
        "query arrays and the arrays it got back; inputs are compared with a snapshot after every call; "
        "(C) storage dtypes - clauses coords_dtypes / pn_dtypes (and arctan) hand every array over as float32, float16, int8, int16, uint8, "
        "uint16, big-endian float64 / int32, Fortran-ordered or reversed-stride arrays and numpy scalars holding exactly representable values "
        "(eighths, whole coordinates up to the dtype limits, dyadic shift vectors, whole-angstrom grids, staircase disregistries); "
        "(D) working units - a quarter to a half of the cases of coords, coords_multi, model, pn_terms, pn_total, arctan run under a unit "
        "plan: atomman.unitconvert.reset_units(named units | integer seed | 'SI'), the physical system re-expressed with my own products of "
        "numericalunits attributes (the default cutoff is 1000 angstrom, model units mJ/m^2, eV/angstrom^2, J/m^2, angstrom, nm), in half of "
        "them after the same case was judged under the default units in the same process; always restored; "
        "(E) near-threshold values - Cartesian shift vectors 10^-k degrees off a right angle / 10^-k off equal lengths (k = 3..12), query "
        "coordinates 10^-k beside an integer line, a sample, a nearest-mode mid-line, the ends of the blending zone, a half-integer (and "
        "exactly on them), positions and plotting axes a relative 10^-k (k >= 9) out of the fault plane, a disregistry with an out-of-plane "
        "component of 10^-k b (k >= 11), xmax 10^-k off xstep (xnum-1)/2 (k >= 7); "
        "(F) many decades in one call - clause decades (query rows of 1e-9 .. 1e2 cells in one array, every conversion judged row by row "
        "relative to the magnitude of the row and against the row alone), disregistries growing over 9 decades and arctangent x grids "
        "over 12 decades with every density row judged relative to itself; "
        "(G) exactly structured inputs - signed axis directions as shift vectors (no rotation), m / n given as signed axis vectors and "
        "the crystal rotation as a signed permutation, exact samples / halves as coordinates; "
        "(H) enumerated options - clause pn_options: every combination of fullstress / cdiffelastic / cdiffsurface / cdiffstress from "
        "every other one through the setters in every order, through the constructor and through solve() keywords, all terms judged after "
        "every single change (the keyword combinations of the conversions are enumerated in coords_multi).  "
        "Non-trivial: surfaces - oblique shift vectors or an array-valued query; PN - disregistry with non-zero edge and "
        "screw parts and at least one of tau/alpha/beta active; solve - the same with >= 7 points; halfwidth and arctan - "
        "every case (generic parameters)")
ASSUMPTIONS = ["numpy/scipy linear algebra and scipy.optimize are correct",
               "pn_total: the misfit reference evaluates gamma through GammaSurface.E_gsf(a1=, a2=), the entry point decided "
               "by clauses interp/periodic; only the disregistry -> (a1,a2) conversion and the sum are independent there",
               "pn_*: for real Volterra solutions the K_tensor/burgers/transform of the VolterraDislocation object are "
               "trusted (decided by C12); the [m,n,xi] re-expression done by SDVPN is recomputed independently",
               "stress_energy(fullstress=False): the + sign (the only one consistent with the documented 'constant offset "
               "from the full form') is taken, the docstring prints the formula with a - sign",
               "beta is symmetric (the documented formula sums beta_lj over j, the code over l)",
               "scaled units: a real Volterra solution is computed in the unscaled units (angstrom, eV/angstrom^3; the "
               "absolute tolerances of the Stroh / isotropic solvers are C12's business) and handed to SDVPN in the scaled "
               "units through a VolterraDislocation subclass with given m, n, K_tensor, burgers, transform",
               "the tolerances that atomman documents as arguments or defaults in working units are given scaled "
               "(cutofflongrange; its documented default is 1000 angstrom: 1000 working units in the default units, 1000 x "
               "numericalunits.angstrom under a unit plan)",
               "unit plans: numericalunits and the way unitconvert.reset_units drives it are trusted (C09's subject); the size of "
               "every unit is my own product of numericalunits attributes read after reset_units",
               "storage dtypes: the data columns a1, a2, E_gsf, delta are never big-endian (they go into the documented pandas "
               "DataFrame .data, and pandas documents that it needs native byte order); everything else is",
               "ledger clauses: a value counts as unchanged when its bits are (returned objects) resp. when it agrees to 1e-13 "
               "relative (answers read again); what the class hands out as its state (a1vect, a2vect, planenormal, box, data; x, "
               "disregistry, tau, beta, K_tensor, burgers, transform) is read again but not overwritten by the caller"]
LEVEL_TEXT = ("Generated-input exploration of GammaSurface (interpolation at samples, periodicity, coordinate conversions for "
              "one and many points under every combination of the a1vect/a2vect/xvect keywords, JSON/XML model round trip) and "
              "SDVPN (every energy term against independent formula evaluation, total = sum, quadratic/shift properties of the "
              "elastic term, solve monotone with fixed ends and storing the minimiser's result, classical half-width recovered "
              "for a sinusoidal misfit law), with object histories and the documented input forms (lists, tuples, integer-typed, "
              "read-only, non-contiguous arrays; caller's arrays unchanged), every clause also in other units: lengths scaled "
              "by 1e-12..1e4 and energies per area by 1e-8..1e8 independently, judged with relative tolerances; under other "
              "working-unit configurations (reset_units) within one process; with storage dtypes, near-threshold, exactly structured "
              "and many-decade inputs; with result ledgers under later calls and caller-side mutation; all flag combinations of SDVPN "
              "enumerated in every setter order.")
TECHNIQUE = ("input energies at samples, exact nearest-sample table, integer-period invariance, independent 2D basis "
             "solves, scalar-loop PN sums, summation-by-parts identity, analytic PN half-width; bit-for-bit result ledgers and "
             "re-read answers under histories of later calls and caller-side mutation; exhaustive flag-combination walks")
WALL = {'quick': 75, 'thorough': 600}

EPS = 2.3e-16
K_MULTI = 'C18:pos_to_a12:multipoint'
K_XML = 'C18:model:xml-npfloat-repr'
K_CDIFF = 'C18:stress_energy:fullstress-cdiffstress'
K_INT = 'C18:E_gsf:integer-typed-query'
K_POSLIST = 'C18:pos:list-input'
K_ALT = 'C18:E_gsf:pos-or-xy-with-alternative-vectors'
K_LISTARG = 'C18:SDVPN:list-arguments'
K_ASSERT = 'C18:pos_to_a12:in-plane-assert-absolute-tolerance:small-cell'
K_XVREF = 'C18:xvect:out-of-plane-accepted:small-cell'
K_ARCSTEP = 'C18:pn_arctan:incompatible-xstep-accepted:small-scale'
K_DTYPE = 'C18:SDVPN:x-disregistry:arithmetic-in-the-storage-dtype'
K_ARCX = 'C18:pn_arctan:x:list-or-narrow-dtype'
K_ALIASV = 'C18:GammaSurface:set:a1vect-a2vect-array-aliased'
K_ALIASBOX = 'C18:GammaSurface:set:box-kept-by-reference'
K_PNSHARE = 'C18:SDVPN:arrays-shared-with-the-caller'
K_F16 = 'C18:GammaSurface:float16-positions-and-xvect'

# ----------------------------------------------------------------------------- working units
# Under a unit plan (gens_c18.unit_plans) the case is the same PHYSICAL system expressed in other working units: every
# length carries the factor _U['L'] (= numericalunits.angstrom after reset_units), every energy per area _U['EA']
# (= eV / angstrom^2), my own products of numericalunits attributes; without a plan both are exactly 1.
_U = {'on': False, 'L': 1.0, 'EA': 1.0}


def _scales(lk, ej=None):
    """length scale and energy-per-area scale of a case: 10^lk, 10^ej (times the working-unit factors under a unit plan)"""
    l, e = G.pow10(lk), G.pow10(ej)
    if _U['on']:
        l, e = l * _U['L'], e * _U['EA']
    return l, e


def _default_cutoff():
    """the documented default of cutofflongrange: 1000 angstrom, in working units"""
    return 1000.0 * _U['L'] if _U['on'] else 1000.0


def _cfg_text(cfg):
    if cfg['kind'] == 'named':
        return 'reset_units(%s)' % ', '.join('%s=%r' % kv for kv in sorted(cfg['units'].items()))
    return 'reset_units(seed=%r)' % ('SI' if cfg['kind'] == 'SI' else cfg['seed'])


def with_units(fn):
    """oracle wrapper: runs the case under its unit plan - first (plan['pre']) under the default working units, judged all
    the same, then after reset_units(plan['W']) with every length and energy re-expressed; the default working units are
    ALWAYS restored (the cases of one shard share a process)"""
    def wrapped(case):
        plan = case.get('units')
        if not plan:
            return fn(case)
        import atomman.unitconvert as uc
        import numericalunits as nu
        try:
            if plan['pre']:
                try:
                    fn(case)
                except Violation as v:
                    raise Violation('%s [under the default working units, before %s]' % (v.detail, _cfg_text(plan['W'])), key=v.key) from None
            G.apply_units(uc, plan['W'])
            _U.update(on=True, L=float(nu.angstrom), EA=float(nu.eV / nu.angstrom ** 2))
            try:
                labels = set(fn(case))
            except Violation as v:
                raise Violation('%s [under %s (1 angstrom = %.6g, 1 eV/angstrom^2 = %.6g working units)%s]'
                                % (v.detail, _cfg_text(plan['W']), _U['L'], _U['EA'],
                                   ', after the same case was judged under the default units in the same process' if plan['pre'] else ''),
                                key=v.key) from None
            labels |= {'units', 'units_' + plan['W']['kind'],
                       'units_L_1' if _U['L'] == 1.0 else ('units_L_small' if _U['L'] < 1.0 else 'units_L_big')}
            if plan['pre']:
                labels.add('units_pre_default')
            return labels
        finally:
            _U.update(on=False, L=1.0, EA=1.0)
            G.restore_units(uc)
    wrapped.__name__ = fn.__name__
    return wrapped


def scale_labels(lk, ej=None):
    """labels of the length scale 10^lk and (when the clause has energies) the energy-per-area scale 10^ej"""
    lk, ej = int(lk or 0), (None if ej is None else int(ej or 0))
    labs = {'lscale_1' if lk == 0 else ('lscale_small' if lk < 0 else 'lscale_big')}
    if lk <= -5:
        labs.add('lscale<=1e-5')
    if ej is not None:
        labs.add('escale_1' if ej == 0 else ('escale_small' if ej < 0 else 'escale_big'))
    if lk or ej:
        labs.add('scaled')
    if lk and ej:
        labs.add('scaled_both')
    return labs


def _from_pos_to_a12(exc):
    """True when the exception was raised inside GammaSurface.pos_to_a12"""
    tb = exc.__traceback__
    while tb is not None:
        if tb.tb_frame.f_code.co_name == 'pos_to_a12':
            return True
        tb = tb.tb_next
    return False


def _case_min_lk(case):
    """smallest length-scale exponent of the surfaces / systems of a case"""
    ks = [0]
    for d in (case.get('surf'), case.get('sys'), case.get('into'), (case.get('hist') or {}).get('surf2') if isinstance(case.get('hist'), dict) else None):
        if isinstance(d, dict):
            ks.append(int(d.get('lk') or 0))
    return min(ks)


def keyed_inplane_assert(fn):
    """oracle wrapper for the open finding K_ASSERT: pos_to_a12 decides "position in the fault plane" with an absolute
    tolerance of 1e-6 on the coefficient of a1vect x a2vect, a quantity of dimension 1/length - in a cell of numerically
    small size (10^-10: metres) the rounding error of exactly in-plane positions exceeds it and the conversion raises
    AssertionError.  Only that assertion, only for cases that carry a length scale < 1, is keyed."""
    def wrapped(case):
        try:
            return fn(case)
        except AssertionError as e:
            lk = _case_min_lk(case)
            if case.get('units') and _from_pos_to_a12(e):
                lk = min(lk, -1)
            if lk < 0 and _from_pos_to_a12(e):
                raise Violation('GammaSurface.pos_to_a12 raised AssertionError(%s) for positions a1*a1vect + a2*a2vect in a cell scaled by '
                                '1e%d: the in-plane test is np.allclose(coefficient of a1vect x a2vect, 0, atol=1e-6), a quantity of '
                                'dimension 1/length' % (e, lk), key=K_ASSERT)
            raise
    wrapped.__name__ = fn.__name__
    return wrapped


# ----------------------------------------------------------------------------- surfaces

def surface_args(s):
    """keyword arguments of GammaSurface(...) / GammaSurface.set(...) for a surface case + my own description of it"""
    import atomman as am
    l, e = _scales(s.get('lk'), s.get('ej'))
    V = G.box_vects(s['box'], l)
    box = None if s['box'] is None else am.Box(vects=V)
    # without a box the shift vectors are Cartesian and carry the length scale themselves
    lv = l if s['box'] is None else 1.0
    a1vect, a2vect = [t * lv for t in s['a1vect']], [t * lv for t in s['a2vect']]
    a1v3, a2v3 = np.array(s['a1v3'], dtype=float) * lv, np.array(s['a2v3'], dtype=float) * lv
    n1, n2 = s['n1'], s['n2']
    ext = 1 if s['dup'] else 0
    rows = [(i, j) for i in range(n1 + ext) for j in range(n2 + ext)]
    if s['shuffle'] is not None:
        perm = np.random.default_rng(s['shuffle']).permutation(len(rows))
        rows = [rows[k] for k in perm]
    a1 = [i / n1 for i, j in rows]
    a2 = [j / n2 for i, j in rows]
    E = [s['E'][i % n1][j % n2] * e for i, j in rows]                 # energy per area
    D = None if s['D'] is None else [s['D'][i % n1][j % n2] * l for i, j in rows]     # plane separation: a length
    kw = dict(a1vect=a1vect, a2vect=a2vect, a1=a1, a2=a2, E_gsf=E, box=box, delta=D)
    A1 = a1v3 @ V
    A2 = a2v3 @ V
    Et = np.array(s['E'], dtype=float) * e
    info = dict(V=V, box=box, A1=A1, A2=A2, a1=np.array(a1), a2=np.array(a2), E=np.array(E),
                D=None if D is None else np.array(D), Et=Et, Dt=None if s['D'] is None else np.array(s['D'], dtype=float) * l,
                n1=n1, n2=n2, slackE=0.0, slackD=0.0, l=l, e=e, a1v3=a1v3, a2v3=a2v3, a1vect=a1vect, a2vect=a2vect,
                lk=int(s.get('lk') or 0), ej=int(s.get('ej') or 0))
    info['Erange'] = max(float(Et.max() - Et.min()), 1e-3 * float(np.abs(Et).max()), 1e-300)
    if D is not None:
        info['Drange'] = max(float(info['Dt'].max() - info['Dt'].min()), 1e-3 * float(np.abs(info['Dt']).max()), 1e-300)
    return kw, info


def build_surface(s):
    """GammaSurface from a surface case + my own description of it"""
    import atomman as am
    kw, info = surface_args(s)
    return am.defect.GammaSurface(**kw), info


def reload_surface(g, s, route):
    """load the data of surface case s into the EXISTING object g: set(...) or model(model=<JSON text | DataModelDict |
    file>) written by a separate fresh object; returns my description of what g now holds.  Through a model the values
    pass a unit conversion: slackE/slackD (1e-12 of the largest value, as in clause model) is added to the tolerances"""
    import atomman as am
    kw, info = surface_args(s)
    if route == 'set':
        g.set(kw['a1vect'], kw['a2vect'], kw['a1'], kw['a2'], kw['E_gsf'], box=kw['box'], delta=kw['delta'])
        return info
    m = am.defect.GammaSurface(**kw).model()
    if route == 'model_dm':
        g.model(model=m)
    elif route == 'model_str':
        g.model(model=m.json())
    else:
        fd, path = tempfile.mkstemp(suffix='.json')
        try:
            with os.fdopen(fd, 'w', encoding='utf-8') as fh:
                fh.write(m.json())
            g.model(model=path)
        finally:
            os.remove(path)
    info['slackE'] = 1e-12 * float(np.abs(info['E']).max())
    if info['D'] is not None:
        info['slackD'] = 1e-12 * float(np.abs(info['D']).max())
    info['via_model'] = True
    return info


def surface_labels(s, info):
    labs = {'kind_' + s['kind']} | scale_labels(s.get('lk'), s.get('ej'))
    c = abs(float(info['A1'] @ info['A2'])) / (np.linalg.norm(info['A1']) * np.linalg.norm(info['A2']))
    if c > 1e-6:
        labs.add('oblique')
    if s['box'] is not None:
        labs.add('boxed')
        labs.add('fam_' + s['box']['family'])
        if len(s['a1vect']) == 4:
            labs.add('miller_bravais')
    if s['dup']:
        labs.add('dup_edge')
    if s['D'] is not None:
        labs.add('delta')
    if s['n1'] != s['n2']:
        labs.add('n1_ne_n2')
    if s['shuffle'] is not None:
        labs.add('shuffled')
    if s.get('shape') in ('sym', 'near'):
        labs.add('shape_' + s['shape'])
    return labs


def check_setup(g, s, info):
    a1v = np.asarray(g.a1vect, dtype=float)
    a2v = np.asarray(g.a2vect, dtype=float)
    require(a1v.shape == (3,) and np.abs(a1v - info['a1v3']).max() <= 1e-12 * np.abs(info['a1v3']).max(),
            lambda: 'a1vect stored as %r for input %r (3-index %r)' % (a1v, info['a1vect'], info['a1v3']))
    require(a2v.shape == (3,) and np.abs(a2v - info['a2v3']).max() <= 1e-12 * np.abs(info['a2v3']).max(),
            lambda: 'a2vect stored as %r for input %r (3-index %r)' % (a2v, info['a2vect'], info['a2v3']))
    n = np.cross(info['A1'], info['A2'])
    n = n / np.linalg.norm(n)
    pn_ = np.asarray(g.planenormal, dtype=float)
    require(np.abs(pn_ - n).max() <= 1e-9, lambda: 'planenormal %r, (a1 x a2)/|a1 x a2| = %r' % (pn_, n))


def _multipoint_broken(g, info):
    """True when pos_to_a12 cannot take an (N,3) array of in-plane positions (N=2 probe; known finding K_MULTI)"""
    P = gsf_ref.frac_to_pos([0.25, 0.5], [0.5, 0.125], info['A1'], info['A2'])
    try:
        r = g.pos_to_a12(P)
    except (ValueError, np.linalg.LinAlgError):
        return True
    try:
        u, v = np.asarray(r[0], dtype=float), np.asarray(r[1], dtype=float)
        return not (u.shape == (2,) and v.shape == (2,) and np.allclose(u, [0.25, 0.5], atol=1e-6)
                    and np.allclose(v, [0.5, 0.125], atol=1e-6))
    except Exception:
        return True


def _tree_broken():
    """probe of the tree under test, used only to switch the non-vacuity guards of the clauses that the open
    finding K_MULTI blocks completely (every case of those clauses is then excluded and carries no labels)"""
    try:
        import atomman as am
        g = am.defect.GammaSurface(a1vect=[1, 0, 0], a2vect=[0, 1, 0], a1=[0.0, 0.0, 0.5, 0.5], a2=[0.0, 0.5, 0.0, 0.5],
                                   E_gsf=[0.0, 1.0, 1.0, 2.0])
        return _multipoint_broken(g, dict(A1=np.array([1.0, 0, 0]), A2=np.array([0, 1.0, 0])))
    except Exception:
        return True


_PROBE = {}


def _tree_alt_broken():
    """probe of the tree under test for the open finding K_ALT: E_gsf(pos=p, a1vect=, a2vect=) returns the value of
    another position (cached per process)"""
    if 'alt' not in _PROBE:
        try:
            import atomman as am
            a = [i / 4 for i in range(4) for j in range(4)]
            b = [j / 4 for i in range(4) for j in range(4)]
            e = [math.sin(1.0 + 5 * i + 3.1 * j * j) for i in range(4) for j in range(4)]
            g = am.defect.GammaSurface(a1vect=[1, 0, 0], a2vect=[0, 1, 0], a1=a, a2=b, E_gsf=e)
            right = float(g.E_gsf(a1=0.2913, a2=0.4377))
            got = np.asarray(g.E_gsf(pos=np.array([[0.2913, 0.4377, 0.0]]), a1vect=[1, 1, 0], a2vect=[0, 1, 0]), dtype=float)
            got2 = np.asarray(g.E_gsf(x=np.array([0.2913]), y=np.array([0.4377]), a2vect=[1, 1, 0]), dtype=float)
            _PROBE['alt'] = not (abs(float(got.reshape(-1)[0]) - right) < 1e-9 and abs(float(got2.reshape(-1)[0]) - right) < 1e-9)
        except Exception:
            _PROBE['alt'] = True
    return _PROBE['alt']


def _tree_listarg_broken():
    """probe of the tree under test for the open finding K_LISTARG: the SDVPN energy methods raise TypeError when x or
    the disregistry are given as lists (cached per process)"""
    if 'listarg' not in _PROBE:
        try:
            import atomman as am
            g = am.defect.GammaSurface(a1vect=[1, 0, 0], a2vect=[0, 0, 1], a1=[0.0, 0.0, 0.5, 0.5], a2=[0.0, 0.5, 0.0, 0.5],
                                       E_gsf=[0.0, 1.0, 1.0, 2.0])
            vol = _hand_volterra_class(am)(np.array([1.0, 0, 0]), np.array([0, 1.0, 0]), np.eye(3), np.array([1.0, 0, 0]), np.eye(3))
            pn = am.defect.SDVPN(volterra=vol, gamma=g)
            xs = [0.0, 0.5, 1.0, 1.5, 2.0]
            ds = [[0.0, 0.0, 0.0], [0.25, 0.0, 0.0], [0.5, 0.0, 0.0], [0.75, 0.0, 0.0], [1.0, 0.0, 0.0]]
            try:
                pn.disldensity(xs, ds)
                pn.disldensity(tuple(xs), tuple(tuple(t) for t in ds), cdiff=True)
                pn.total_energy(xs, ds)
                pn.total_energy(np.array(xs), ds)
                pn.total_energy(xs, np.array(ds))
                _PROBE['listarg'] = False
            except TypeError:
                _PROBE['listarg'] = True
        except Exception:
            _PROBE['listarg'] = True
    return _PROBE['listarg']


def _tree_dtype_broken():
    """probe of the tree under test for the open finding K_DTYPE: the SDVPN energy methods compute in the storage dtype of
    the x / disregistry they are handed (cached per process)"""
    if 'dtype' not in _PROBE:
        try:
            import atomman as am
            g = am.defect.GammaSurface(a1vect=[1, 0, 0], a2vect=[0, 0, 1], a1=[0.0, 0.0, 0.5, 0.5], a2=[0.0, 0.5, 0.0, 0.5],
                                       E_gsf=[0.0, 1.0, 1.0, 2.0])
            vol = _hand_volterra_class(am)(np.array([1.0, 0, 0]), np.array([0, 1.0, 0]), np.eye(3), np.array([1.0, 0, 0]), np.eye(3))
            pn = am.defect.SDVPN(volterra=vol, gamma=g, alpha=[0.5])
            xs = np.arange(6.0)
            ds = np.array([[0.0, 0, 1], [1.0, 0, 0], [1.0, 0, 2], [3.0, 0, 1], [2.0, 0, 1], [4.0, 0, 0]])
            ok = True
            for dt in ('u1', 'f2', 'f4'):
                for a, b in ((xs.astype(dt), ds.astype(dt)), (xs, ds.astype(dt))):
                    for f in (pn.elastic_energy, pn.nonlocal_energy):
                        ok = ok and abs(float(f(a, b)) - float(f(xs, ds))) <= 1e-12 * abs(float(f(xs, ds)))
            pn.x, pn.disregistry = xs, ds.astype('u1')
            ok = ok and abs(float(pn.elastic_energy()) - float(pn.elastic_energy(xs, ds))) <= 1e-12 * abs(float(pn.elastic_energy(xs, ds)))
            _PROBE['dtype'] = not ok
        except Exception:
            _PROBE['dtype'] = True
    return _PROBE['dtype']


def _tree_arcx_broken():
    """probe of the tree under test for the open finding K_ARCX: pn_arctan_disregistry / pn_arctan_disldensity cannot take x
    as a list and compute in the storage dtype of a float32 / float16 x (cached per process)"""
    if 'arcx' not in _PROBE:
        try:
            import atomman as am
            ref = np.asarray(am.defect.pn_arctan_disldensity(x=np.array([-1.5, 0.25, 2.0]), halfwidth=0.75)[1], dtype=float)
            ok = True
            for xx in ([-1.5, 0.25, 2.0], (-1.5, 0.25, 2.0), np.array([-1.5, 0.25, 2.0], dtype='f4'), np.array([-1.5, 0.25, 2.0], dtype='f2')):
                got = np.asarray(am.defect.pn_arctan_disldensity(x=xx, halfwidth=0.75)[1], dtype=float)
                ok = ok and got.shape == ref.shape and bool(np.abs(got - ref).max() <= 1e-13)
                am.defect.pn_arctan_disregistry(x=xx, halfwidth=0.75)
            _PROBE['arcx'] = not ok
        except Exception:
            _PROBE['arcx'] = True
    return _PROBE['arcx']


def _tree_f16_broken():
    """probe of the tree under test for the open finding K_F16: half-precision positions / plotting axes (cached per process)"""
    if 'f16' not in _PROBE:
        try:
            import atomman as am
            g = am.defect.GammaSurface(a1vect=[1.25, 0.5, -0.25], a2vect=[0.5, 1.5, 0.75], a1=[0.0, 0.0, 0.5, 0.5], a2=[0.0, 0.5, 0.0, 0.5],
                                       E_gsf=[0.0, 1.0, 1.0, 2.0])
            r = g.pos_to_a12(np.array([[1.75, 2.0, 0.5], [0.5, 1.5, 0.75]], dtype='f2'))
            ok = bool(np.allclose(r[0], [1.0, 0.0], atol=1e-9) and np.allclose(r[1], [1.0, 1.0], atol=1e-9))
            g.pos_to_xy(np.zeros((2, 3)), xvect=np.array([1.75, 2.0, 0.5], dtype='f2'))
            g.xy_to_pos([0.0], [1.0], xvect=np.array([1.75, 2.0, 0.5], dtype='f2'))
            _PROBE['f16'] = not ok
        except Exception:
            _PROBE['f16'] = True
    return _PROBE['f16']


def keyed_f16(fn):
    """oracle wrapper for the open finding K_F16: GammaSurface does its own arithmetic in the dtype of a half-precision
    array - pos_to_a12 hands float16 positions to numpy.linalg.solve (TypeError: array type float16 is unsupported in
    linalg), pos_to_xy / xy_to_pos evaluate the in-plane tolerance 1e-8 * |xvect| in float16, where it underflows to 0, and
    refuse an in-plane xvect.  Only cases that hand over float16 arrays are keyed, only while the tree under test does that"""
    def wrapped(case):
        try:
            return fn(case)
        except (TypeError, ValueError, Violation) as e:
            if case.get('form') == 'nd:f2' and getattr(e, 'key', None) is None and _tree_f16_broken():
                if isinstance(e, Violation) or 'float16 is unsupported in linalg' in str(e) or 'xvect must be in plane' in str(e):
                    raise Violation('positions / plotting axis handed over as float16 arrays (exactly representable values): %s%s'
                                    % ('' if isinstance(e, Violation) else type(e).__name__ + ': ', getattr(e, 'detail', e)), key=K_F16) from None
            raise
    wrapped.__name__ = fn.__name__
    return wrapped


def _profiles_of(case):
    h = case.get('hist')
    steps = h if isinstance(h, list) else ([h] if h else [])
    return [case['prof']] + [t['prof'] for t in steps if isinstance(t, dict) and 'prof' in t]


def keyed_dtype(fn):
    """oracle wrapper for the open finding K_DTYPE: SDVPN.disldensity and the energy methods slice, subtract and square
    x / the disregistry in the dtype they arrive in (np.asarray without dtype; the disregistry setter keeps the dtype too):
    wrapped differences for unsigned dtypes, overflowing squares for int8 / float16, single-precision sums for float32.
    While the finding is open on the tree under test, a failure of a case that hands over x or the disregistry in a storage
    dtype is keyed (the other cases are judged as before)"""
    def wrapped(case):
        try:
            return fn(case)
        except Violation as v:
            if v.key is None and any(G.is_narrow(p.get('fx')) or G.is_narrow(p.get('fd')) for p in _profiles_of(case)) and _tree_dtype_broken():
                raise Violation('x / disregistry handed over in a storage dtype (float32, float16, int8, uint8 ...; values exactly '
                                'representable): ' + v.detail, key=K_DTYPE) from None
            raise
    wrapped.__name__ = fn.__name__
    return wrapped


class _BlockedGuard(dict):
    """min_share of a clause that is blocked completely while K_MULTI is open: empty on such a tree.  drop: labels
    carried only by cases that an open finding (K_ALT / K_LISTARG) excludes - not guarded while that finding is open"""
    def __init__(self, d, drop_alt=(), drop_listarg=()):
        dict.__init__(self, d)
        self.drop_alt, self.drop_listarg = tuple(drop_alt), tuple(drop_listarg)

    def items(self):
        if _tree_broken():
            return {}.items()
        d = dict(self)
        if self.drop_alt and _tree_alt_broken():
            for k in self.drop_alt:
                d.pop(k, None)
        if self.drop_listarg and _tree_listarg_broken():
            for k in self.drop_listarg:
                d.pop(k, None)
        return d.items()


def _arg(a, aslist):
    a = np.asarray(a, dtype=float)
    return a.tolist() if aslist else a


def _totuple(a):
    return tuple(_totuple(t) for t in a) if isinstance(a, list) else a


def _strided(a):
    """non-contiguous view holding the values of a (1-D: every second element; 2-D: every second column of a wider
    array, so that neither the rows nor the columns are contiguous)"""
    if a.ndim == 1:
        b = np.full(2 * len(a), 7.25)
        b[::2] = a
        return b[::2]
    b = np.full((a.shape[0], 2 * a.shape[1]), 7.25)
    b[:, ::2] = a
    return b[:, ::2]


_CHAIN = {'f2': ('f2', 'f4'), 'f4': ('f4',), 'i1': ('i1', 'i2', 'i4', 'i8'), 'i2': ('i2', 'i4', 'i8'), 'u1': ('u1', 'u2', 'u4', 'i8'),
          'u2': ('u2', 'u4', 'i8'), '>f8': ('>f8',), '>i4': ('>i4', '>f8')}


def _as_dtype(a, dt, what=''):
    """the float values a as an ndarray of storage dtype dt when every value is exactly representable in it, otherwise in the
    next wider dtype of its chain, otherwise None.  Integer dtypes need whole numbers (otherwise float32 is tried)"""
    chain = _CHAIN[dt]
    if chain[0][-2] in 'iu' and not bool(np.all(a == np.rint(a))):
        chain = ('f4',)
    for d in chain:
        with np.errstate(all='ignore'):
            b = a.astype(d)
            back = b.astype(float)
        if back.shape == a.shape and np.array_equal(back, a):
            return b
    return None


class _Hand:
    """hands values to atomman in the drawn input form and keeps every object handed over: the caller's objects must be
    unchanged after the calls (verify).  Forms: 'arr' float C-contiguous ndarray, 'list', 'tuple' (nested), 'ro' read-only
    ndarray, 'strided' non-contiguous view, 'int' integer-typed ndarray (whole-number values only, otherwise 'arr'),
    'intlist' list of Python ints (same), 'npscalar' numpy scalars for single values (arrays as 'arr'), 'nd:<dtype>' ndarray /
    numpy scalar of a storage dtype (float32, float16, int8, int16, uint8, uint16, big-endian float64 / int32) when the values
    are exactly representable in it (see _as_dtype; otherwise 'arr'), 'fortran' Fortran-ordered 2-D array / reversed-stride
    1-D view."""

    def __init__(self, form):
        self.form = form
        self.kept = []
        self.used = set()

    def __call__(self, a, what='', form=None):
        f = form or self.form
        a = np.asarray(a, dtype=float)
        if a.ndim == 0:
            if f.startswith('nd:'):
                b = _as_dtype(a.reshape(1), f[3:], what)
                if b is not None:
                    self.used.add('narrow')
                    return b[0]
                return float(a)
            if f == 'npscalar':
                return np.float64(a)
            if f in ('int', 'intlist') and float(a).is_integer():
                self.used.add('int')
                return int(a)
            return float(a)
        whole = bool(np.all(a == np.rint(a)))
        if f == 'list':
            obj = a.tolist()
        elif f == 'tuple':
            obj = _totuple(a.tolist())
        elif f == 'ro':
            obj = a.copy()
            obj.setflags(write=False)
        elif f == 'strided':
            obj = _strided(a)
        elif f == 'int' and whole:
            obj = a.astype(int)
            self.used.add('int')
        elif f == 'intlist' and whole:
            obj = a.astype(int).tolist()
            self.used.add('int')
        elif f == 'fortran':
            if a.ndim == 2:
                obj = np.asfortranarray(a)
            else:
                obj = np.zeros(len(a))[::-1]
                obj[...] = a
            self.used.add('narrow')
        elif f.startswith('nd:') and _as_dtype(a, f[3:], what) is not None:
            obj = _as_dtype(a, f[3:], what)
            self.used.add('narrow')
            self.used.add('narrow_' + obj.dtype.str.lstrip('<|='))
        else:
            obj = a.copy()
        snap = obj.copy() if isinstance(obj, np.ndarray) else obj      # lists: tolist() of the float original below
        self.kept.append((what, obj, snap, a))
        return obj

    def verify(self, tag=''):
        for what, obj, snap, a in self.kept:
            if isinstance(obj, np.ndarray):
                same = obj.dtype == snap.dtype and np.array_equal(obj, snap)
            else:
                same = np.array_equal(np.asarray(obj, dtype=float), a)
            require(same, lambda: 'the caller\'s %s %s handed to atomman was changed by the call(s): %r, was %r%s'
                    % (type(obj).__name__, what, np.asarray(obj).tolist(), a.tolist(), tag))


def _cmp(got, exp, tol, what):
    got = np.asarray(got, dtype=float)
    exp = np.asarray(exp, dtype=float)
    require(got.shape == exp.shape, lambda: '%s: shape %r, expected %r' % (what, got.shape, exp.shape))
    require(bool(np.all(np.isfinite(got))), lambda: '%s: not finite: %r' % (what, got))
    err = float(np.abs(got - exp).max()) if got.size else 0.0
    require(err <= tol, lambda: '%s: differs by %.3g (tol %.3g): got %r expected %r' % (what, err, tol, got.tolist(), exp.tolist()))



def _near_int(t, band=1e-9):
    return abs(t - round(t)) < band


def eval_band(fn, u, v, sm, seam, **kw):
    """reference values fn(a1=u, a2=v) with the band [lo, hi] they may take when a coordinate sits on a seam.

    The smooth interpolant is wrapped into one cell and is not continuous across the integer lines a1 = k or a2 = k
    when no blending applies (delta always; E_gsf when the data carries the duplicated a=1 edge, cushion = 0): the
    two sides are two RBF evaluations (a = 0 and a = 1) that agree at the samples only.  A conversion that moves a
    coordinate by 1e-18 across the line legitimately lands on the other side, so both sides are accepted there."""
    u = np.atleast_1d(np.asarray(u, dtype=float))
    v = np.atleast_1d(np.asarray(v, dtype=float))
    base = np.atleast_1d(np.asarray(fn(a1=u.copy(), a2=v.copy(), smooth=sm, **kw), dtype=float))
    lo, hi = base.copy(), base.copy()
    hit = False
    if sm and seam:
        for i in range(len(u)):
            ru, rv = _near_int(u[i]), _near_int(v[i])
            if not (ru or rv):
                continue
            hit = True
            for du in ((-1e-11, 1e-11) if ru else (0.0,)):
                for dv in ((-1e-11, 1e-11) if rv else (0.0,)):
                    val = float(fn(a1=float(round(u[i]) + du if ru else u[i]), a2=float(round(v[i]) + dv if rv else v[i]), smooth=sm, **kw))
                    lo[i] = min(lo[i], val)
                    hi[i] = max(hi[i], val)
    return base, lo, hi, hit


def _in_band(got, lo, hi, tol, what):
    got = np.atleast_1d(np.asarray(got, dtype=float))
    require(got.shape == lo.shape, lambda: '%s: shape %r, expected %r' % (what, got.shape, lo.shape))
    require(bool(np.all(np.isfinite(got))), lambda: '%s: not finite: %r' % (what, got))
    bad = (got < lo - tol) | (got > hi + tol)
    require(not bad.any(), lambda: '%s: got %r, expected within [%r, %r] (tol %.3g)' % (what, got[bad].tolist(), lo[bad].tolist(), hi[bad].tolist(), tol))


# ----------------------------------------------------------------------------- interp

def _interp_checks(g, s, info, case, labels, tag=''):
    """everything clause interp demands of an object g that holds surface s"""
    check_setup(g, s, info)
    al = case['aslist']
    for smooth in (True, False):
        tolE = (1e-8 if smooth else 1e-12) * info['Erange'] + info['slackE']
        got = g.E_gsf(a1=_arg(info['a1'], al), a2=_arg(info['a2'], al), smooth=smooth)
        _cmp(got, info['E'], tolE, 'E_gsf(smooth=%r) at the sampled (a1,a2)%s' % (smooth, tag))
        k = case['probe'] % len(info['a1'])
        got1 = g.E_gsf(a1=float(info['a1'][k]), a2=float(info['a2'][k]), smooth=smooth)
        require(np.ndim(got1) == 0, lambda: 'E_gsf(scalar a1, a2) returned shape %r%s' % (np.shape(got1), tag))
        _cmp(float(got1), info['E'][k], tolE, 'E_gsf(smooth=%r) at the sampled point (%r,%r) given as floats%s'
             % (smooth, info['a1'][k], info['a2'][k], tag))
        if info['D'] is not None:
            tolD = (1e-8 if smooth else 1e-12) * info['Drange'] + info['slackD']
            got = g.delta(a1=_arg(info['a1'], al), a2=_arg(info['a2'], al), smooth=smooth)
            _cmp(got, info['D'], tolD, 'delta(smooth=%r) at the sampled (a1,a2)%s' % (smooth, tag))
            got1 = g.delta(a1=float(info['a1'][k]), a2=float(info['a2'][k]), smooth=smooth)
            _cmp(float(got1), info['D'][k], tolD, 'delta(smooth=%r) at one sampled point given as floats%s' % (smooth, tag))
    if s['D'] is None:
        try:
            g.delta(a1=0.0, a2=0.0)
        except AttributeError as e:
            require('delta data not set' in str(e), lambda: 'delta() without data raised AttributeError(%s)%s' % (e, tag))
            labels.add('delta_refused')
        else:
            raise Violation('delta() on a surface without plane-separation data did not raise AttributeError%s' % tag)
    # raw data kept as given
    d = g.data
    require(list(d.columns) == ['a1', 'a2', 'E_gsf'] + ([] if s['D'] is None else ['delta']),
            lambda: 'data columns %r%s' % (list(d.columns), tag))
    _cmp(d['a1'].to_numpy(), info['a1'], 0.0, 'data.a1' + tag)
    _cmp(d['a2'].to_numpy(), info['a2'], 0.0, 'data.a2' + tag)
    _cmp(d['E_gsf'].to_numpy(), info['E'], info['slackE'], 'data.E_gsf' + tag)
    if info['D'] is not None:
        _cmp(d['delta'].to_numpy(), info['D'], info['slackD'], 'data.delta' + tag)


def oracle_interp(case):
    s = case['surf']
    g, info = build_surface(s)
    labels = surface_labels(s, info)
    labels.add('list' if case['aslist'] else 'array')
    _interp_checks(g, s, info, case, labels)
    h = case.get('hist')
    if h:
        # object history: other data loaded into the SAME object, judged as a fresh object would be; then the first back
        s2 = h['surf2']
        info2 = reload_surface(g, s2, h['route'])
        _interp_checks(g, s2, info2, case, labels, ' [after loading a second surface into the same object by %s]' % h['route'])
        labels.update({'history', 'history_reload_' + ('set' if h['route'] == 'set' else 'model')})
        if (s['D'] is None) != (s2['D'] is None):
            labels.add('history_delta_toggled')
        if (s['n1'], s['n2']) != (s2['n1'], s2['n2']):
            labels.add('history_grid_changed')
        if h['back']:
            info1 = reload_surface(g, s, h['back_route'])
            _interp_checks(g, s, info1, case, labels, ' [first surface loaded back into the same object by %s]' % h['back_route'])
            labels.add('history_back')
    if labels & {'oblique', 'dup_edge', 'delta', 'shuffled'}:
        labels.add('nt')
    return labels


# ----------------------------------------------------------------------------- periodic

def _table_lookup(T, u, v, n1, n2):
    i, t1 = gsf_ref.nearest_index(u, n1)
    j, t2 = gsf_ref.nearest_index(v, n2)
    return float(T[i][j]), (t1 or t2)


def oracle_periodic(case):
    s = case['surf']
    g, info = build_surface(s)
    labels = surface_labels(s, info)
    q = np.array(case['q'], dtype=float)
    k = np.array(case['k'], dtype=float)
    n1, n2 = info['n1'], info['n2']
    al = case['aslist']
    scalar = bool(case['scalar'])
    ints = bool(case.get('ints'))
    if ints:
        # lattice points given as Python ints: full periods of the origin sample
        labels.add('int_typed')
        qi = [[int(a), int(b)] for a, b in case['k']]
        try:
            for smooth in (True, False):
                got = g.E_gsf(a1=[a for a, b in qi], a2=[b for a, b in qi], smooth=smooth)
                _cmp(got, np.full(len(qi), info['Et'][0][0]), 1e-8 * info['Erange'],
                     'E_gsf(smooth=%r) at integer lattice points %r (ints)' % (smooth, qi))
                for a, b in qi:
                    got1 = g.E_gsf(a1=a, a2=b, smooth=smooth)
                    _cmp(float(got1), info['Et'][0][0], 1e-8 * info['Erange'], 'E_gsf(a1=%d, a2=%d, smooth=%r)' % (a, b, smooth))
        except TypeError as e:
            if 'Cannot cast ufunc' in str(e):
                raise Violation('E_gsf with int-typed a1/a2 %r raised %s: %s' % (qi, type(e).__name__, e), key=K_INT)
            raise
        labels.add('nt')
        return labels

    def ev(fn, pts, smooth):
        if scalar:
            return np.array([float(fn(a1=float(a), a2=float(b), smooth=smooth)) for a, b in pts])
        return np.asarray(fn(a1=_arg(pts[:, 0], al), a2=_arg(pts[:, 1], al), smooth=smooth), dtype=float)

    labels.add('scalar' if scalar else ('list' if al else 'array'))
    labels.add('npts%d' % len(q))
    if case.get('qkind') == 'special':
        labels.add('special_q')
    fns = [('E_gsf', g.E_gsf, info['Et'], info['Erange'])]
    if info['D'] is not None:
        fns.append(('delta', g.delta, info['Dt'], info['Drange']))
    ties = 0
    # object history: the interpolation modes are queried on the one object in the drawn order (E_gsf and delta
    # interleaved when the order is not the default one), every answer judged alike
    modes = [bool(t) for t in (case.get('modes') or [True, False])]
    if modes == [True, False]:
        plan = [(f, sm_) for f in fns for sm_ in modes]
    else:
        plan = [(f, sm_) for sm_ in modes for f in fns]
        labels.add('history_mode_order')
        if len(modes) > 2:
            labels.add('history_mode_back')
    for (name, fn, T, rng), smooth in plan:
        if True:        # (indentation kept)
            e0 = ev(fn, q, smooth)
            e1 = ev(fn, q + k, smooth)
            require(e0.shape == (len(q),) and e1.shape == (len(q),), lambda: '%s returned shape %r for %d points' % (name, e0.shape, len(q)))
            require(bool(np.all(np.isfinite(e0)) and np.all(np.isfinite(e1))), lambda: '%s not finite: %r %r' % (name, e0, e1))
            if smooth:
                err = np.abs(e0 - e1)
                bad = err > 1e-9 * rng
                if name == 'delta':
                    # smooth delta is wrapped into the closed cell [0,1] without blending: exactly on an integer line the
                    # two ends a=0 and a=1 are different RBF evaluations (equal at the samples only)
                    onseam = np.array([_near_int(a) or _near_int(b) for a, b in q])
                    if (bad & onseam).any():
                        labels.add('seam_exempt')
                    bad = bad & ~onseam
                require(not bad.any(), lambda: '%s(smooth) not periodic: at %r value %r, shifted by %r value %r (diff %.3g, tol %.3g)'
                        % (name, q[bad][0].tolist(), e0[bad][0], k[bad][0].tolist(), e1[bad][0], err.max(), 1e-9 * rng))
            else:
                for idx in range(len(q)):
                    exp, tie = _table_lookup(T, q[idx, 0], q[idx, 1], n1, n2)
                    # the shifted point is rounded differently: exempt a band around cell mid-lines for both
                    exp2, tie2 = _table_lookup(T, (q[idx, 0] + k[idx, 0]) - k[idx, 0], (q[idx, 1] + k[idx, 1]) - k[idx, 1], n1, n2)
                    if tie or tie2:
                        ties += 1
                        continue
                    require(abs(e0[idx] - exp) <= 1e-12 * rng, lambda: '%s(smooth=False) at %r returned %r, nearest sample is %r'
                            % (name, q[idx].tolist(), e0[idx], exp))
                    require(abs(e1[idx] - exp) <= 1e-12 * rng, lambda: '%s(smooth=False) at %r + period %r returned %r, nearest sample is %r'
                            % (name, q[idx].tolist(), k[idx].tolist(), e1[idx], exp))
    if ties:
        labels.add('tie_exempt')
    if np.any(k != 0):
        labels.add('shifted')
        if 'oblique' in labels or not scalar:
            labels.add('nt')
    return labels


# ----------------------------------------------------------------------------- coords

def _shape_pair(r, n, what):
    require(isinstance(r, tuple) and len(r) == 2, lambda: '%s did not return a pair' % what)
    a, b = np.asarray(r[0], dtype=float), np.asarray(r[1], dtype=float)
    require(a.shape == (n,) and b.shape == (n,), lambda: '%s returned shapes %r, %r for %d points' % (what, a.shape, b.shape, n))
    return a, b


def _with_history(case, checks):
    """run checks(g, s, info, case, smooth, labels) on a fresh object, then - object history - again on the SAME object
    for every drawn step: other interpolation mode, the held data loaded again or the other surface loaded into the
    object (set / model); every round is judged exactly like the first"""
    s = case['surf']
    g, info = build_surface(s)
    labels = surface_labels(s, info)
    sm = bool(case['smooth'])
    checks(g, s, info, case, sm, labels, 0)
    h = case.get('hist')
    if h:
        labels.add('history')
        held, other = s, h['surf2']
        swaps = 0
        for num, step in enumerate(h['seq']):
            r = step['reload']
            what = 'same data'
            if r is not None:
                if r.startswith('swap'):
                    held, other = other, held
                    swaps += 1
                    what = 'the other surface loaded into the object'
                    labels.add('history_back' if swaps % 2 == 0 else 'history_swap')
                else:
                    what = 'the held data loaded again'
                route = 'set' if r.endswith('set') else ('model_dm', 'model_str')[num % 2]
                info = reload_surface(g, held, route)
                labels.add('history_reload_' + ('set' if route == 'set' else 'model'))
            elif bool(step['smooth']) != sm:
                labels.add('history_other_mode')
            else:
                labels.add('history_requery')
            sm = bool(step['smooth'])
            tag = ' [history round %d on the same object: %s, smooth=%r]' % (num + 2, what, sm)
            try:
                check_setup(g, held, info)
                checks(g, held, info, case, sm, set(), num + 1)
            except Violation as e:
                raise Violation(e.detail + tag, key=e.key)
    return labels


def oracle_coords(case):
    """conversions that do not need pos_to_a12 on an (N,3) array"""
    del _DEFER[:]
    labels = _with_history(case, _coords_checks)
    if 'oblique' in labels or (not case['scalar']):
        labels.add('nt')
    if _DEFER:
        raise _DEFER[0]
    return labels


def _case_form(case):
    f = case.get('form') or 'plain'
    return ('list' if case['aslist'] else 'arr') if f == 'plain' else f


def _form_label(case):
    f = case.get('form') or 'plain'
    return 'form_narrow' if G.is_narrow(f) else 'form_' + f


def _offplane(case, info, P, xv):
    """near-threshold inputs: the positions / the plotting axis handed to atomman a relative 10^-k OUT of the fault plane
    (k >= 9: the in-plane tests have tolerances of 1e-6 and 1e-8); the references stay the in-plane ones"""
    off = case.get('off') or {}
    nrm = np.cross(info['A1'], info['A2'])
    nrm = nrm / np.linalg.norm(nrm)
    L = max(np.linalg.norm(info['A1']), np.linalg.norm(info['A2']))
    sg = float(off.get('sign') or 1.0)
    Pin, xin, labs = P, xv, set()
    if off.get('pos') is not None:
        Pin = P + sg * 10.0 ** (-off['pos']) * L * nrm
        labs.add('near_plane_pos')
    if off.get('xvect') is not None and xv is not None:
        xin = xv + sg * 10.0 ** (-off['xvect']) * float(np.linalg.norm(xv)) * nrm
        labs.add('near_plane_xvect')
    return Pin, xin, labs


def _coords_checks(g, s, info, case, sm, labels, rnd=0):
    A1, A2 = info['A1'], info['A2']
    cond = gsf_ref.basis_cond(A1, A2)
    q = np.array(case['q'], dtype=float)
    u, v = q[:, 0], q[:, 1]
    n = len(q)
    scalar = bool(case['scalar'])
    form = _case_form(case)
    H = _Hand(form)
    L = max(np.linalg.norm(A1), np.linalg.norm(A2))
    qmax = max(1.0, float(np.abs(q).max()))
    tol_pos = 1e-12 * L * qmax
    tol_uv = 1e-11 * cond * qmax
    xv = None
    if case['xv'] is not None:
        xv = case['xv'][0] * A1 + case['xv'][1] * A2
        labels.add('xvect')
    P = gsf_ref.frac_to_pos(u, v, A1, A2)
    Pin, xin, offlabs = _offplane(case, info, P, xv)
    labels.update(offlabs)
    kw_x = {} if xv is None else {'xvect': H(xin, 'xvect')}
    X, Y = gsf_ref.pos_to_xy(P, A1, A2, xv)
    labels.add('npts%d' % n)
    labels.add('scalar' if scalar else ('list' if form == 'list' else 'array'))
    labels.add(_form_label(case))
    if case.get('qkind') == 'special':
        labels.add('special_q')
    if scalar:
        for i in range(n):
            p = np.asarray(g.a12_to_pos(H(u[i]), H(v[i])), dtype=float)
            require(p.shape in ((3,), (1, 3)), lambda: 'a12_to_pos(float, float) returned shape %r' % (p.shape,))
            _cmp(p.reshape(3), P[i], tol_pos, 'a12_to_pos(%r, %r)' % (u[i], v[i]))
            x1, y1 = g.pos_to_xy(H(Pin[i], 'pos'), **kw_x)
            require(np.ndim(x1) == 0 and np.ndim(y1) == 0, lambda: 'pos_to_xy(single position) returned shapes %r %r' % (np.shape(x1), np.shape(y1)))
            _cmp([float(x1), float(y1)], [X[i], Y[i]], tol_pos, 'pos_to_xy(single position)')
            p2 = np.asarray(g.xy_to_pos(H(X[i]), H(Y[i]), **kw_x), dtype=float)
            require(p2.shape in ((3,), (1, 3)), lambda: 'xy_to_pos(float, float) returned shape %r' % (p2.shape,))
            _cmp(p2.reshape(3), P[i], 4 * tol_pos, 'xy_to_pos(pos_to_xy(p))')
            xy = g.a12_to_xy(H(u[i]), H(v[i]), **kw_x)
            _cmp([float(np.asarray(xy[0]).reshape(())), float(np.asarray(xy[1]).reshape(()))], [X[i], Y[i]], 2 * tol_pos, 'a12_to_xy(float, float)')
            r = g.pos_to_a12(H(Pin[i], 'pos'))
            require(np.ndim(r[0]) == 0 and np.ndim(r[1]) == 0, lambda: 'pos_to_a12(single position) returned shapes %r %r' % (np.shape(r[0]), np.shape(r[1])))
            _cmp([float(r[0]), float(r[1])], [u[i], v[i]], tol_uv, 'pos_to_a12(a12_to_pos(a1,a2)) single position')
    else:
        p = g.a12_to_pos(H(u, 'a1'), H(v, 'a2'))
        _cmp(p, P, tol_pos, 'a12_to_pos(%d points)' % n)
        x1, y1 = _shape_pair(g.pos_to_xy(H(Pin, 'pos'), **kw_x), n, 'pos_to_xy')
        _cmp(x1, X, tol_pos, 'pos_to_xy x'); _cmp(y1, Y, tol_pos, 'pos_to_xy y')
        p2 = g.xy_to_pos(H(X, 'x'), H(Y, 'y'), **kw_x)
        _cmp(p2, P, 4 * tol_pos, 'xy_to_pos(pos_to_xy(p)) for %d points' % n)
        x2, y2 = _shape_pair(g.a12_to_xy(H(u, 'a1'), H(v, 'a2'), **kw_x), n, 'a12_to_xy')
        _cmp(x2, X, 2 * tol_pos, 'a12_to_xy x'); _cmp(y2, Y, 2 * tol_pos, 'a12_to_xy y')
        # mutual inverses through atomman only
        x3, y3 = g.pos_to_xy(np.asarray(p2), **kw_x)
        _cmp(x3, X, 8 * tol_pos, 'pos_to_xy(xy_to_pos(x,y)) x'); _cmp(y3, Y, 8 * tol_pos, 'pos_to_xy(xy_to_pos(x,y)) y')
    H.verify(' [conversion methods]')
    # energy at a single Cartesian position = energy at its fractional coordinates (1-D pos is not blocked)
    rng = info['Erange']
    for i in range(min(n, 2)):
        if not sm and (gsf_ref.nearest_index(u[i], info['n1'], 1e-7)[1] or gsf_ref.nearest_index(v[i], info['n2'], 1e-7)[1]):
            labels.add('tie_exempt')
            continue
        base, lo, hi, hit = eval_band(g.E_gsf, u[i], v[i], sm, bool(s['dup']))
        if hit:
            labels.add('seam_band')
        e_p = g.E_gsf(pos=H(Pin[i], 'pos'), smooth=sm)
        require(np.ndim(e_p) == 0, lambda: 'E_gsf(pos=single position) returned shape %r' % (np.shape(e_p),))
        _in_band(float(e_p), lo, hi, 1e-8 * rng * cond, 'E_gsf(pos=p, smooth=%r) vs E_gsf(a1=%r, a2=%r)' % (sm, u[i], v[i]))
        # the same query given in the drawn input form (single values: Python / numpy scalars, ints for whole numbers)
        e_a = g.E_gsf(a1=H(u[i]), a2=H(v[i]), smooth=sm)
        _in_band(float(e_a), lo, hi, 1e-9 * rng, 'E_gsf(a1=%r, a2=%r, smooth=%r) given as %s' % (u[i], v[i], sm, form))
    H.verify(' [E_gsf]')
    if 'int' in H.used:
        labels.add('int_typed')
    labels.update(t for t in H.used if t.startswith('narrow'))
    # documented refusal: xvect out of the fault plane
    if xv is not None and n == 1:
        bad = xv + 0.3 * np.linalg.norm(xv) * np.cross(A1, A2) / np.linalg.norm(np.cross(A1, A2))
        try:
            g.pos_to_xy(P, xvect=bad)
        except ValueError as e:
            require('xvect must be in plane' in str(e), lambda: 'out-of-plane xvect raised ValueError(%s)' % e)
            labels.add('xvect_refused')
        else:
            # the test is np.isclose(xvect . planenormal, 0) with numpy's absolute 1e-8 on a length: open finding for
            # cells of numerically small size (keyed only there; deferred: everything else of the case has been judged)
            v = Violation('pos_to_xy with an xvect out of the fault plane (by 17 degrees, |xvect| = %.3g) did not raise ValueError'
                          % np.linalg.norm(bad), key=K_XVREF if np.linalg.norm(bad) <= 2e-6 else None)
            if v.key is None:
                raise v
            if not _DEFER:
                _DEFER.append(v)


_DEFER = []          # keyed Violations of an open finding met in a case: raised after everything else has been judged


def oracle_coords_multi(case):
    """everything that sends an (N,3) array through pos_to_a12: pos_to_a12 itself, xy_to_a12, E_gsf/delta(pos= | x=,y= |
    alternative a1vect/a2vect), with every legal combination of the optional keywords a1vect, a2vect, xvect"""
    del _DEFER[:]
    labels = _with_history(case, _multi_checks)
    if 'oblique' in labels or len(case['q']) > 1 or not case['scalar']:
        labels.add('nt')
    if _DEFER:
        raise _DEFER[0]
    return labels


def _alt_vector_sets(case, info):
    """the legal ways of giving alternative shift vectors: both, a1vect only (a2vect stays the stored one), a2vect only.
    Yields (name, Meff, kwargs as crystal vectors); row k of Meff holds the coefficients of alternative vector k in the
    stored (a1vect, a2vect).  A single alternative vector has to form a basis with the other stored one: a zero
    coefficient on the diagonal of the drawn matrix is replaced by 1."""
    M = np.array(case['alt'], dtype=float)
    a1c, a2c = info['a1v3'], info['a2v3']
    r0 = M[0] if M[0, 0] != 0 else np.array([1.0, M[0, 1]])
    r1 = M[1] if M[1, 1] != 0 else np.array([M[1, 0], 1.0])
    for name, Me in (('both', M), ('a1only', np.array([r0, [0.0, 1.0]])), ('a2only', np.array([[1.0, 0.0], r1]))):
        B1 = Me[0, 0] * a1c + Me[0, 1] * a2c
        B2 = Me[1, 0] * a1c + Me[1, 1] * a2c
        yield name, Me, B1, B2


def _multi_checks(g, s, info, case, sm, labels, rnd=0):
    if _multipoint_broken(g, info):
        raise Violation('pos_to_a12 on an (N,3) array of in-plane positions raises / returns wrong values '
                        '(np.linalg.solve takes the (N,3) right-hand side for a matrix)', key=K_MULTI)
    A1, A2 = info['A1'], info['A2']
    V = info['V']
    cond = gsf_ref.basis_cond(A1, A2)
    q = np.array(case['q'], dtype=float)
    u, v = q[:, 0], q[:, 1]
    n = len(q)
    scalar = bool(case['scalar'])
    form = _case_form(case)
    H = _Hand(form)
    qmax = max(1.0, float(np.abs(q).max()))
    tol_uv = 1e-11 * cond * qmax
    Lmax = max(np.linalg.norm(A1), np.linalg.norm(A2))
    xv = None
    if case['xv'] is not None:
        xv = case['xv'][0] * A1 + case['xv'][1] * A2
        labels.add('xvect')
    P = gsf_ref.frac_to_pos(u, v, A1, A2)
    Pin, xin, offlabs = _offplane(case, info, P, xv)
    labels.update(offlabs)
    kw_x = {} if xv is None else {'xvect': H(xin, 'xvect')}
    X, Y = gsf_ref.pos_to_xy(P, A1, A2, xv)
    labels.add('npts%d' % n)
    labels.add('scalar' if scalar else ('list' if form == 'list' else 'array'))
    labels.add(_form_label(case))
    if case.get('qkind') == 'special':
        labels.add('special_q')
    labels.add('smooth' if sm else 'nearest')
    # --- conversions back to fractional coordinates
    gu, gv = _shape_pair(g.pos_to_a12(H(Pin, 'pos')), n, 'pos_to_a12((%d,3) array)' % n)
    _cmp(gu, u, tol_uv, 'pos_to_a12(a12_to_pos(a1,a2)) a1, %d points' % n)
    _cmp(gv, v, tol_uv, 'pos_to_a12(a12_to_pos(a1,a2)) a2, %d points' % n)
    if scalar:
        r = g.xy_to_a12(H(X[0]), H(Y[0]), **kw_x)
        _cmp([float(np.asarray(r[0]).reshape(())), float(np.asarray(r[1]).reshape(()))], [u[0], v[0]], 2 * tol_uv, 'xy_to_a12(float, float)')
    else:
        hu, hv = _shape_pair(g.xy_to_a12(H(X, 'x'), H(Y, 'y'), **kw_x), n, 'xy_to_a12')
        _cmp(hu, u, 2 * tol_uv, 'xy_to_a12(a12_to_xy(a1,a2)) a1'); _cmp(hv, v, 2 * tol_uv, 'xy_to_a12(a12_to_xy(a1,a2)) a2')
    # through atomman only: a12 -> pos -> a12, a12 -> xy -> a12
    r = g.pos_to_a12(np.asarray(g.a12_to_pos(H(u, 'a1'), H(v, 'a2'))))
    _cmp(r[0], u, tol_uv, 'pos_to_a12 o a12_to_pos a1'); _cmp(r[1], v, tol_uv, 'pos_to_a12 o a12_to_pos a2')
    xx, yy = g.a12_to_xy(H(u, 'a1'), H(v, 'a2'), **kw_x)
    r = g.xy_to_a12(xx, yy, **kw_x)
    _cmp(r[0], u, 2 * tol_uv, 'xy_to_a12 o a12_to_xy a1'); _cmp(r[1], v, 2 * tol_uv, 'xy_to_a12 o a12_to_xy a2')
    H.verify(' [conversions to fractional coordinates]')
    # --- the three ways of giving a position to E_gsf / delta agree
    ok = np.ones(n, dtype=bool)
    if not sm:
        for i in range(n):
            if gsf_ref.nearest_index(u[i], info['n1'], 1e-7)[1] or gsf_ref.nearest_index(v[i], info['n2'], 1e-7)[1]:
                ok[i] = False
        if not ok.all():
            labels.add('tie_exempt')
    fns = [('E_gsf', g.E_gsf, info['Erange'])]
    if info['D'] is not None:
        fns.append(('delta', g.delta, info['Drange']))
    bands = {}
    for name, fn, rng in fns:
        tol = 1e-8 * rng * cond
        seam = bool(s['dup']) or name == 'delta'
        ef, lo, hi, hit = eval_band(fn, u, v, sm, seam)
        bands[name] = (lo, hi, tol)
        if hit:
            labels.add('seam_band')
        ef2 = np.asarray(fn(a1=H(u, 'a1'), a2=H(v, 'a2'), smooth=sm), dtype=float)
        _cmp(ef2, ef, 0.0, '%s(a1=, a2=) given as %s vs float array input' % (name, form))
        ep = np.asarray(fn(pos=H(Pin, 'pos'), smooth=sm), dtype=float)
        require(ef.shape == (n,) and ep.shape == (n,), lambda: '%s shapes: a1/a2 %r, pos %r for %d points' % (name, ef.shape, ep.shape, n))
        _in_band(ep[ok], lo[ok], hi[ok], tol, '%s(pos=(%d,3) array, smooth=%r) vs %s(a1=, a2=)' % (name, n, sm, name))
        if scalar:
            exy = np.array([float(np.asarray(fn(x=H(X[i]), y=H(Y[i]), smooth=sm, **kw_x)).reshape(())) for i in range(n)])
        else:
            exy = np.asarray(fn(x=H(X, 'x'), y=H(Y, 'y'), smooth=sm, **kw_x), dtype=float)
        require(exy.shape == (n,), lambda: '%s(x=, y=) returned shape %r for %d points' % (name, exy.shape, n))
        _in_band(exy[ok], lo[ok], hi[ok], tol, '%s(x=, y=%s, smooth=%r) vs %s(a1=, a2=)' % (name, '' if xv is None else ', xvect=', sm, name))
    H.verify(' [E_gsf / delta]')
    # --- every legal combination of the optional keywords: alternative a1vect and/or a2vect (crystal vectors
    #     B1 = M00 a1 + M01 a2, B2 = M10 a1 + M11 a2; the same positions have coordinates (s,t) with s*B1 + t*B2 =
    #     u*a1 + v*a2) x plotting axis default / explicit.  Documented default of xvect: the Cartesian of a1vect, i.e. of
    #     the alternative a1vect when one is given.  In the history rounds one vector set per round.
    if case['alt'] is not None:
        xvc = case.get('xvc') or [1, -1]
        xve = xvc[0] * A1 + xvc[1] * A2
        xve_in = _offplane(case, info, P, xve)[1]
        sets = list(_alt_vector_sets(case, info))
        if rnd:
            sets = [sets[rnd % 3]]
        for aname, Me, B1, B2 in sets:
            st_ = np.linalg.solve(Me.T, np.array([u, v]))
            condM = float(np.linalg.cond(Me))
            B1c, B2c = B1 @ V, B2 @ V
            condB = gsf_ref.basis_cond(B1c, B2c)
            stmax = max(1.0, float(np.abs(st_).max()))
            tol_st = 4e-11 * condB * max(stmax, qmax) * condM
            tol_p = 1e-11 * max(np.linalg.norm(B1c), np.linalg.norm(B2c), Lmax) * max(stmax, qmax) * condM
            ka = {}
            given = ([B1] if aname != 'a2only' else []) + ([B2] if aname != 'a1only' else [])
            vform = None
            if case.get('altint') and all(bool(np.all(t == np.rint(t))) for t in given):
                vform = 'intlist' if form in ('list', 'tuple', 'arr') else 'int'
                labels.add('altvect_int')
            if aname != 'a2only':
                ka['a1vect'] = H(B1, 'a1vect', form=vform)
            if aname != 'a1only':
                ka['a2vect'] = H(B2, 'a2vect', form=vform)
            tag = ' [a1vect=%r, a2vect=%r]' % (B1.tolist() if 'a1vect' in ka else None, B2.tolist() if 'a2vect' in ka else None)
            pp = g.a12_to_pos(H(st_[0], 'a1'), H(st_[1], 'a2'), **ka)
            _cmp(pp, P, tol_p, 'a12_to_pos(a1, a2, alternative vectors)' + tag)
            r = g.pos_to_a12(H(Pin, 'pos'), **ka)
            _cmp(r[0], st_[0], tol_st, 'pos_to_a12(alternative vectors) a1' + tag); _cmp(r[1], st_[1], tol_st, 'pos_to_a12(alternative vectors) a2' + tag)
            for xname in ('xdefault', 'xexplicit'):
                kx = {} if xname == 'xdefault' else {'xvect': H(xve_in, 'xvect')}
                xeff = xve if kx else (B1c if 'a1vect' in ka else A1)
                Xc, Yc = gsf_ref.pos_to_xy(P, A1, A2, xeff)
                tg = tag + (' [xvect=%r]' % xve.tolist() if kx else ' [default xvect]')
                x1, y1 = _shape_pair(g.a12_to_xy(H(st_[0], 'a1'), H(st_[1], 'a2'), **ka, **kx), n, 'a12_to_xy' + tg)
                _cmp(x1, Xc, tol_p, 'a12_to_xy x' + tg); _cmp(y1, Yc, tol_p, 'a12_to_xy y' + tg)
                r = _shape_pair(g.xy_to_a12(H(Xc, 'x'), H(Yc, 'y'), **ka, **kx), n, 'xy_to_a12' + tg)
                _cmp(r[0], st_[0], 2 * tol_st, 'xy_to_a12 a1' + tg); _cmp(r[1], st_[1], 2 * tol_st, 'xy_to_a12 a2' + tg)
                r = g.xy_to_a12(x1, y1, **ka, **kx)
                _cmp(r[0], st_[0], 4 * tol_st, 'xy_to_a12 o a12_to_xy a1' + tg); _cmp(r[1], st_[1], 4 * tol_st, 'xy_to_a12 o a12_to_xy a2' + tg)
                labels.add('combo_%s_%s' % (aname, xname))
                for name, fn, rng in fns:
                    lo, hi, tol = bands[name]
                    exy = np.asarray(fn(x=H(Xc, 'x'), y=H(Yc, 'y'), smooth=sm, **ka, **kx), dtype=float)
                    _alt_judge(name + '(x=, y=, alternative vectors)' + tg, exy, fn, st_, sm, ok, lo, hi, tol * condM * 4, n)
            for name, fn, rng in fns:
                lo, hi, tol = bands[name]
                ea = np.asarray(fn(a1=H(st_[0], 'a1'), a2=H(st_[1], 'a2'), smooth=sm, **ka), dtype=float)
                require(ea.shape == (n,), lambda: '%s(a1vect=, a2vect=) returned shape %r for %d points' % (name, ea.shape, n))
                _in_band(ea[ok], lo[ok], hi[ok], tol * condM * 4, '%s(a1=, a2=, alternative vectors) vs the same positions in the stored vectors%s' % (name, tag))
                ep = np.asarray(fn(pos=H(Pin, 'pos'), smooth=sm, **ka), dtype=float)
                _alt_judge(name + '(pos=, alternative vectors)' + tag, ep, fn, st_, sm, ok, lo, hi, tol * condM * 4, n)
            labels.add('altvect')
            H.verify(' [alternative vectors]')
    # --- whole-number plotting coordinates given as integers (any (x, y) is a legal plotting coordinate)
    if H.form == 'int':
        Xi, Yi = np.rint(X), np.rint(Y)
        Pi = gsf_ref.xy_to_pos(Xi, Yi, A1, A2, xv)
        ui, vi = gsf_ref.pos_to_frac(Pi, A1, A2)
        imax = max(1.0, float(np.abs(ui).max()), float(np.abs(vi).max()))
        pp = g.xy_to_pos(H(Xi, 'x'), H(Yi, 'y'), **kw_x)
        _cmp(pp, Pi, 1e-11 * max(Lmax, float(np.abs(Pi).max())), 'xy_to_pos(integer x, integer y)')
        r = _shape_pair(g.xy_to_a12(H(Xi, 'x'), H(Yi, 'y'), **kw_x), n, 'xy_to_a12(integer x, y)')
        _cmp(r[0], ui, 2e-11 * cond * imax, 'xy_to_a12(integer x, y) a1'); _cmp(r[1], vi, 2e-11 * cond * imax, 'xy_to_a12(integer x, y) a2')
        oki = np.ones(n, dtype=bool)
        if not sm:
            oki = np.array([not (gsf_ref.nearest_index(a, info['n1'], 1e-7)[1] or gsf_ref.nearest_index(b, info['n2'], 1e-7)[1]) for a, b in zip(ui, vi)])
        base, lo, hi, hit = eval_band(g.E_gsf, ui, vi, sm, bool(s['dup']))
        e = np.asarray(g.E_gsf(x=H(Xi, 'x'), y=H(Yi, 'y'), smooth=sm, **kw_x), dtype=float)
        _in_band(e[oki], lo[oki], hi[oki], 1e-8 * info['Erange'] * cond, 'E_gsf(x=, y=) with integer-typed plotting coordinates')
        H.verify(' [integer plotting coordinates]')
    if 'int' in H.used:
        labels.add('int_typed')
    labels.update(t for t in H.used if t.startswith('narrow'))
    # --- Cartesian positions given as a plain list (array-like)
    if form in ('list', 'tuple'):
        try:
            r = g.pos_to_a12(Pin.tolist())
            _cmp(r[0], u, tol_uv, 'pos_to_a12(list of positions) a1')
            x1, y1 = g.pos_to_xy(Pin.tolist(), **kw_x)
            _cmp(x1, X, 1e-11 * qmax * max(np.linalg.norm(A1), np.linalg.norm(A2)), 'pos_to_xy(list of positions) x')
            e = np.asarray(g.E_gsf(pos=Pin.tolist(), smooth=sm), dtype=float)
            base, lo, hi, hit = eval_band(g.E_gsf, u, v, sm, bool(s['dup']))
            _in_band(e[ok], lo[ok], hi[ok], 1e-8 * info['Erange'] * cond, 'E_gsf(pos=list)')
        except AttributeError as e:
            if "'list' object has no attribute" in str(e):
                raise Violation('Cartesian positions given as a list (array-like per docstring): %s' % e, key=K_POSLIST)
            raise
        labels.add('pos_list')


def _alt_judge(what, got, fn, st_, sm, ok, lo, hi, tol, n):
    """E_gsf / delta of positions given as pos= or x=, y= TOGETHER with alternative a1vect/a2vect: the value belongs to
    the position (the alternative vectors only name the fractional coordinates and the default plotting axis; that is
    what E_gsf(a1=, a2=, a1vect=, a2vect=) does: a1, a2 -> position -> stored vectors).  While the finding K_ALT is open
    on the tree under test (the coordinates in the alternative vectors are looked up as if they referred to the stored
    ones, i.e. the value of another position is returned) a failure in this input class is keyed and deferred."""
    require(got.shape == (n,), lambda: '%s returned shape %r for %d points' % (what, got.shape, n))
    try:
        _in_band(got[ok], lo[ok], hi[ok], tol, what + ' vs the same positions through a1=, a2= in the stored vectors')
    except Violation as e:
        if _tree_alt_broken():
            if not _DEFER:
                _DEFER.append(Violation(e.detail, key=K_ALT))
            return
        raise


# ----------------------------------------------------------------------------- model

def oracle_model(case):
    import atomman as am
    import atomman.unitconvert as uc
    s = case['surf']
    g, info = build_surface(s)
    labels = surface_labels(s, info)
    kw = {}
    if case['eunit']:
        kw['energyperarea_unit'] = case['eunit']
    if case['lunit']:
        kw['length_unit'] = case['lunit']
    m = g.model(**kw)
    sfm = m['stacking-fault-map']
    eunit = case['eunit'] or 'mJ/m^2'
    require(sfm['stacking-fault-relation']['energy']['unit'] == eunit, lambda: 'model energy unit %r, asked %r' % (sfm['stacking-fault-relation']['energy']['unit'], eunit))
    ev = np.asarray(sfm['stacking-fault-relation']['energy']['value'], dtype=float)
    # size of the model's units in the CURRENT working units: my own products of numericalunits attributes
    import numericalunits as nu
    esize = {'mJ/m^2': nu.mJ / nu.m ** 2, 'eV/angstrom^2': nu.eV / nu.angstrom ** 2, 'J/m^2': nu.J / nu.m ** 2}[eunit]
    _cmp(ev * esize, info['E'], 1e-12 * np.abs(info['E']).max(), 'model energy values x unit (%s = %r working units)' % (eunit, esize))
    if info['D'] is not None:
        lunit = case['lunit'] or 'angstrom'
        ps = sfm['stacking-fault-relation']['plane-separation']
        require(ps['unit'] == lunit, lambda: 'model plane-separation unit %r, asked %r' % (ps['unit'], lunit))
        lsize = {'angstrom': nu.angstrom, 'nm': nu.nm}[lunit]
        _cmp(np.asarray(ps['value'], dtype=float) * lsize, info['D'], 1e-12 * np.abs(info['D']).max(),
             'model plane-separation values x unit (%s = %r working units)' % (lunit, lsize))
    fmt = case['fmt']
    labels.add(fmt)
    labels.add('via_' + case['via'])
    text = m.json() if fmt == 'json' else m.xml()
    if fmt == 'xml' and 'np.float64(' in text:
        raise Violation('GammaSurface.model().xml() contains %r: vectors are stored as lists of numpy scalars'
                        % text[text.index('np.float64('):][:24], key=K_XML)
    into = case.get('into')
    if into is not None:
        # object history: the model is loaded into an object that holds other data and has answered queries on them
        g2, info_old = build_surface(into)
        g2.E_gsf(a1=[0.25, 0.5], a2=[0.5, 0.125], smooth=True)
        g2.E_gsf(a1=[0.25, 0.5], a2=[0.5, 0.125], smooth=False)
        if info_old['D'] is not None:
            g2.delta(a1=0.25, a2=0.5)
        labels.add('history_load_into_existing')
        if (into['D'] is None) != (s['D'] is None):
            labels.add('history_delta_toggled')
    if case['via'] == 'str':
        if into is None:
            g2 = am.defect.GammaSurface(model=text)
        else:
            g2.model(model=text)
    elif case['via'] == 'dm':
        from DataModelDict import DataModelDict as DM
        if into is None:
            g2 = am.defect.GammaSurface(model=DM(text))
        else:
            g2.model(model=DM(text))
    else:
        fd, path = tempfile.mkstemp(suffix='.' + fmt)
        try:
            with os.fdopen(fd, 'w', encoding='utf-8') as fh:
                fh.write(text)
            if into is None:
                g2 = am.defect.GammaSurface()
            g2.model(model=path)
        finally:
            os.remove(path)
    d, d2 = g.data, g2.data
    require(list(d2.columns) == list(d.columns) and len(d2) == len(d), lambda: 'round trip changed the data table: columns %r -> %r, rows %d -> %d'
            % (list(d.columns), list(d2.columns), len(d), len(d2)))
    _cmp(d2['a1'].to_numpy(), info['a1'], 1e-15, 'round trip a1')
    _cmp(d2['a2'].to_numpy(), info['a2'], 1e-15, 'round trip a2')
    _cmp(d2['E_gsf'].to_numpy(), info['E'], 1e-12 * np.abs(info['E']).max(), 'round trip E_gsf')
    if info['D'] is not None:
        _cmp(d2['delta'].to_numpy(), info['D'], 1e-12 * np.abs(info['D']).max(), 'round trip delta')
    _cmp(g2.a1vect, info['a1v3'], 1e-12 * np.abs(info['a1v3']).max(), 'round trip a1vect')
    _cmp(g2.a2vect, info['a2v3'], 1e-12 * np.abs(info['a2v3']).max(), 'round trip a2vect')
    _cmp(g2.box.vects, info['V'], 1e-8 * np.abs(info['V']).max(), 'round trip box vectors')
    _cmp(g2.planenormal, g.planenormal, 1e-8, 'round trip plane normal')
    q = np.array(case['q'], dtype=float)
    for smooth in (True, False):
        e1 = g.E_gsf(a1=q[:, 0], a2=q[:, 1], smooth=smooth)
        e2 = g2.E_gsf(a1=q[:, 0], a2=q[:, 1], smooth=smooth)
        ok = np.ones(len(q), dtype=bool)
        if not smooth:
            ok = np.array([not (gsf_ref.nearest_index(a, info['n1'], 1e-7)[1] or gsf_ref.nearest_index(b, info['n2'], 1e-7)[1]) for a, b in q])
        _cmp(np.asarray(e2)[ok], np.asarray(e1)[ok], 1e-8 * info['Erange'], 'answers of the reloaded surface, E_gsf(smooth=%r)' % smooth)
        if info['D'] is not None:
            d1_ = g.delta(a1=q[:, 0], a2=q[:, 1], smooth=smooth)
            d2_ = g2.delta(a1=q[:, 0], a2=q[:, 1], smooth=smooth)
            _cmp(np.asarray(d2_)[ok], np.asarray(d1_)[ok], 1e-8 * info['Drange'], 'answers of the reloaded surface, delta(smooth=%r)' % smooth)
    p1 = g.a12_to_pos(q[:, 0], q[:, 1])
    p2 = g2.a12_to_pos(q[:, 0], q[:, 1])
    _cmp(p2, p1, 1e-8 * max(np.linalg.norm(info['A1']), np.linalg.norm(info['A2'])) * max(1.0, float(np.abs(q).max())),
         'a12_to_pos of the reloaded surface')
    if s['D'] is None:
        require('delta' not in d2.columns, 'reloaded surface grew a delta column')
        try:
            g2.delta(a1=0.25, a2=0.5)
        except AttributeError as e:
            require('delta data not set' in str(e), lambda: 'delta() without data raised AttributeError(%s)' % e)
        else:
            raise Violation('delta() answers on a reloaded surface whose model has no plane-separation data'
                            + ('' if into is None else ' (the object held such data before the load)'))
    labels.add('nt')
    return labels


# ----------------------------------------------------------------------------- Peierls-Nabarro set-up

_AX = {'x': [1.0, 0.0, 0.0], 'y': [0.0, 1.0, 0.0], 'z': [0.0, 0.0, 1.0]}
_HV = {}


def _hand_volterra_class(am):
    """a VolterraDislocation whose solution is given by hand (SDVPN reads m, n, xi, K_tensor, burgers, transform)"""
    if 'cls' not in _HV:
        class HandVolterra(am.defect.VolterraDislocation):
            def __init__(self, m, n, K, b, T):
                self._hm, self._hn, self._hK, self._hb, self._hT = m, n, K, b, T
            m = property(lambda self: self._hm)
            n = property(lambda self: self._hn)
            ξ = property(lambda self: np.cross(self._hm, self._hn))
            K_tensor = property(lambda self: self._hK)
            burgers = property(lambda self: self._hb)
            transform = property(lambda self: self._hT)
        _HV['cls'] = HandVolterra
    return _HV['cls']


def build_pn_system(sysc):
    """volterra object, gamma surface and my own description in the [m, n, xi] frame"""
    import atomman as am
    fr = sysc['frame']
    if fr[0] == 'vec':
        R = G.rotation_of(sysc['rotf'])
        m, n = R[:, 0].copy(), R[:, 1].copy()
        m_arg, n_arg = m, n
    else:
        m, n = np.array(_AX[fr[0]]), np.array(_AX[fr[1]])
        m_arg, n_arg = fr[0], fr[1]
    xi = np.cross(m, n)
    M = np.array([m, n, xi])
    T = np.eye(3) if sysc['T'] is None else G.rotation_of(sysc['T'])
    # length scale l (Burgers vector, shift vectors), energy-per-area scale e (gamma surface); K_tensor is an energy per
    # volume: e / l
    l, e = _scales(sysc.get('lk'), sysc.get('ej'))
    ke = e / l
    b = sysc['b'] * l
    phi = math.radians(sysc['phi'])
    b_mnx = np.array([b * math.cos(phi), 0.0, b * math.sin(phi)])       # in the [m,n,xi] frame
    b_sol = M.T @ b_mnx                                                  # in the solution's Cartesian frame
    Kd = sysc['K']
    if Kd['kind'] == 'hand':
        Q = np.eye(3) if Kd['rot'] is None else gens.rotation_matrix(*Kd['rot'])
        K_sol = Q @ np.diag(Kd['eig']) @ Q.T
        K_sol = 0.5 * (K_sol + K_sol.T) * ke
        vol = _hand_volterra_class(am)(m, n, K_sol, b_sol, T)
    else:
        if Kd['kind'] == 'iso':
            mu, nu = Kd['mu'], Kd['nu']
            lam = 2 * mu * nu / (1 - 2 * nu)
            c11, c12, c44 = lam + 2 * mu, lam, mu
        else:
            c44, nu = Kd['C44'], Kd['nu']
            c12 = 2 * c44 * nu / (1 - 2 * nu)
            c11 = c12 + 2 * c44 / Kd['A']
        Cij = np.zeros((6, 6))
        Cij[:3, :3] = c12
        for i in range(3):
            Cij[i, i] = c11
            Cij[i + 3, i + 3] = c44
        C = am.ElasticConstants(Cij=Cij)
        try:
            # the Volterra problem is solved in the unscaled units (how the Stroh / isotropic solvers - their tolerances are
            # absolute in the moduli - cope with other units is C12's business) ...
            vol = am.defect.solve_volterra_dislocation(C, T.T @ b_sol / l, transform=T, m=m_arg, n=n_arg)
            K_sol = np.asarray(vol.K_tensor, dtype=float)
            if l != 1.0 or e != 1.0:
                # ... and its K_tensor / burgers reach SDVPN in the scaled units through a hand-given solution
                K_sol = K_sol * ke
                vol = _hand_volterra_class(am)(np.asarray(vol.m, dtype=float), np.asarray(vol.n, dtype=float), K_sol,
                                               np.asarray(vol.burgers, dtype=float) * l, np.asarray(vol.transform, dtype=float))
        except ValueError:
            # a degenerate Stroh problem is C12's business: fall back to a hand-given solution
            K_sol = np.diag([c44 * 1.4, c44 * 1.4, c44]) * ke
            vol = _hand_volterra_class(am)(m, n, K_sol, b_sol, T)
        require(K_sol.shape == (3, 3) and np.all(np.isfinite(K_sol)), lambda: 'volterra.K_tensor = %r' % K_sol)
    K = M @ K_sol @ M.T
    # gamma surface spanning the slip plane: shift vectors in the (m, xi) plane
    gd = sysc['gamma']
    a = math.radians(gd['a1ang'])
    th = math.radians(gd['a2rel'])
    B1 = gd['a1len'] * l * np.array([math.cos(a), math.sin(a)])               # (m, xi) components
    B2 = gd['a2len'] * l * np.array([math.cos(a + th), math.sin(a + th)])
    A1 = T.T @ (B1[0] * m + B1[1] * xi)
    A2 = T.T @ (B2[0] * m + B2[1] * xi)
    n1, n2 = gd['n1'], gd['n2']
    Et = (np.array(G.table(gd['Eseed'], n1, n2, 'fourier', gd['scale'])) * e).tolist()
    ext = 1 if gd['dup'] else 0
    rows = [(i, j) for i in range(n1 + ext) for j in range(n2 + ext)]
    gam = am.defect.GammaSurface(a1vect=A1, a2vect=A2, a1=[i / n1 for i, j in rows], a2=[j / n2 for i, j in rows],
                                 E_gsf=[Et[i % n1][j % n2] for i, j in rows])
    return dict(vol=vol, gamma=gam, dup=bool(gd['dup']), M=M, T=T, K=K, K_sol=K_sol, b=b_mnx, B=np.array([B1, B2]).T, A1=A1, A2=A2,
                Emax=float(np.abs(np.array(Et)).max()), m=m, n=n, xi=xi, l=l, e=e, ke=ke,
                lk=int(sysc.get('lk') or 0), ej=int(sysc.get('ej') or 0))


def scale_settings(st_, S):
    """the settings of a case in the units of the system: tau is an energy per volume (e/l), beta an energy per area
    (e), alpha an energy per length^4 (e/l^2), the long-range cutoff a length (None = the documented default of 1000
    working units of length)"""
    if st_ is None:
        return None
    out = dict(st_)
    l, e, ke = S['l'], S['e'], S['ke']
    if 'tau' in out:
        out['tau'] = [[t * ke for t in r] for r in out['tau']]
    if 'beta' in out:
        out['beta'] = [[t * e for t in r] for r in out['beta']]
    if out.get('alpha') is not None:
        a = out['alpha']
        out['alpha'] = [t * ke / l for t in a] if isinstance(a, list) else a * ke / l
    if out.get('cutoff') is not None:
        out['cutoff'] = out['cutoff'] * l
    return out


def build_profile(pr, b_mnx, l=1.0):
    """x grid and disregistry rows (edge, 0, screw) in the [m,n,xi] frame; b_mnx carries the length scale l already, the
    grid origin, the whole-number grids and the rounding unit of the staircase profiles are multiplied by it here"""
    N = pr['N']
    bmag = float(np.linalg.norm(b_mnx))
    dx = bmag / pr['kstep']
    if pr.get('xint'):
        dx = float(pr['xint']['dx']) * l
        x = (float(pr['xint']['x0']) + np.arange(N) * float(pr['xint']['dx'])) * l
    elif pr['x0'] is None:
        x = (np.arange(N) - (N - 1) / 2.0) * dx
    else:
        x = pr['x0'] * l + np.arange(N) * dx
    xc = 0.5 * (x[0] + x[-1]) + pr['center'] * dx
    w = pr['w'] * bmag
    f = np.arctan((x - xc) / w) / math.pi + 0.5
    f = (f - f[0]) / (f[-1] - f[0])                       # 0 -> 1
    t = (x - x[0]) / (x[-1] - x[0])
    d = np.outer(f, b_mnx)
    for comp, (amp, k), ramp in ((0, pr['pert'][0], pr['ramp'][0]), (2, pr['pert'][1], pr['ramp'][1])):
        d[:, comp] += amp * bmag * np.sin(math.pi * k * t) + ramp * bmag * t
    if pr.get('kind') == 'decades':
        # many decades in one call: rows growing geometrically from 1e-9 b to b (edge) and falling from b/2 (screw)
        gr = 10.0 ** (-9.0 + 9.0 * t)
        d[:, 0] = bmag * gr
        d[:, 2] = 0.5 * bmag * gr[::-1]
    d[:, 1] = 0.0
    if pr.get('round'):
        d = np.rint(d / l) * l + 0.0
    elif pr.get('dy') is not None:
        # near-threshold: a tiny out-of-plane component (the setter's test is np.allclose(., 0): absolute 1e-8)
        d[:, 1] = min(10.0 ** (-pr['dy']) * bmag, 1e-10) * np.cos(3.0 * t)
    return x, d


def make_sdvpn(S, st_, x=None, d=None, H=None):
    import atomman as am
    H = H or _Hand('arr')
    tb = st_.get('tbform') or 'arr'
    kw = dict(tau=H(st_['tau'], 'tau', form=tb), beta=H(st_['beta'], 'beta', form=tb), fullstress=st_['fullstress'],
              cdiffelastic=st_['cdiffelastic'], cdiffsurface=st_['cdiffsurface'], cdiffstress=st_['cdiffstress'])
    if st_['alpha'] is not None:
        kw['alpha'] = st_['alpha']
    if st_['cutoff'] is not None:
        kw['cutofflongrange'] = st_['cutoff']
    pn = am.defect.SDVPN(volterra=S['vol'], gamma=S['gamma'], **kw)
    return pn


def alphas_of(st_):
    a = st_['alpha']
    if a is None:
        return [0.0]
    if isinstance(a, list):
        return [float(t) for t in a]
    return [float(a)]


def pn_labels(case, S, d):
    st_ = case['set']
    labs = {'K_' + case['sys']['K']['kind'], 'frame_' + ''.join(case['sys']['frame'])[:6]} | scale_labels(S['lk'], S['ej'])
    if case['sys']['T'] is not None:
        labs.add('crystal_rot')
    if isinstance(case['sys']['rotf'], dict):
        labs.add('frame_signed_axes')
    if case['prof'].get('kind') == 'decades' and not case['prof'].get('round'):
        labs.add('profile_decades')
    if np.any(d[:, 1] != 0.0):
        labs.add('near_inplane_dy')
    edge = np.abs(np.diff(d[:, 0])).max() > 1e-9 * S['l']
    screw = np.abs(np.diff(d[:, 2])).max() > 1e-9 * S['l']
    if edge and screw:
        labs.add('mixed')
    opt = False
    if np.any(np.array(st_['tau'])[1] != 0):
        labs.add('tau'); opt = True
    if any(alphas_of(st_)):
        labs.add('alpha%d' % len(alphas_of(st_))); opt = True
    if np.any(np.array(st_['beta']) != 0):
        labs.add('beta'); opt = True
    for f in ('fullstress', 'cdiffelastic', 'cdiffsurface', 'cdiffstress'):
        if st_[f]:
            labs.add(f)
    if abs(np.linalg.norm(S['K'] - np.diag(np.diag(S['K'])))) > 1e-9 * S['ke']:
        labs.add('K_offdiag')
    N = len(d)
    labs.add('N<=25' if N <= 25 else ('N<=120' if N <= 120 else 'N>120'))
    if edge and screw and opt:
        labs.add('nt')
    return labs


def check_frame(pn, S):
    """SDVPN re-expresses K_tensor, burgers and transform in the [m, n, xi] frame"""
    kmax = np.abs(S['K']).max()
    _cmp(pn.K_tensor, S['K'], 1e-9 * kmax, 'SDVPN.K_tensor vs [m,n,xi] K_tensor [m,n,xi]^T')
    _cmp(pn.burgers, S['b'], 1e-7 * np.linalg.norm(S['b']), 'SDVPN.burgers vs [m,n,xi].burgers')
    _cmp(pn.transform, S['M'] @ S['T'], 1e-9, 'SDVPN.transform vs [m,n,xi].transform')


def _close(got, exp, scale, what, rel=1e-10, extra=0.0):
    got = float(got)
    require(math.isfinite(got), lambda: '%s is %r' % (what, got))
    tol = rel * scale + extra + 1e-300
    require(abs(got - exp) <= tol, lambda: '%s = %.17g, independent evaluation of the documented formula gives %.17g (diff %.3g, tol %.3g)'
            % (what, got, exp, abs(got - exp), tol))


# ----------------------------------------------------------------------------- object history of an SDVPN

_SET_KEYS = ('tau', 'alpha', 'beta', 'cutoff', 'fullstress', 'cdiffelastic', 'cdiffsurface', 'cdiffstress')


def apply_settings(pn, cur, chg, H=None):
    """change settings of an existing object through its public attribute setters; returns my updated description.
    cutoff None = the documented default 1000 (angstrom), alpha None = the documented default 0.0"""
    cur = dict(cur)
    H = H or _Hand('arr')
    tb = cur.get('tbform') or 'arr'
    for k in _SET_KEYS:
        if k not in chg:
            continue
        v = chg[k]
        if k == 'tau':
            pn.tau = H(v, 'tau', form=tb)
        elif k == 'beta':
            pn.beta = H(v, 'beta', form=tb)
        elif k == 'alpha':
            pn.alpha = 0.0 if v is None else v
        elif k == 'cutoff':
            v = _default_cutoff() if v is None else v
            pn.cutofflongrange = v
        else:
            setattr(pn, k, bool(v))
        cur[k] = v
    return cur


def step_profile(step, base, prev, nmax=200):
    """profile description of a history step: its grid is defined relative to the evaluation before it"""
    kind = step['grid']
    if kind == 'back':
        return dict(base)
    p = dict(step['prof'])
    if kind in ('same', 'shift', 'spacing'):
        p['N'] = prev['N']
    if kind == 'same':
        p['kstep'], p['x0'], p['xint'] = prev['kstep'], prev['x0'], prev.get('xint')
    elif kind == 'shift':
        p['kstep'] = prev['kstep']
        if prev.get('xint'):
            p['xint'] = {'x0': prev['xint']['x0'] + 3, 'dx': prev['xint']['dx']}
        else:
            p['xint'] = None
            if p['x0'] == prev['x0']:
                p['x0'] = -2.5 if prev['x0'] == 1.625 else 1.625
    elif kind == 'spacing':
        if p.get('xint') and prev.get('xint'):
            if p['xint']['dx'] == prev['xint']['dx']:
                p['xint'] = {'x0': p['xint']['x0'], 'dx': 3 - prev['xint']['dx']}
        elif not p.get('xint') and not prev.get('xint'):
            if p['kstep'] == prev['kstep']:
                p['kstep'] = prev['kstep'] + 1 if prev['kstep'] < 20 else prev['kstep'] - 1
    else:
        p['N'] = min(p['N'], nmax)
        if p['N'] == prev['N']:
            p['N'] = p['N'] + 1 if p['N'] < nmax else p['N'] - 1
    return p


_LISTY = ('list', 'tuple', 'intlist')


def arg_form(f, listargs):
    """form of an x / disregistry given as an ARGUMENT of an energy method.  Lists and tuples go there only in the cases
    drawn for it (listargs); while the finding K_LISTARG is open they are replaced by arrays and the finding is deferred"""
    if f not in _LISTY:
        return f
    if not listargs:
        return 'arr'
    if _tree_listarg_broken():
        if not _DEFER:
            _DEFER.append(Violation('SDVPN energy methods (disldensity, *_energy) with x or disregistry given as a list / tuple '
                                    '(docstring: array-like object) raise TypeError: they slice and subtract the arguments as given',
                                    key=K_LISTARG))
        return 'arr'
    return f


def hand_over(pn, x, d, via, H=None, fx='arr', fd='arr', listargs=False, labels=None):
    """give (x, disregistry) to the object by one of the public routes, in the forms fx / fd; every object handed over
    is kept by H (the caller's objects must be unchanged afterwards); returns (args, kwargs) for the energy methods"""
    H = H or _Hand('arr')
    ax, ad = arg_form(fx, listargs), arg_form(fd, listargs)
    if labels is not None and listargs and ((via in ('args', 'kw', 'x_arg') and ax in _LISTY) or (via in ('args', 'kw', 'd_arg') and ad in _LISTY)):
        labels.add('list_args')
    if via == 'args':
        return (H(x, 'x', form=ax), H(d, 'disregistry', form=ad)), {}
    if via == 'kw':
        return (), {'x': H(x, 'x', form=ax), 'disregistry': H(d, 'disregistry', form=ad)}
    if via == 'setter':
        pn.x = H(x, 'x', form=fx)
        pn.disregistry = H(d, 'disregistry', form=fd)
        _cmp(pn.x, x, 0.0, 'x after assignment'); _cmp(pn.disregistry, d, 0.0, 'disregistry after assignment')
        return (), {}
    if via == 'x_arg':
        pn.disregistry = H(d, 'disregistry', form=fd)
        return (), {'x': H(x, 'x', form=ax)}
    if via == 'd_arg':
        pn.x = H(x, 'x', form=fx)
        return (), {'disregistry': H(d, 'disregistry', form=ad)}
    raise ValueError(via)


def form_labels(labels, H, fx, fd):
    if fx != 'arr':
        labels.add('xform_' + fx)
    if fd != 'arr':
        labels.add('dform_' + fd)
    if fx != 'arr' or fd != 'arr':
        labels.add('forms')
    if 'int' in H.used:
        labels.add('int_typed')
    labels.update(t for t in H.used if t.startswith('narrow'))
    if G.is_narrow(fx) or G.is_narrow(fd):
        labels.add('forms_narrow')


def check_stored(pn, x, d, via, tag=''):
    """what the object holds is what was given, after any number of energy evaluations"""
    if via in ('setter', 'x_arg', 'd_arg'):
        if via != 'x_arg':
            _cmp(pn.x, x, 0.0, 'stored x after the energy evaluations' + tag)
        if via != 'd_arg':
            _cmp(pn.disregistry, d, 0.0, 'stored disregistry after the energy evaluations' + tag)


def history_labels(labels, step, via, x, xprev, xbase, moved_away):
    """classify a history evaluation against the one before it"""
    as_arg = via in ('args', 'kw', 'x_arg')
    labels.add('history')
    if len(x) != len(xprev):
        labels.add('history_new_len')
    elif abs((x[1] - x[0]) - (xprev[1] - xprev[0])) > 1e-9 * (x[1] - x[0]):
        labels.add('history_same_len_new_spacing' if as_arg else 'history_same_len_new_spacing_setter')
    elif np.array_equal(x, xprev):
        labels.add('history_same_grid')
    else:
        labels.add('history_shifted_grid')
    if step['grid'] == 'back' and moved_away:
        labels.add('history_back')
    if via in ('setter', 'x_arg', 'd_arg'):
        labels.add('history_setter_between')
    if via in ('x_arg', 'd_arg'):
        labels.add('history_' + via + '_only')
    if step.get('chg'):
        labels.add('history_settings_changed')


def step_tag(num, step, via, x, xprev):
    return (' [history: evaluation %d on the same object; N %d -> %d, spacing %.6g -> %.6g, x/disregistry given by %r%s]'
            % (num, len(xprev), len(x), xprev[1] - xprev[0], x[1] - x[0], via,
               ', settings %s changed through their setters' % sorted(step['chg']) if step.get('chg') else ''))


def run_history(case, S, pn, st_, x, d, labels, judge, nmax=200):
    """the drawn further evaluations on the SAME object, each judged by judge(pn, st, x, d, args, kwargs, labels, tag)
    exactly like the first one"""
    base = case['prof']
    prev, xprev = dict(base), x
    cur = dict(st_)
    if cur['cutoff'] is None:
        cur['cutoff'] = _default_cutoff()
    moved = False
    for num, step in enumerate(case.get('hist') or []):
        p = step_profile(step, base, prev, nmax)
        xs, ds = build_profile(p, S['b'], S['l'])
        via = step['via']
        history_labels(labels, step, via, xs, xprev, x, moved)
        tag = step_tag(num + 2, step, via, xs, xprev)
        if not np.array_equal(xs, x):
            moved = True
        try:
            H = _Hand('arr')
            if step.get('chg'):
                cur = apply_settings(pn, cur, scale_settings(step['chg'], S), H)
            fx, fd = p.get('fx') or 'arr', p.get('fd') or 'arr'
            a, kw = hand_over(pn, xs, ds, via, H, fx, fd, bool(case.get('listargs')), labels)
            if fx != 'arr' or fd != 'arr':
                labels.add('history_forms')
            judge(pn, cur, xs, ds, a, kw, set(), tag)
            # the caller's arrays and what the object holds are unchanged by the evaluations
            H.verify(' [after the energy evaluations]')
            check_stored(pn, xs, ds, via)
            if 'int' in H.used:
                labels.add('int_typed')
        except Violation as e:
            raise Violation(e.detail + tag, key=e.key)
        prev, xprev = p, xs
    if len(case.get('hist') or []) >= 2:
        labels.add('history_steps>=2')
    return cur


# ----------------------------------------------------------------------------- pn_terms

def judge_terms(pn, S, K, st_, x, d, a, kw, labels):
    """every configuration-dependent term + the long-range term of one evaluation against the independent formulas;
    a, kw: how (x, disregistry) are handed to the methods (arguments or nothing when they are stored)"""
    N = len(x)
    dx = x[1] - x[0]
    # dislocation density, both stencils
    for cd in (False, True):
        nx_, rho = pn.disldensity(*a, cdiff=cd, **kw)
        ex, er = pn_ref.density(x, d, cd)
        _cmp(nx_, ex, 0.0, 'disldensity(cdiff=%r) x positions' % cd)
        _cmp(rho, er, 1e-13 * (np.abs(d).max() + 1e-300) / dx * 4, 'disldensity(cdiff=%r)' % cd)
        # ... and every row relative to ITS OWN magnitude (rows may span many decades in one call)
        lo_, hi_ = (d[:-2], d[2:]) if cd else (d[:-1], d[1:])
        rowtol = 8 * EPS * (np.abs(lo_) + np.abs(hi_)) / (dx * (2 if cd else 1)) * (1 + 1e-6) + 1e-300
        bad = np.abs(np.asarray(rho, dtype=float) - er) > rowtol
        require(not bad.any(), lambda: 'disldensity(cdiff=%r): row %d is %r, (d[i+1]-d[i-1])/(x[i+1]-x[i-1]) resp. (d[i]-d[i-1])/(x[i]-x[i-1]) = %r '
                '(judged relative to the magnitude of that row: tol %r)' % (cd, int(np.argwhere(bad)[0][0]), np.asarray(rho)[np.argwhere(bad)[0][0]].tolist(),
                                                                             er[np.argwhere(bad)[0][0]].tolist(), rowtol[np.argwhere(bad)[0][0]].tolist()))
    # elastic
    e_el = pn.elastic_energy(*a, **kw)
    exp, sc = pn_ref.elastic(x, d, K, st_['cdiffelastic'])
    _close(e_el, exp, sc, 'elastic_energy(cdiffelastic=%r, N=%d)' % (st_['cdiffelastic'], N))
    if N <= 16:
        exp2 = pn_ref.elastic_scalar_loop(x, d, K.tolist(), st_['cdiffelastic'])
        _close(e_el, exp2, sc, 'elastic_energy vs scalar double loop')
        labels.add('scalar_loop')
    # long range
    L = _default_cutoff() if st_['cutoff'] is None else st_['cutoff']
    exp, scl = pn_ref.longrange(K.tolist(), S['b'].tolist(), L)
    _close(pn.longrange_energy(), exp, scl, 'longrange_energy(cutoff %g)' % L, extra=1e-7 * scl)   # burgers carries a 1e-8 clean-up
    # surface
    exp, scs = pn_ref.surface(x, d, st_['beta'], st_['cdiffsurface'])
    _close(pn.surface_energy(*a, **kw), exp, scs, 'surface_energy(cdiffsurface=%r)' % st_['cdiffsurface'])
    # nonlocal
    al = alphas_of(st_)
    require(tuple(float(t) for t in pn.alpha) == tuple(al), lambda: 'alpha stored as %r for %r' % (pn.alpha, st_['alpha']))
    if N > 2 * len(al):
        exp, scn = pn_ref.nonlocal_(x, d, al)
        _close(pn.nonlocal_energy(*a, **kw), exp, scn, 'nonlocal_energy(alpha=%r)' % (al,))
    # stress, both forms (last: one flag combination is a listed finding)
    tau = st_['tau']
    if st_['fullstress']:
        exp, scf = pn_ref.stress_full(x, d, tau, st_['cdiffstress'])
        try:
            got = pn.stress_energy(*a, **kw)
        except ValueError as e:
            if st_['cdiffstress'] and 'broadcast' in str(e):
                raise Violation('stress_energy(fullstress=True, cdiffstress=True) raised ValueError(%s): weights x[1:]^2-x[:-1]^2 '
                                '(N-1) against a central-difference density (N-2)' % e, key=K_CDIFF)
            raise
        _close(got, exp, scf, 'stress_energy(fullstress=True, cdiffstress=%r)' % st_['cdiffstress'])
    else:
        exp, sca = pn_ref.stress_alt(x, d, tau)
        got = pn.stress_energy(*a, **kw)
        _close(got, exp, sca, 'stress_energy(fullstress=False)')
        # documented relation to the full form: differs by a constant fixed by the end rows
        pn.fullstress = True
        pn.cdiffstress = False
        full = float(pn.stress_energy(x, d))
        pn.fullstress = False
        pn.cdiffstress = st_['cdiffstress']
        cst = pn_ref.stress_full_minus_alt_constant(x, d, tau)
        scf = pn_ref.stress_full(x, d, tau, False)[1]
        _close(full - float(got), cst, sca + scf, 'stress_energy(full) - stress_energy(alternate) vs its end-row constant', rel=1e-9)
    return float(e_el), sc


def oracle_pn_terms(case):
    S = build_pn_system(case['sys'])
    st_ = scale_settings(case['set'], S)
    del _DEFER[:]
    pf = case['prof']
    x, d = build_profile(pf, S['b'], S['l'])
    H = _Hand('arr')
    pn = make_sdvpn(S, st_, H=H)
    labels = pn_labels(case, S, d)
    check_frame(pn, S)
    K = np.asarray(pn.K_tensor, dtype=float)           # verified above
    fx, fd = pf.get('fx') or 'arr', pf.get('fd') or 'arr'
    via = 'setter' if st_['stored'] else 'args'
    a, kw = hand_over(pn, x, d, via, H, fx, fd, bool(case.get('listargs')), labels)
    if st_['stored']:
        labels.add('stored')
    N = len(x)
    e_el, sc = judge_terms(pn, S, K, st_, x, d, a, kw, labels)
    H.verify(' [after the energy evaluations]')
    check_stored(pn, x, d, via)
    form_labels(labels, H, fx, fd)
    # quadratic form: E(s*delta) = s^2 E(delta); parallelogram law with a second profile; rigid shift
    s_ = case['s']
    e_s = pn.elastic_energy(x, s_ * d)
    _close(e_s, s_ * s_ * float(e_el), s_ * s_ * sc, 'elastic_energy(%g*disregistry) vs %g^2 * elastic_energy(disregistry)' % (s_, s_), rel=1e-9)
    d2 = d[::-1].copy() * 0.7
    d2[:, 0] += 0.1 * np.linalg.norm(S['b']) * np.cos(np.linspace(0, 3.0, N))
    ea, eb = float(pn.elastic_energy(x, d + d2)), float(pn.elastic_energy(x, d - d2))
    e2 = float(pn.elastic_energy(x, d2))
    sc2 = pn_ref.elastic(x, d2, K, st_['cdiffelastic'])[1]
    _close(ea + eb, 2 * float(e_el) + 2 * e2, 4 * (sc + sc2), 'parallelogram law E(a+b)+E(a-b) = 2E(a)+2E(b) of elastic_energy', rel=1e-9)
    c = np.array([case['shiftc'][0], 0.0, case['shiftc'][1]]) * S['l']
    e_sh = pn.elastic_energy(x, d + c)
    _close(e_sh, float(e_el), sc, 'elastic_energy(disregistry + constant %r) vs elastic_energy(disregistry)' % c.tolist(),
           rel=1e-9, extra=sc * 64 * EPS * (np.abs(c).max() + np.abs(d).max()) * N / (np.linalg.norm(S['b'])))
    # object history: further evaluations on the same object, each against the independent formulas
    run_history(case, S, pn, st_, x, d, labels,
                lambda pn_, cur, xs, ds, a_, kw_, labs, tag: judge_terms(pn_, S, K, cur, xs, ds, a_, kw_, labs))
    if _DEFER:
        raise _DEFER[0]
    return labels


# ----------------------------------------------------------------------------- pn_total

def misfit_reference(S, x, d):
    """dx * sum gamma(delta): disregistry (edge, screw) -> fractional coordinates by my own 2x2 solve, gamma through
    E_gsf(a1=, a2=); returns (value, lo, hi, absscale, uv) where [lo, hi] allows either side of a seam (see eval_band)"""
    dx = x[1] - x[0]
    uv = np.linalg.solve(S['B'], np.array([d[:, 0], d[:, 2]]))
    g = S['gamma']
    base, lo, hi, hit = eval_band(g.E_gsf, uv[0], uv[1], True, S['dup'])
    return dx * math.fsum(base), dx * math.fsum(lo), dx * math.fsum(hi), dx * math.fsum(abs(t) for t in base), uv


def blocked_multi(S):
    if _multipoint_broken(S['gamma'], dict(A1=S['A1'], A2=S['A2'])):
        raise Violation('SDVPN.misfit_energy (hence total_energy, solve) cannot run: GammaSurface.pos_to_a12 fails on the '
                        '(N,3) array of disregistry positions', key=K_MULTI)


def my_total(S, st_, x, d, K, mr=None):
    """independent total energy: (value, lowest, highest admissible value (seam band of the misfit term), absscale)"""
    tau, al = st_['tau'], alphas_of(st_)
    L = _default_cutoff() if st_['cutoff'] is None else st_['cutoff']
    mr = misfit_reference(S, x, d) if mr is None else mr
    parts = [(mr[0], mr[3]), pn_ref.elastic(x, d, K, st_['cdiffelastic']), pn_ref.longrange(K.tolist(), S['b'].tolist(), L),
             pn_ref.stress_full(x, d, tau, st_['cdiffstress']) if st_['fullstress'] else pn_ref.stress_alt(x, d, tau),
             pn_ref.nonlocal_(x, d, al) if len(x) > 2 * len(al) else (0.0, 0.0), pn_ref.surface(x, d, st_['beta'], st_['cdiffsurface'])]
    tot = math.fsum(p[0] for p in parts)
    return tot, tot - (mr[0] - mr[1]), tot + (mr[2] - mr[0]), math.fsum(p[1] for p in parts)


def judge_total(pn, S, K, st_, x, d, a, kw, labels):
    """misfit term against the independent conversion; total = sum of the object's six terms; total against the
    independent evaluation of all six formulas"""
    N = len(x)
    exp, lo, hi, sc, uv = misfit_reference(S, x, d)
    condB = float(np.linalg.cond(S['B']))
    got = float(pn.misfit_energy(*a, **kw))
    tolm = 1e-9 * condB * (sc + (x[1] - x[0]) * N * S['Emax'])
    require(math.isfinite(got) and lo - tolm <= got <= hi + tolm,
            lambda: 'misfit_energy (N=%d) = %.17g, dx * sum of gamma at the disregistry positions (independent conversion) = %.17g '
            '(accepted [%.17g, %.17g], tol %.3g)' % (N, got, exp, lo, hi, tolm))
    if hi > lo:
        labels.add('seam_band')
    if np.abs(uv).max() > 1.0:
        labels.add('wraps')
    parts = [float(got), float(pn.elastic_energy(*a, **kw)), float(pn.longrange_energy()), None,
             float(pn.nonlocal_energy(*a, **kw)), float(pn.surface_energy(*a, **kw))]
    try:
        parts[3] = float(pn.stress_energy(*a, **kw))
        tot = pn.total_energy(*a, **kw)
    except ValueError as e:
        if st_['fullstress'] and st_['cdiffstress'] and 'broadcast' in str(e):
            raise Violation('total_energy with fullstress=True, cdiffstress=True: stress_energy raised ValueError(%s)' % e, key=K_CDIFF)
        raise
    ssum = math.fsum(parts)
    sabs = math.fsum(abs(p) for p in parts)
    _close(tot, ssum, sabs, 'total_energy vs misfit+elastic+longrange+stress+nonlocal+surface = %r' % (parts,), rel=1e-12)
    # and against my own evaluation of every formula
    mine, mlo, mhi, msc = my_total(S, st_, x, d, K, mr=(exp, lo, hi, sc, uv))
    L = _default_cutoff() if st_['cutoff'] is None else st_['cutoff']
    tolt = tolm + 1e-10 * msc + 1e-7 * pn_ref.longrange(K.tolist(), S['b'].tolist(), L)[1]
    require(math.isfinite(float(tot)) and mlo - tolt <= float(tot) <= mhi + tolt,
            lambda: 'total_energy (N=%d) = %.17g, independent evaluation of the six documented formulas = %.17g '
            '(accepted [%.17g, %.17g], tol %.3g); the object\'s own terms: %r' % (N, float(tot), mine, mlo, mhi, tolt, parts))
    return float(tot), sabs


def oracle_pn_total(case):
    S = build_pn_system(case['sys'])
    blocked_multi(S)
    st_ = scale_settings(case['set'], S)
    del _DEFER[:]
    pf = case['prof']
    x, d = build_profile(pf, S['b'], S['l'])
    H = _Hand('arr')
    pn = make_sdvpn(S, st_, H=H)
    labels = pn_labels(case, S, d)
    K = np.asarray(pn.K_tensor, dtype=float)           # decided by clause pn_terms
    fx, fd = pf.get('fx') or 'arr', pf.get('fd') or 'arr'
    via = 'setter' if st_['stored'] else 'args'
    a, kw = hand_over(pn, x, d, via, H, fx, fd, bool(case.get('listargs')), labels)
    if st_['stored']:
        labels.add('stored')
    tot, sabs = judge_total(pn, S, K, st_, x, d, a, kw, labels)
    H.verify(' [after the energy evaluations]')
    check_stored(pn, x, d, via)
    form_labels(labels, H, fx, fd)
    # arguments given vs stored give the same number
    if not st_['stored']:
        pn.x = x
        pn.disregistry = d
        _close(pn.total_energy(), float(tot), sabs, 'total_energy() from stored x/disregistry vs total_energy(x, disregistry)', rel=1e-13)
    require(np.array_equal(np.asarray(pn.disregistry), d), 'energy evaluation changed the stored disregistry')
    run_history(case, S, pn, st_, x, d, labels,
                lambda pn_, cur, xs, ds, a_, kw_, labs, tag: judge_total(pn_, S, K, cur, xs, ds, a_, kw_, labs))
    if _DEFER:
        raise _DEFER[0]
    return labels


# ----------------------------------------------------------------------------- solve
# Units: on the unchanged code everything judged here is independent of the units of length and energy (lengths x 1e-12
# .. 1e4, energies per area x 1e-8 .. 1e8) except three absolute tolerances that no docstring states - open findings
# K_ASSERT (pos_to_a12's in-plane assertion: legitimate positions refused in cells of numerically small size), K_XVREF
# (out-of-plane xvect accepted there), K_ARCSTEP (incompatible xstep accepted for steps < 2e-8).  Not judged: the
# SDVPN validations of its inputs (x evenly spaced, out-of-plane disregistry component, Burgers vector in the slip
# plane use np.allclose / np.isclose with numpy's absolute 1e-8: invalid input is accepted at small length scales; valid
# input is accepted at every scale generated here), the speed of solve in small cells (see gens_c18._lk_solve).
# Input classes deliberately left out (not documented to work, so nothing is asserted for them): alternative a1vect /
# a2vect in 4-index Miller-Bravais form (the conversion methods document "crystal vector" and take the dot product with
# the 3 box vectors); integer-typed Cartesian pos arrays (in-plane positions with whole-number Cartesian components
# exist only for special planes; integer-typed a1/a2, x/y and vectors are covered).

SOLVE_CPU_LIMIT = 90.0


class _SolveTimeout(BaseException):
    pass


def _on_alarm(signum, frame):
    raise _SolveTimeout()


_DECOY = {'tau': [[0.0, 0.001, 0.0], [0.001, 0.002, 0.0], [0.0, 0.0, 0.0]], 'alpha': [0.01, 0.02],
          'beta': [[0.1, 0.0, 0.0], [0.0, 0.0, 0.0], [0.0, 0.0, 0.2]], 'cutoff': 50.0}


def _total_in_band(pn, S, st_, x, d, K, a, kw, what):
    e, lo, hi, sc = my_total(S, st_, x, d, K)
    got = float(pn.total_energy(*a, **kw))
    require(math.isfinite(got) and lo - 1e-8 * sc <= got <= hi + 1e-8 * sc,
            lambda: '%s = %.15g, independent evaluation %.15g (accepted [%.15g, %.15g])' % (what, got, e, lo, hi))


def oracle_solve(case):
    S = build_pn_system(case['sys'])
    blocked_multi(S)
    del _DEFER[:]
    st_ = scale_settings(case['set'], S)
    pf = case['prof']
    x, d = build_profile(pf, S['b'], S['l'])
    fx, fd = pf.get('fx') or 'arr', pf.get('fd') or 'arr'
    H = _Hand('arr')
    N = len(x)
    if N <= 2 * len(alphas_of(st_)):
        st_['alpha'] = None
    h = case.get('hist')
    sv = h['settings_via'] if h else 'ctor'
    if sv == 'ctor':
        pn = make_sdvpn(S, st_, H=H)
    else:
        # the object is built with other settings; the real ones reach it through the setters / solve's keywords
        decoy = dict(st_)
        decoy.update(scale_settings(_DECOY, S))
        for f in ('fullstress', 'cdiffelastic', 'cdiffsurface'):
            decoy[f] = not st_[f]
        pn = make_sdvpn(S, decoy)
    labels = pn_labels(case, S, d)
    K = np.asarray(pn.K_tensor, dtype=float)
    e0, e0lo, e0hi, sc0 = my_total(S, st_, x, d, K)
    kw = dict(min_options=dict(case['options']))
    if not case['default_method']:
        kw['min_method'] = case['method']
    labels.add('m_' + case['method'])
    tb = st_.get('tbform') or 'arr'
    real = dict(tau=H(st_['tau'], 'tau', form=tb), alpha=0.0 if st_['alpha'] is None else st_['alpha'], beta=H(st_['beta'], 'beta', form=tb),
                cutofflongrange=_default_cutoff() if st_['cutoff'] is None else st_['cutoff'], fullstress=st_['fullstress'],
                cdiffelastic=st_['cdiffelastic'], cdiffsurface=st_['cdiffsurface'], cdiffstress=st_['cdiffstress'])
    if sv == 'setters':
        for k_, v_ in real.items():
            setattr(pn, k_, v_)
        labels.add('history_settings_by_setters')
    elif sv == 'solve_kw':
        kw.update(real)
        labels.add('history_settings_by_solve_kw')
    # object history: an energy evaluation with another (x, disregistry) given as arguments before the solve
    x2 = d2 = None
    la = bool(case.get('listargs'))
    if h:
        labels.add('history')
        p2 = step_profile(h, case['prof'], case['prof'], nmax=21)
        x2, d2 = build_profile(p2, S['b'], S['l'])
        fx2, fd2 = p2.get('fx') or 'arr', p2.get('fd') or 'arr'
        if len(x2) <= 2 * len(alphas_of(st_)):
            h = None
    pre = bool(h) and sv != 'solve_kw'          # (with solve_kw the real settings are not in place before the solve)
    stored_first = pre and bool(h['stored_first'])
    # the caller's x array and initial guess in the drawn forms; kept: they must be unchanged after the solve
    xg, dg = H(x, 'x', form=fx), H(d, 'disregistry (initial guess)', form=fd)
    form_labels(labels, H, fx, fd)
    if pre:
        if stored_first:
            pn.x = xg
            pn.disregistry = dg
            labels.add('history_eval_between_store_and_solve')
        if len(x2) != N:
            labels.add('history_new_len')
        elif abs((x2[1] - x2[0]) - (x[1] - x[0])) > 1e-9 * (x[1] - x[0]):
            labels.add('history_same_len_new_spacing')
        else:
            labels.add('history_same_grid' if np.array_equal(x2, x) else 'history_shifted_grid')
        try:
            _total_in_band(pn, S, st_, x2, d2, K, hand_over(pn, x2, d2, 'args', H, fx2, fd2, la, labels)[0], {},
                           'total_energy(x, disregistry) [history: other grid (N %d, spacing %.6g) given as arguments before the solve]'
                           % (len(x2), x2[1] - x2[0]))
            H.verify(' [energy evaluation before the solve]')
        except ValueError as e:
            if st_['fullstress'] and st_['cdiffstress'] and 'broadcast' in str(e):
                raise Violation('total_energy with fullstress=True, cdiffstress=True: stress_energy raised ValueError(%s)' % e, key=K_CDIFF)
            raise
    # safety net (CPU-time alarm): a line search that runs away never returns; such a case is skipped, not judged
    old_handler = signal.signal(signal.SIGVTALRM, _on_alarm)
    signal.setitimer(signal.ITIMER_VIRTUAL, SOLVE_CPU_LIMIT)
    try:
        if stored_first:
            pn.solve(**kw)
        elif st_['via_solve_kw']:
            pn.solve(x=xg, disregistry=dg, **kw)
        else:
            pn.x = xg
            pn.disregistry = dg
            pn.solve(**kw)
    except _SolveTimeout:
        return labels | {'timeout_skipped'}
    except ValueError as e:
        if st_['fullstress'] and st_['cdiffstress'] and 'broadcast' in str(e):
            raise Violation('solve with fullstress=True, cdiffstress=True: stress_energy raised ValueError(%s)' % e, key=K_CDIFF)
        raise
    finally:
        signal.setitimer(signal.ITIMER_VIRTUAL, 0)
        signal.signal(signal.SIGVTALRM, old_handler)
    d1 = np.asarray(pn.disregistry, dtype=float)
    require(d1.shape == d.shape, lambda: 'solve changed the disregistry shape %r -> %r' % (d.shape, d1.shape))
    require(bool(np.all(np.isfinite(d1))), 'solve produced a non-finite disregistry')
    require(np.array_equal(d1[0], d[0]) and np.array_equal(d1[-1], d[-1]),
            lambda: 'solve moved the end disregistries: first %r -> %r, last %r -> %r' % (d[0].tolist(), d1[0].tolist(), d[-1].tolist(), d1[-1].tolist()))
    require(not np.any(d1[:, 1] != 0.0), lambda: 'solve produced an out-of-plane disregistry component %r' % d1[:, 1].tolist())
    _cmp(pn.x, x, 0.0, 'x after solve')
    # the caller's x, initial guess (whatever their form: the solution is a new float array) and tau/beta are unchanged
    H.verify(' [after solve(); x given as %s, initial guess as %s]' % (fx, fd))
    if sv == 'solve_kw':
        # the keywords are documented to change the stored settings
        _cmp(pn.tau, real['tau'], 0.0, 'tau after solve(tau=)'); _cmp(pn.beta, real['beta'], 0.0, 'beta after solve(beta=)')
        require(tuple(float(t) for t in pn.alpha) == tuple(alphas_of(st_)), lambda: 'alpha after solve(alpha=%r): %r' % (real['alpha'], pn.alpha))
        require(float(pn.cutofflongrange) == float(real['cutofflongrange']), lambda: 'cutofflongrange after solve(cutofflongrange=): %r' % pn.cutofflongrange)
        for f in ('fullstress', 'cdiffelastic', 'cdiffsurface', 'cdiffstress'):
            require(bool(getattr(pn, f)) == bool(st_[f]), lambda: '%s after solve(%s=%r): %r' % (f, f, st_[f], getattr(pn, f)))
    e1, e1lo, e1hi, sc1 = my_total(S, st_, x, d1, K)
    tol = 1e-9 * max(sc0, sc1)
    require(e1lo <= e0hi + tol, lambda: 'solve(%s, %r) raised the total energy: %.15g -> %.15g (independent evaluation, tol %.3g)'
            % (case['method'], case['options'], e0, e1, tol))
    # the object's own number agrees with the independent one after the solve
    got = float(pn.total_energy())
    require(math.isfinite(got) and e1lo - 1e-8 * sc1 <= got <= e1hi + 1e-8 * sc1,
            lambda: 'total_energy() after solve = %.15g, independent evaluation %.15g (accepted [%.15g, %.15g])%s'
            % (got, e1, e1lo, e1hi, ' [history: another grid was evaluated as arguments between storing x and solve()]'
               if stored_first else ''))
    res = pn.res
    require(res is not None and hasattr(res, 'x') and len(res.x) == 2 * (N - 2), 'solve did not keep the optimizer result over 2(N-2) variables')
    # the stored disregistry IS the minimiser's result (res: "scipy.optimize.minimize result" of the solve): interior edge
    # and screw components = res.x
    rx = np.asarray(res.x, dtype=float)
    require(np.array_equal(d1[1:-1, 0], rx[:N - 2]) and np.array_equal(d1[1:-1, 2], rx[N - 2:]),
            lambda: 'the disregistry stored by solve is not the minimiser\'s result res.x (initial guess given as %s): edge %r / screw %r, '
            'res.x = %r' % (fd, d1[1:-1, 0].tolist(), d1[1:-1, 2].tolist(), rx.tolist()))
    # (res.fun is not compared: scipy's L-BFGS-B may report the value of another iterate than res.x when it stops on maxiter)
    if h and h['post']:
        # ... and the same evaluations again on the solved object: the other grid as arguments, then the stored one
        _total_in_band(pn, S, st_, x2, d2, K, hand_over(pn, x2, d2, 'args', H, fx2, fd2, la, labels)[0], {},
                       'total_energy(x, disregistry) [history: other grid (N %d, spacing %.6g) given as arguments after the solve]'
                       % (len(x2), x2[1] - x2[0]))
        _total_in_band(pn, S, st_, x, d1, K, (), {}, 'total_energy() [history: stored solution again after evaluating another grid]')
        H.verify(' [energy evaluations after the solve]')
        _cmp(pn.disregistry, d1, 0.0, 'stored solution after further energy evaluations')
        labels.add('history_post_solve')
    if np.abs(d1 - d).max() > 1e-9 * S['l']:
        labels.add('moved')
    if e1 < e0 - 1e-6 * abs(e0):
        labels.add('lowered')
    if 'nt' in labels and N < 7:
        labels.discard('nt')
    if _DEFER:
        raise _DEFER[0]
    return labels


# ----------------------------------------------------------------------------- halfwidth

def _hw_energy(pn, b_vec, xi, L, dx, am):
    nh = int(round(L / dx))
    x = np.arange(-nh, nh + 1) * dx

    def E(w):
        xx, dd = am.defect.pn_arctan_disregistry(x=x, burgers=b_vec, halfwidth=w, normalize=True)
        return float(pn.total_energy(xx, dd))
    # coarse scan over [0.5, 2] xi0 then golden section in the bracketing interval
    ws = [xi * (0.5 * 4.0 ** (i / 6.0)) for i in range(7)]
    es = [E(w) for w in ws]
    k = int(np.argmin(es))
    if k == 0 or k == len(ws) - 1:
        return ws[k], True
    a, c = ws[k - 1], ws[k + 1]
    gr = (math.sqrt(5) - 1) / 2
    x1, x2 = c - gr * (c - a), a + gr * (c - a)
    f1, f2 = E(x1), E(x2)
    for _ in range(8):
        if f1 < f2:
            c, x2, f2 = x2, x1, f1
            x1 = c - gr * (c - a)
            f1 = E(x1)
        else:
            a, x1, f1 = x1, x2, f2
            x2 = a + gr * (c - a)
            f2 = E(x2)
    return 0.5 * (a + c), False


def oracle_halfwidth(case):
    import atomman as am
    l, e = _scales(case.get('lk'), case.get('ej'))
    ke = e / l
    b = case['b'] * l
    fr = case['frame']
    m, n = np.array(_AX[fr[0]]), np.array(_AX[fr[1]])
    xi_v = np.cross(m, n)
    M = np.array([m, n, xi_v])
    edge = case['char'] == 'edge'
    # K diagonal in the [m,n,xi] frame, the Burgers direction carries Kbb
    kd = [case['Kbb'], case['Kother'][0], case['Kother'][1]] if edge else [case['Kother'][0], case['Kother'][1], case['Kbb']]
    K_sol = M.T @ np.diag(kd) @ M * ke
    b_mnx = np.array([b, 0.0, 0.0]) if edge else np.array([0.0, 0.0, b])
    other = np.array([0.0, 0.0, case['c'] * l]) if edge else np.array([case['c'] * l, 0.0, 0.0])
    xi0 = case['xi_over_b'] * b
    gamma0 = case['Kbb'] * ke * b * b / (4 * math.pi ** 2 * xi0)            # xi0 = K b^2 / (4 pi^2 gamma0)
    n1, n2 = case['n1'], case['n2']
    rows = [(i, j) for i in range(n1) for j in range(n2)]
    gam = am.defect.GammaSurface(a1vect=M.T @ b_mnx, a2vect=M.T @ other, a1=[i / n1 for i, j in rows], a2=[j / n2 for i, j in rows],
                                 E_gsf=[gamma0 * math.sin(math.pi * i / n1) ** 2 for i, j in rows])
    if _multipoint_broken(gam, dict(A1=M.T @ b_mnx, A2=M.T @ other)):
        raise Violation('SDVPN.total_energy cannot run: GammaSurface.pos_to_a12 fails on (N,3) arrays', key=K_MULTI)
    vol = _hand_volterra_class(am)(m, n, K_sol, M.T @ b_mnx, np.eye(3))
    pn = am.defect.SDVPN(volterra=vol, gamma=gam, cdiffelastic=bool(case['cdiffelastic']))
    dx = b / case['kstep']
    res = []
    for Lf in (12.0, 40.0):
        w, edge_hit = _hw_energy(pn, b_mnx, xi0, Lf * xi0, dx, am)
        require(not edge_hit, lambda: 'energy over arctangent profiles has no interior minimum in [0.5,2] xi0 (L=%g xi0): lowest at w=%.4g, xi0=%.4g' % (Lf, w, xi0))
        err = abs(w / xi0 - 1.0)
        bound = 4.0 / Lf + 0.05
        require(err <= bound, lambda: 'half-width minimising the energy over arctangent profiles is %.5g, classical K b^2/(4 pi^2 gamma0) = %.5g '
                '(relative error %.3g > %.3g; L = %g xi0, spacing b/%d)' % (w, xi0, err, bound, Lf, case['kstep']))
        res.append(err)
    require(res[1] <= res[0] + 0.01, lambda: 'half-width error grows with the domain: %.4g at L=12 xi0, %.4g at L=40 xi0' % (res[0], res[1]))
    labels = {'char_' + case['char'], 'frame_' + ''.join(fr), 'nt'} | scale_labels(case.get('lk'), case.get('ej'))
    labels.add('err40<2%' if res[1] < 0.02 else ('err40<5%' if res[1] < 0.05 else 'err40>=5%'))
    return labels


# ----------------------------------------------------------------------------- arctan

def oracle_arctan(case):
    import atomman as am
    l = _scales(case.get('lk'))[0]
    n, step = case['n'], case['step'] * l
    xmax = step * (n - 1) / 2.0
    mode = case['xmode']
    al = case['aslist']
    labels = {'x_' + mode, 'b_' + case['bkind']} | scale_labels(case.get('lk'))
    H = _Hand('arr')
    xf = case.get('xform') or 'arr'
    c, w = case['center'] * l, case['w'] * l
    uniform = True
    if mode == 'x':
        xs = case['x0'] * l + step * np.arange(n)
        if case.get('xdec') is not None:
            # many decades in one call: x = center + s * halfwidth * 10^e, e in [-6, 6], both signs, ascending
            rng = np.random.default_rng(case['xdec'])
            m_ = max(n, 8)
            xs = np.unique(c + rng.choice([-1.0, 1.0], m_) * w * 10.0 ** rng.uniform(-6.0, 6.0, m_))
            n = len(xs)
            uniform = False
            labels.add('x_decades')
        kwx = {'x': H(xs, 'x', form=xf)}
        if xf != 'arr':
            labels.add('xform_narrow' if G.is_narrow(xf) else 'xform_' + xf)
        labels.update(t for t in H.used if t.startswith('narrow'))
        if 'int' in H.used:
            labels.add('int_typed')
    else:
        if case.get('xnear') is not None and mode in ('xmax+xstep', 'all3'):
            # near-threshold: xmax a relative 10^-k off xstep (xnum - 1) / 2
            xmax = xmax * (1.0 + float(case.get('xnear_sign') or 1.0) * 10.0 ** (-case['xnear']))
            labels.add('near_xmax')
        xs = np.linspace(-xmax, xmax, n)
        kwx = {'xmax+xstep': dict(xmax=xmax, xstep=step), 'xmax+xnum': dict(xmax=xmax, xnum=n),
               'xstep+xnum': dict(xstep=step, xnum=n), 'all3': dict(xmax=xmax, xstep=step, xnum=n)}[mode]
    xlisty = mode == 'x' and (xf in ('list', 'tuple', 'intlist') or G.is_narrow(xf))
    if case['bkind'] == 'vec':
        bv = np.array(case['b'], dtype=float) * l
        kwb = {'burgers': bv.tolist() if al else bv}
    elif case['bkind'] == 'float':
        bv = np.array([case['bmag'] * l])
        kwb = {'burgers': case['bmag'] * l}
    else:
        bv = np.array([1.0, 0.0, 0.0])           # the documented default Burgers vector (not scaled)
        kwb = {}
    kw = dict(center=c, halfwidth=w)
    if c == 0.0 and w == 1.0:
        kw = {}
    norm, shift = case['normalize'], case['shift']
    try:
        return _arctan_judge(am, case, labels, H, xs, n, step, uniform, kwx, kwb, kw, bv, c, w, norm, shift, mode, xmax, l)
    except TypeError as e:
        if xlisty and 'unsupported operand' in str(e) and _tree_arcx_broken():
            raise Violation('pn_arctan_disregistry / pn_arctan_disldensity with x given as %s (docstring: array-like) raised TypeError(%s)'
                            % (xf, e), key=K_ARCX) from None
        raise
    except Violation as v:
        if v.key is None and xlisty and _tree_arcx_broken():
            raise Violation('x given as %s (exactly representable values): %s' % (xf, v.detail), key=K_ARCX) from None
        raise


def _arctan_judge(am, case, labels, H, xs, n, step, uniform, kwx, kwb, kw, bv, c, w, norm, shift, mode, xmax, l):
    rx, d = am.defect.pn_arctan_disregistry(**kwx, **kwb, **kw, normalize=norm, shift=shift)
    _cmp(rx, xs, 1e-12 * np.abs(xs).max(), 'x returned by pn_arctan_disregistry(%s)' % mode)
    raw = pn_ref.arctan_disregistry(xs, bv, c, w)
    bn = float(np.linalg.norm(bv))
    fac = 1.0
    if norm:
        fac = bn / float(np.linalg.norm(raw[-1] - raw[0]))
        exp = (raw - raw[0]) * fac
        labels.add('normalize')
    else:
        exp = raw
    if not shift:
        exp = exp - bv / 2.0
        labels.add('noshift')
    _cmp(d, exp, 1e-12 * bn * fac, 'pn_arctan_disregistry(normalize=%r, shift=%r) vs b/pi arctan((x-c)/xi) + b/2' % (norm, shift))
    if norm:
        _cmp(np.asarray(d)[-1] - np.asarray(d)[0], bv, 1e-12 * bn, 'end-to-end difference of the normalised disregistry vs the Burgers vector')
    rx2, rho = am.defect.pn_arctan_disldensity(**kwx, **kwb, **kw, normalize=norm)
    _cmp(rx2, xs, 1e-12 * np.abs(xs).max(), 'x returned by pn_arctan_disldensity')
    rref = pn_ref.arctan_density(xs, bv, c, w) * fac
    _cmp(rho, rref, 1e-12 * bn / w * fac, 'pn_arctan_disldensity(normalize=%r) vs b/pi xi/((x-c)^2+xi^2)' % norm)
    # ... and every row relative to ITS OWN magnitude (the rows of one call may span many decades)
    rbad = np.abs(np.asarray(rho, dtype=float) - rref) > 4e-12 * np.abs(rref) + 1e-300
    require(not rbad.any(), lambda: 'pn_arctan_disldensity: row %d (x = %r) is %r, b/pi xi/((x-c)^2+xi^2) = %r (judged relative to the magnitude of that row)'
            % (int(np.argwhere(rbad)[0][0]), xs[np.argwhere(rbad)[0][0]], np.asarray(rho)[np.argwhere(rbad)[0][0]].tolist(), rref[np.argwhere(rbad)[0][0]].tolist()))
    H.verify(' [pn_arctan_disregistry / pn_arctan_disldensity]')
    # density is the derivative of the disregistry: central differences of the returned profile
    if uniform and n >= 5 and step <= 0.25 * w:
        dd = np.asarray(d, dtype=float)
        num = (dd[2:] - dd[:-2]) / (xs[2:] - xs[:-2])[:, None]
        # |f'''| <= 2 b /(pi xi^3): truncation h^2/6 f'''
        bnd = step ** 2 / 6.0 * 2.0 * bn * fac / (math.pi * w ** 3) * 1.5 + 1e-9 * bn * fac / w
        err = np.abs(num - np.asarray(rho)[1:-1]).max()
        require(err <= bnd, lambda: 'disldensity is not the derivative of the disregistry: central difference differs by %.3g (bound %.3g)' % (err, bnd))
        labels.add('derivative')
    # documented refusals
    if mode == 'all3':
        try:
            am.defect.pn_arctan_disregistry(xmax=xmax, xstep=step * 1.5, xnum=n)
        except ValueError as e:
            require('Incompatible parameters' in str(e), lambda: 'incompatible xmax/xstep/xnum raised ValueError(%s)' % e)
            labels.add('refusal_checked')
        else:
            # the test is np.isclose(dx, xstep) with numpy's absolute 1e-8 added to the relative 1e-5: open finding for
            # steps below 2e-8 working units (keyed only for scaled-down cases)
            raise Violation('pn_arctan_disregistry accepted incompatible xmax=%r, xstep=%r (= 1.5 x 2 xmax/(xnum-1)), xnum=%d'
                            % (xmax, step * 1.5, n), key=K_ARCSTEP if step <= 2e-7 else None)
    labels.add('nt')
    return labels


# ----------------------------------------------------------------------------- decades
# Many decades in one call: the rows of ONE query array span 8-11 orders of magnitude; every conversion is judged row by
# row against the same independent basis algebra as in clauses coords / coords_multi, each row relative to ITS OWN magnitude
# (a whole-array normalisation, a clean-up of "small" entries relative to the largest one shows), and against the call with
# that row alone; E_gsf / delta of the array equal E_gsf / delta of every row alone.

def _rows(got, exp, rowtol, what, mags):
    got = np.asarray(got, dtype=float)
    exp = np.asarray(exp, dtype=float)
    require(got.shape == exp.shape, lambda: '%s: shape %r, expected %r' % (what, got.shape, exp.shape))
    require(bool(np.all(np.isfinite(got))), lambda: '%s: not finite: %r' % (what, got))
    err = np.abs(got - exp)
    if err.ndim == 2:
        err = err.max(axis=1)
    bad = err > rowtol
    if bad.any():
        i = int(np.argwhere(bad)[0][0])
        raise Violation('%s: row %d (magnitude %.3g) is %r, expected %r: off by %.3g, judged relative to the magnitude of that row '
                        '(tol %.3g); the rows of this call span magnitudes %.3g .. %.3g'
                        % (what, i, float(np.asarray(mags).reshape(-1)[i]), got[i].tolist(), exp[i].tolist(), float(err[i]), float(np.asarray(rowtol).reshape(-1)[i]),
                           float(np.min(mags)), float(np.max(mags))))


def oracle_decades(case):
    s = case['surf']
    g, info = build_surface(s)
    labels = surface_labels(s, info)
    A1, A2 = info['A1'], info['A2']
    cond = gsf_ref.basis_cond(A1, A2)
    L = max(np.linalg.norm(A1), np.linalg.norm(A2))
    q = np.array(case['q'], dtype=float)
    u, v = q[:, 0].copy(), q[:, 1].copy()
    n = len(q)
    mags = np.maximum(np.abs(u), np.abs(v))
    sm = bool(case['smooth'])
    form = case.get('form') or 'arr'
    H = _Hand(form)
    span = math.log10(mags.max() / mags.min())
    labels.update({'form_' + form, 'smooth' if sm else 'nearest', 'decades_%d' % int(span), 'decades>=8' if span >= 8.0 else 'decades<8'})
    xv = None
    if case['xv'] is not None:
        xv = case['xv'][0] * A1 + case['xv'][1] * A2
        labels.add('xvect')
    kw_x = {} if xv is None else {'xvect': xv}
    P = gsf_ref.frac_to_pos(u, v, A1, A2)
    X, Y = gsf_ref.pos_to_xy(P, A1, A2, xv)
    tp = 2e-14 * L * mags                    # positions, plotting coordinates of a row
    tf = 2e-13 * cond * mags                 # fractional coordinates of a row
    # --- the array calls, row by row
    p = g.a12_to_pos(H(u, 'a1'), H(v, 'a2'))
    _rows(p, P, tp, 'a12_to_pos(%d rows)' % n, mags)
    x1, y1 = _shape_pair(g.pos_to_xy(H(P, 'pos'), **kw_x), n, 'pos_to_xy')
    _rows(x1, X, 2 * tp, 'pos_to_xy x', mags); _rows(y1, Y, 2 * tp, 'pos_to_xy y', mags)
    x2, y2 = _shape_pair(g.a12_to_xy(H(u, 'a1'), H(v, 'a2'), **kw_x), n, 'a12_to_xy')
    _rows(x2, X, 3 * tp, 'a12_to_xy x', mags); _rows(y2, Y, 3 * tp, 'a12_to_xy y', mags)
    p2 = g.xy_to_pos(H(X, 'x'), H(Y, 'y'), **kw_x)
    _rows(p2, P, 4 * tp, 'xy_to_pos(%d rows)' % n, mags)
    gu, gv = _shape_pair(g.pos_to_a12(H(P, 'pos')), n, 'pos_to_a12')
    _rows(gu, u, tf, 'pos_to_a12 a1', mags); _rows(gv, v, tf, 'pos_to_a12 a2', mags)
    hu, hv = _shape_pair(g.xy_to_a12(H(X, 'x'), H(Y, 'y'), **kw_x), n, 'xy_to_a12')
    _rows(hu, u, 2 * tf, 'xy_to_a12 a1', mags); _rows(hv, v, 2 * tf, 'xy_to_a12 a2', mags)
    H.verify(' [conversions of an array whose rows span many decades]')
    # --- every row alone gives the row of the array call
    for i in range(n):
        m1 = mags[i:i + 1]
        _rows(np.asarray(g.a12_to_pos(float(u[i]), float(v[i]))).reshape(1, 3), np.asarray(p)[i:i + 1], tp[i:i + 1], 'a12_to_pos(row %d alone) vs its row of the array call' % i, m1)
        r = g.pos_to_a12(P[i])
        _rows([float(r[0])], [float(np.asarray(gu)[i])], tf[i:i + 1], 'pos_to_a12(row %d alone) a1 vs its row of the array call' % i, m1)
        _rows([float(r[1])], [float(np.asarray(gv)[i])], tf[i:i + 1], 'pos_to_a12(row %d alone) a2 vs its row of the array call' % i, m1)
        r = g.pos_to_xy(P[i], **kw_x)
        _rows([float(r[0])], [float(np.asarray(x1)[i])], 2 * tp[i:i + 1], 'pos_to_xy(row %d alone) x vs its row of the array call' % i, m1)
        _rows([float(r[1])], [float(np.asarray(y1)[i])], 2 * tp[i:i + 1], 'pos_to_xy(row %d alone) y vs its row of the array call' % i, m1)
        r = g.xy_to_a12(float(X[i]), float(Y[i]), **kw_x)
        _rows([float(np.asarray(r[0]).reshape(()))], [float(np.asarray(hu)[i])], 2 * tf[i:i + 1], 'xy_to_a12(row %d alone) a1 vs its row of the array call' % i, m1)
    # --- energies / plane separations: the array call equals the single-row calls; the three ways of giving the rows agree
    fns = [('E_gsf', g.E_gsf, info['Erange'])]
    if info['D'] is not None:
        fns.append(('delta', g.delta, info['Drange']))
    ok = np.ones(n, dtype=bool)
    if not sm:
        ok = np.array([not (gsf_ref.nearest_index(a, info['n1'], 1e-7)[1] or gsf_ref.nearest_index(b, info['n2'], 1e-7)[1]) for a, b in zip(u, v)])
        if not ok.all():
            labels.add('tie_exempt')
    for name, fn, rng in fns:
        seam = bool(s['dup']) or name == 'delta'
        ea = np.asarray(fn(a1=H(u, 'a1'), a2=H(v, 'a2'), smooth=sm), dtype=float)
        require(ea.shape == (n,), lambda: '%s(a1=, a2=) returned shape %r for %d rows' % (name, ea.shape, n))
        e1 = np.array([float(fn(a1=float(a), a2=float(b), smooth=sm)) for a, b in zip(u, v)])
        _cmp(ea[ok], e1[ok], 1e-9 * rng, '%s(a1=, a2=, smooth=%r) of an array whose rows span many decades vs every row alone' % (name, sm))
        base, lo, hi, hit = eval_band(fn, u, v, sm, seam)
        ep = np.asarray(fn(pos=H(P, 'pos'), smooth=sm), dtype=float)
        _in_band(ep[ok], lo[ok], hi[ok], 1e-8 * rng * cond, '%s(pos=(%d,3) array, smooth=%r) vs %s(a1=, a2=)' % (name, n, sm, name))
        ep1 = np.array([float(fn(pos=P[i], smooth=sm)) for i in range(n)])
        _in_band(ep1[ok], lo[ok], hi[ok], 1e-8 * rng * cond, '%s(pos= one row alone, smooth=%r) vs %s(a1=, a2=)' % (name, sm, name))
        # (a row exactly on an integer line of a surface without blending may land on either side, see eval_band)
        off = ok & ~np.array([sm and seam and (_near_int(a) or _near_int(b)) for a, b in zip(u, v)])
        _cmp(ep[off], ep1[off], 1e-9 * rng * cond, '%s(pos=, smooth=%r) of the array vs every row alone' % (name, sm))
        exy = np.asarray(fn(x=H(X, 'x'), y=H(Y, 'y'), smooth=sm, **kw_x), dtype=float)
        _in_band(exy[ok], lo[ok], hi[ok], 1e-8 * rng * cond, '%s(x=, y=, smooth=%r) vs %s(a1=, a2=)' % (name, sm, name))
    H.verify(' [E_gsf / delta]')
    labels.add('nt')
    return labels


# ----------------------------------------------------------------------------- result ledger / caller-side mutation: surfaces
# A GammaSurface is a value: nothing the caller does afterwards with the arrays and the Box it handed over (overwriting them
# in place, re-defining the Box through its setters, building other surfaces from them), nothing that is done with this or
# with another surface, and nothing the caller does to the arrays it got back changes (a) any array / text the surface has
# returned (kept in a ledger and compared bit for bit) or (b) any answer of the surface (read again after every
# operation); and no call changes the caller's objects.  The first and the last reading are judged as in clause interp.

def overwrite(obj, new):
    """the caller overwrites its own array / list in place; False when the object is immutable (tuple, read-only array)"""
    if isinstance(obj, np.ndarray):
        if not obj.flags.writeable:
            return False
        with np.errstate(all='ignore'):
            obj[...] = new
        return True
    if isinstance(obj, list):
        new = np.asarray(new).tolist()
        for i, t in enumerate(new):
            if isinstance(obj[i], list):
                obj[i][:] = t
            else:
                obj[i] = t
        return True
    return False


def redefine_box(box, how, f, V):
    f = 1.5 * abs(float(f))
    W = f * np.roll(V, 1, axis=1)[[1, 2, 0]]                 # another right-handed cell
    a = f * float(np.linalg.norm(V[0]))
    if how == 'vects':
        box.vects = W
    elif how == 'set_vectors':
        box.set_vectors(avect=W[0], bvect=W[1], cvect=W[2])
    elif how == 'set_abc':
        box.set_abc(a=1.1 * a, b=1.3 * a, c=0.9 * a, alpha=80.0, beta=95.0, gamma=107.0)
    elif how == 'set_lengths':
        box.set_lengths(lx=1.1 * a, ly=1.3 * a, lz=0.9 * a, xy=0.2 * a, xz=-0.1 * a, yz=0.3 * a)
    elif how == 'origin':
        box.origin = [1.5 * a, -2.0 * a, 0.25 * a]
    else:
        raise KeyError(how)


def _flat(raw):
    """the arrays / scalars / texts of a returned object, in order"""
    if isinstance(raw, (tuple, list)):
        return list(raw)
    return [raw]


def _copy_of(raw):
    return [t if isinstance(t, str) else np.array(t).copy() for t in _flat(raw)]


def _fresh(cop):
    return [t if isinstance(t, str) else t.copy() for t in cop]


def _same_bits(a, b):
    if isinstance(a, str) or isinstance(b, str):
        return a == b
    a, b = np.asarray(a), np.asarray(b)
    return a.shape == b.shape and a.dtype == b.dtype and bool(np.array_equal(a, b, equal_nan=True))


GSF_STATE = ('a1vect', 'a2vect', 'planenormal', 'boxvects', 'data')      # what the class hands out as its state


def gsf_read(g, Q, has_delta, seed):
    """every answer of surface g for the query set Q, read in an order fixed by seed: {name: (object returned, copies)}"""
    names = ['E_smooth', 'E_nearest', 'pos', 'xy', 'a12', 'xy2pos', 'xy2a12', 'a12xy', 'E_pos', 'E_xy', 'model'] + list(GSF_STATE)
    if has_delta:
        names += ['D_smooth', 'D_nearest', 'D_pos']
    out = {}
    for i in np.random.default_rng(seed).permutation(len(names)):
        nm = names[int(i)]
        u, v, P, X, Y = Q['u'], Q['v'], Q['P'], Q['X'], Q['Y']
        if nm == 'E_smooth':
            raw = g.E_gsf(a1=u, a2=v, smooth=True)
        elif nm == 'E_nearest':
            raw = g.E_gsf(a1=u, a2=v, smooth=False)
        elif nm == 'D_smooth':
            raw = g.delta(a1=u, a2=v, smooth=True)
        elif nm == 'D_nearest':
            raw = g.delta(a1=u, a2=v, smooth=False)
        elif nm == 'pos':
            raw = g.a12_to_pos(u, v)
        elif nm == 'xy':
            raw = g.pos_to_xy(P)
        elif nm == 'a12':
            raw = g.pos_to_a12(P)
        elif nm == 'xy2pos':
            raw = g.xy_to_pos(X, Y)
        elif nm == 'xy2a12':
            raw = g.xy_to_a12(X, Y)
        elif nm == 'a12xy':
            raw = g.a12_to_xy(u, v)
        elif nm == 'E_pos':
            raw = g.E_gsf(pos=P)
        elif nm == 'D_pos':
            raw = g.delta(pos=P, smooth=False)
        elif nm == 'E_xy':
            raw = g.E_gsf(x=X, y=Y, smooth=False)
        elif nm == 'model':
            raw = g.model().json()
        elif nm == 'boxvects':
            raw = (g.box.vects, g.box.origin)
        elif nm == 'data':
            raw = g.data.to_numpy(dtype=float)
        else:
            raw = getattr(g, nm)
        out[nm] = (raw, _copy_of(raw))
    return out


def same_answers(base, now, what):
    for nm in sorted(base):
        for k, (a, b) in enumerate(zip(base[nm][1], now[nm][1])):
            if isinstance(a, str):
                require(a == b, lambda: '%s: %s changed:\nbefore %s\nnow    %s' % (what, nm, a[:400], b[:400]))
                continue
            require(a.shape == b.shape, lambda: '%s: %s changed shape %r -> %r' % (what, nm, a.shape, b.shape))
            sc = float(np.abs(a).max()) if a.size else 0.0
            dd = float(np.abs(a - b).max()) if a.size else 0.0
            require(dd <= 1e-13 * sc and bool(np.all(np.isfinite(b))), lambda: '%s: answer %s%s of the surface changed by %.3g (relative %.3g)\nbefore\n%r\nnow\n%r'
                    % (what, nm, '[%d]' % k if len(base[nm][1]) > 1 else '', dd, dd / sc if sc else float('inf'), a, b))


def ledger_intact(ledger, what):
    """everything that has been returned so far still holds the bits it was returned with"""
    for tag, nm, raw, cop in ledger:
        for k, (a, b) in enumerate(zip(_flat(raw), cop)):
            require(_same_bits(a, b), lambda: '%s: the %s returned earlier by %s (%s) has changed although the caller did not touch it:\nreturned\n%r\nnow\n%r'
                    % (what, type(a).__name__, nm, tag, b, a))


def oracle_ledger(case):
    import atomman as am
    s, s2 = case['surf'], case['surf2']
    kw1, info = surface_args(s)
    labels = surface_labels(s, info)
    H = _Hand('arr')
    held = {}
    forms = dict(case['forms'])
    for k in ('a1vect', 'a2vect', 'a1', 'a2', 'E_gsf', 'delta'):
        if k in ('a1', 'a2', 'E_gsf', 'delta') and forms[k] == 'nd:>f8':
            # the data go into a pandas.DataFrame (the documented .data attribute), and pandas documents that it needs
            # native byte order ("Big-endian buffer not supported on little-endian compiler" as soon as rows are selected)
            forms[k] = 'nd:f4'
        if kw1[k] is not None:
            held[k] = H(np.array(kw1[k], dtype=float), k, form=forms[k])
            labels.add('held_' + ('narrow' if G.is_narrow(forms[k]) else forms[k]))
    box = kw1['box']
    V0, o0 = (None, None) if box is None else (np.array(box.vects).copy(), np.array(box.origin).copy())
    if case['via_set']:
        g = am.defect.GammaSurface()
        g.set(held['a1vect'], held['a2vect'], held['a1'], held['a2'], held['E_gsf'], box=box, delta=held.get('delta'))
        labels.add('via_set')
    else:
        g = am.defect.GammaSurface(box=box, **held)
    g2, info2 = build_surface(s2)
    has_delta = info['D'] is not None
    # the caller's query arrays (own references: in-plane positions, plotting coordinates)
    q = np.array(case['q'], dtype=float)
    Q = {'u': q[:, 0].copy(), 'v': q[:, 1].copy()}
    Q['P'] = gsf_ref.frac_to_pos(Q['u'], Q['v'], info['A1'], info['A2'])
    Q['X'], Q['Y'] = gsf_ref.pos_to_xy(Q['P'], info['A1'], info['A2'], None)
    Q0 = {k: t.copy() for k, t in Q.items()}
    icase = {'aslist': False, 'probe': case['order']}
    _interp_checks(g, s, info, icase, labels)
    base = gsf_read(g, Q, has_delta, case['order'])
    ledger = [('first reading', nm, raw, cop) for nm, (raw, cop) in sorted(base.items()) if nm not in GSF_STATE]
    H.verify(' [building and querying the surface]')
    for k, t in Q.items():
        require(np.array_equal(t, Q0[k]), lambda: 'the caller\'s query array %s was changed by the calls' % k)
    same_answers(base, gsf_read(g, Q, has_delta, case['order'] + 1), 'reading the answers a second time, in another order')
    pending = None
    dirty = set()

    def resnap(obj):
        H.kept = [(w_, o_, (o_.copy() if isinstance(o_, np.ndarray) else o_), np.asarray(o_, dtype=float).copy()) if o_ is obj else (w_, o_, sn_, a_)
                  for (w_, o_, sn_, a_) in H.kept]

    def box_state():
        return None if box is None else (np.array(box.vects).copy(), np.array(box.origin).copy())

    for num, op in enumerate(case['ops']):
        kind = op['op']
        what = 'operation %d (%s)' % (num, kind)
        labels.add('op_' + kind)
        snap_box = box_state()
        touched = None               # (restore function, key, sharing test) of a caller-side mutation
        if kind == 'call_same':
            w = np.array(op['q'], dtype=float) + 1.0
            for sm in (bool(op['smooth']), not op['smooth']):
                r = g.E_gsf(a1=w[:, 0], a2=w[:, 1], smooth=sm)
                ledger.append((what, 'E_gsf(a1=, a2=, smooth=%r)' % sm, r, _copy_of(r)))
            Pw = gsf_ref.frac_to_pos(w[:, 0], w[:, 1], info['A1'], info['A2'])
            for nm, r in (('pos_to_a12', g.pos_to_a12(Pw)), ('pos_to_xy', g.pos_to_xy(Pw)), ('E_gsf(pos=)', g.E_gsf(pos=Pw)), ('a12_to_pos', g.a12_to_pos(w[:, 0], w[:, 1]))):
                ledger.append((what, nm, r, _copy_of(r)))
        elif kind == 'call_other':
            w = np.array(op['q'], dtype=float)
            Pw = gsf_ref.frac_to_pos(w[:, 0], w[:, 1], info2['A1'], info2['A2'])
            for nm, r in (('other.E_gsf', g2.E_gsf(a1=w[:, 0], a2=w[:, 1], smooth=bool(op['smooth']))), ('other.pos_to_a12', g2.pos_to_a12(Pw)),
                          ('other.pos_to_xy', g2.pos_to_xy(Pw)), ('other.E_gsf(pos=)', g2.E_gsf(pos=Pw, smooth=bool(op['smooth'])))):
                ledger.append((what, nm, r, _copy_of(r)))
        elif kind == 'build_other':
            if dirty & {'a1', 'a2'}:
                labels.add('op_skipped')
                continue
            # another surface from the arrays / the Box the caller still holds (whatever they contain by now)
            try:
                g3 = am.defect.GammaSurface(box=box, **held)
            except ValueError as e:
                # what the caller's overwritten arrays hold by now need not be a valid pair of shift vectors
                # (a four-index vector with u+v+t != 0, parallel vectors): the documented refusal
                if dirty & {'a1vect', 'a2vect'}:
                    labels.add('op_refused_after_overwrite')
                    continue
                raise
            r = g3.E_gsf(a1=Q['u'], a2=Q['v'])
            ledger.append((what, 'new.E_gsf', r, _copy_of(r)))
            what += ': another surface built from the caller\'s arrays%s' % ('' if box is None else ' and Box')
        elif kind == 'reload_other':
            reload_surface(g2, s, op['route'])
            info2 = dict(info)
            what += ': the data loaded into another object by %s' % op['route']
        elif kind == 'overwrite_in':
            key = op['which'] if op['which'] in held else 'E_gsf'
            obj = held[key]
            old = np.array(obj, dtype=float).copy()
            if key == 'a1vect':
                new = op['f'] * old + 0.5 * np.array(held['a2vect'], dtype=float)
            elif key == 'a2vect':
                new = op['f'] * old + 0.5 * np.array(held['a1vect'], dtype=float)
            elif key in ('a1', 'a2'):
                new = 0.5 * old
            else:
                new = op['f'] * old[::-1]
            if isinstance(obj, np.ndarray) and obj.dtype.kind in 'iu':
                new = np.rint(np.abs(new))
            if not overwrite(obj, new):
                labels.add('op_on_immutable')
                continue
            labels.add('overwrote_' + key)
            dirty.add(key)
            resnap(obj)
            what += ': the caller overwrote, in place, the %s it had handed to the surface as %s' % (key, forms[key])
            if key in ('a1vect', 'a2vect') and isinstance(obj, np.ndarray):
                touched = (lambda obj=obj, old=old, key=key: (overwrite(obj, old), resnap(obj), dirty.discard(key)),
                           K_ALIASV, lambda obj=obj: np.shares_memory(obj, g.a1vect) or np.shares_memory(obj, g.a2vect))
        elif kind == 'box':
            if box is None:
                labels.add('op_without_object')
                continue
            redefine_box(box, op['how'], op['f'], V0)
            labels.add('box_via_' + op['how'])
            what += ': the caller re-defined the Box it had handed to the surface (%s)' % op['how']

            def put_back(sb=snap_box):
                box.vects = sb[0]
                box.origin = sb[1]
            touched = (put_back, K_ALIASBOX, lambda: g.box is box)
        elif kind == 'overwrite_out':
            for nm in sorted(base):
                if nm in GSF_STATE:
                    continue
                for t in _flat(base[nm][0]):
                    if isinstance(t, np.ndarray) and t.flags.writeable and t.ndim and t.size:
                        # (values of the array's own magnitude: should the array be a view of something the surface or the
                        # caller still uses, the numbers stay in a range that GammaSurface can wrap in finite time)
                        t[...] = -0.75 * t[::-1] - 0.25 * float(np.abs(t).max())
            # an array the surface returned must not be a view of an array the caller handed in
            for k, t in Q.items():
                require(np.array_equal(t, Q0[k]), lambda: 'after %s: overwriting the arrays that the surface had RETURNED changed the caller\'s '
                        'query array %s: a returned array is a view of an input' % (what, k))
            base = {nm: (_fresh(v[1]) if nm not in GSF_STATE else v[0], v[1]) for nm, v in base.items()}
            ledger = [(tag, nm, _fresh(cop), cop) if tag == 'first reading' else (tag, nm, raw, cop) for (tag, nm, raw, cop) in ledger]
            what += ': the caller overwrote the arrays the surface had returned'
        elif kind == 'overwrite_query':
            for k, t in Q.items():
                t[...] = op['f'] * t[::-1] + 0.125 * float(np.abs(t).max())
            ledger_intact(ledger, 'after ' + what + ': the caller overwrote the query arrays it had handed to the surface')
            for k, t in Q.items():
                t[...] = Q0[k]
            what += ': the caller overwrote (and put back) its query arrays'
        else:
            raise KeyError(kind)
        # (a) nothing returned so far has changed, (b) no answer has moved, (c) the caller's objects are as the caller left them
        try:
            ledger_intact(ledger, 'after ' + what)
            try:
                now = gsf_read(g, Q, has_delta, case['order'] + 2 + num)
            except (AssertionError, ValueError, np.linalg.LinAlgError) as e:
                raise Violation('after %s: the surface no longer answers for its own in-plane positions / plotting axis: %s(%s)' % (what, type(e).__name__, e))
            same_answers(base, now, 'after ' + what)
        except Violation as e:
            if touched is not None and touched[2]():
                # unchanged tree: the surface keeps the caller's object itself (open finding): reported at the end of the case,
                # the caller's object is put back so that the rest of the history is judged
                pending = pending or Violation(e.detail, key=touched[1])
                touched[0]()
                labels.add('alias_' + ('box' if touched[1] == K_ALIASBOX else 'vect'))
                now = gsf_read(g, Q, has_delta, case['order'] + 2 + num)
                same_answers(base, now, 'after ' + what + ' and after the caller put the object back')
            else:
                raise
        H.verify(' [after %s]' % what)
        if box is not None and kind != 'box':
            nb = box_state()
            require(np.array_equal(nb[0], snap_box[0]) and np.array_equal(nb[1], snap_box[1]), lambda: 'after %s: the caller\'s Box was changed' % what)
        for k, t in Q.items():
            require(np.array_equal(t, Q0[k]), lambda: 'after %s: the caller\'s query array %s was changed' % (what, k))
    # the surface still is the surface it was built as
    _interp_checks(g, s, info, icase, set(), ' [after the history]')
    if dirty:
        labels.add('nt')
    if len(ledger) > len(base):
        labels.add('ledger_grew')
    if pending is not None:
        raise pending
    return labels


# ----------------------------------------------------------------------------- result ledger / caller-side mutation: SDVPN
# The same for an SDVPN object: the arrays x / disregistry / tau / beta the caller handed over (constructor, setters,
# arguments) and the arrays disldensity() handed back are overwritten in place, another SDVPN on the same gamma surface is
# evaluated, re-set and solved; every energy of the first object is read again after every operation and every returned
# array is kept in the ledger.  The first reading is judged as in clause pn_total.

PN_STATE = ('x', 'disregistry', 'tau', 'beta', 'K_tensor', 'burgers', 'transform')


def pn_read(pn, args, stored, seed):
    names = ['misfit', 'elastic', 'longrange', 'stress', 'surface', 'nonlocal', 'total', 'density', 'density_c', 'tau', 'beta', 'K_tensor',
             'burgers', 'transform', 'scalars']
    if stored:
        names += ['x', 'disregistry']
    out = {}
    for i in np.random.default_rng(seed).permutation(len(names)):
        nm = names[int(i)]
        if nm == 'density':
            raw = pn.disldensity(*args)
        elif nm == 'density_c':
            raw = pn.disldensity(*args, cdiff=True)
        elif nm == 'longrange':
            raw = float(pn.longrange_energy())
        elif nm in ('misfit', 'elastic', 'stress', 'surface', 'nonlocal', 'total'):
            raw = float(getattr(pn, nm + '_energy')(*args))
        elif nm == 'scalars':
            raw = np.array([float(t) for t in pn.alpha] + [float(pn.cutofflongrange)] + [float(bool(getattr(pn, f))) for f in G.FLAGS])
        else:
            raw = getattr(pn, nm)
        out[nm] = (raw, _copy_of(raw))
    return out


def oracle_ledger_pn(case):
    import atomman as am
    S = build_pn_system(case['sys'])
    blocked_multi(S)
    st_ = scale_settings(case['set'], S)
    x, d = build_profile(case['prof'], S['b'], S['l'])
    if len(x) <= 2 * len(alphas_of(st_)):
        st_['alpha'] = None
    labels = pn_labels(case, S, d)
    H = _Hand('arr')
    hf = case['held']
    held = {'x': H(x, 'x', form=hf['x']), 'disregistry': H(d, 'disregistry', form=hf['disregistry']),
            'tau': H(st_['tau'], 'tau', form=hf['tau']), 'beta': H(st_['beta'], 'beta', form=hf['beta'])}
    orig = {k: np.array(t, dtype=float).copy() for k, t in held.items()}
    for k in held:
        labels.add('held_' + ('narrow' if G.is_narrow(hf[k]) else hf[k]))

    def resnap(obj):
        H.kept = [(w_, o_, (o_.copy() if isinstance(o_, np.ndarray) else o_), np.asarray(o_, dtype=float).copy()) if o_ is obj else (w_, o_, sn_, a_)
                  for (w_, o_, sn_, a_) in H.kept]

    kw = dict(tau=held['tau'], beta=held['beta'], fullstress=st_['fullstress'], cdiffelastic=st_['cdiffelastic'],
              cdiffsurface=st_['cdiffsurface'], cdiffstress=st_['cdiffstress'])
    if st_['alpha'] is not None:
        kw['alpha'] = st_['alpha']
    if st_['cutoff'] is not None:
        kw['cutofflongrange'] = st_['cutoff']
    pn = am.defect.SDVPN(volterra=S['vol'], gamma=S['gamma'], **kw)
    stored = bool(case['stored'])
    if stored:
        pn.x = held['x']
        pn.disregistry = held['disregistry']
        args = ()
        labels.add('stored')
    else:
        args = (held['x'], held['disregistry'])
    K = np.asarray(pn.K_tensor, dtype=float).copy()
    judge_total(pn, S, K, st_, x, d, args, {}, labels)
    # a second object on the same gamma surface, given the SAME tau / beta arrays
    x2, d2 = build_profile(case['prof2'], S['b'], S['l'])
    pn2 = am.defect.SDVPN(volterra=S['vol'], gamma=S['gamma'], **kw)
    pn2.x = x2.copy()
    pn2.disregistry = d2.copy()
    base = pn_read(pn, args, stored, 7)
    ledger = [('first reading', nm, raw, cop) for nm, (raw, cop) in sorted(base.items()) if nm not in PN_STATE]
    H.verify(' [building and evaluating the object]')
    same_answers(base, pn_read(pn, args, stored, 8), 'reading the energies a second time, in another order')
    pending = None
    last_args = None

    def shares(obj):
        cands = [pn.tau, pn.beta] + ([pn.x, pn.disregistry] if stored else [])
        return isinstance(obj, np.ndarray) and any(np.shares_memory(obj, t) for t in cands)

    for num, op in enumerate(case['ops']):
        kind = op['op']
        what = 'operation %d (%s)' % (num, kind)
        labels.add('op_' + kind)
        restore = None
        if kind == 'eval_same':
            xs, ds = build_profile(op['prof'], S['b'], S['l'])
            last_args = (xs, ds, xs.copy(), ds.copy())
            for nm, r in (('total_energy(x, d)', float(pn.total_energy(xs, ds))), ('disldensity(x, d)', pn.disldensity(xs, ds, cdiff=bool(op['cdiff'])))):
                ledger.append((what, nm, r, _copy_of(r)))
        elif kind == 'eval_other_obj':
            for nm, r in (('other.total_energy()', float(pn2.total_energy())), ('other.disldensity()', pn2.disldensity(cdiff=bool(op['cdiff'])))):
                ledger.append((what, nm, r, _copy_of(r)))
        elif kind == 'solve_other_obj':
            pn2.solve(min_method='Nelder-Mead', min_options={'maxiter': 3})
            r = pn2.disregistry
            ledger.append((what, 'other.disregistry after solve', r, _copy_of(r)))
        elif kind == 'setters_other_obj':
            xs, ds = build_profile(op['prof'], S['b'], S['l'])
            pn2.x, pn2.disregistry = xs, ds
            pn2.tau = op['f'] * np.array(st_['tau'])
            pn2.beta = abs(op['f']) * np.array(st_['beta'])
            pn2.alpha = [0.01 * S['ke'] / S['l']]
            pn2.cutofflongrange = 77.0 * S['l']
            for f in G.FLAGS:
                setattr(pn2, f, not getattr(pn2, f))
        elif kind == 'overwrite_in':
            key = op['which']
            obj = held[key]
            old = np.array(obj, dtype=float).copy()
            new = (abs(op['f']) * old + S['l']) if key == 'x' else op['f'] * old[::-1]
            if key in ('tau', 'beta'):
                new = op['f'] * old.T[::-1] + 0.001 * S['ke'] * (S['l'] if key == 'beta' else 1.0)
                new = 0.5 * (new + new.T)
            if key == 'disregistry':
                new[:, 1] = 0.0
            if not overwrite(obj, new):
                labels.add('op_on_immutable')
                continue
            resnap(obj)
            labels.add('overwrote_' + key)
            what += ': the caller overwrote, in place, the %s it had handed to the object as %s (%s)' % (
                key, hf[key], 'through the setter' if (stored or key in ('tau', 'beta')) else 'as an argument')

            def restore(obj=obj, old=old):
                overwrite(obj, old)
                resnap(obj)
            if not (stored or key in ('tau', 'beta')):
                # an argument of the energy methods: the caller puts the values back before it asks again (what was
                # returned for them must not have followed)
                ledger_bad = None
                try:
                    ledger_intact(ledger, 'after ' + what)
                except Violation as e:
                    ledger_bad = e
                restore()
                if ledger_bad is not None:
                    if _tree_pnshare_broken():
                        pending = pending or Violation(ledger_bad.detail, key=K_PNSHARE)
                        ledger = [(tag, nm, raw, _copy_of(raw)) for (tag, nm, raw, cop) in ledger]
                        labels.add('alias_view')
                    else:
                        raise ledger_bad
                restore = None
        elif kind == 'overwrite_out':
            for nm in ('density', 'density_c'):
                for t in _flat(base[nm][0]):
                    if isinstance(t, np.ndarray) and t.flags.writeable:
                        t[...] = t * 0.5 - 3.25 * S['l']
            keep_x = None if not stored else np.array(pn.x).copy()
            base = {nm: ((_fresh(v[1]) if nm in ('density', 'density_c') else v[0]), v[1]) for nm, v in base.items()}
            ledger = [(tag, nm, _fresh(cop), cop) if (tag == 'first reading' and nm in ('density', 'density_c')) else (tag, nm, raw, cop) for (tag, nm, raw, cop) in ledger]
            what += ': the caller overwrote the arrays disldensity() had returned'

            def restore():
                # (only needed while newx is a view of the stored / the caller's x)
                overwrite(held['x'], orig['x'])
                if stored and not np.array_equal(pn.x, orig['x']):
                    pn.x = held['x']
                resnap(held['x'])
        elif kind == 'overwrite_args':
            if last_args is None:
                labels.add('op_skipped')
                continue
            xs, ds, xs0, ds0 = last_args
            xs[...] = 2.0 * xs + S['l']
            ds[...] = -ds
            what += ': the caller overwrote the x / disregistry arrays it had given as arguments of an earlier evaluation'
            last_args = None
        else:
            raise KeyError(kind)
        try:
            ledger_intact(ledger, 'after ' + what)
            same_answers(base, pn_read(pn, args, stored, 9 + num), 'after ' + what)
            H.verify(' [after %s]' % what)
        except (Violation, AssertionError) as e:
            if isinstance(e, AssertionError):
                e = Violation('after %s: AssertionError(%s)' % (what, e))
            if kind in ('overwrite_in', 'overwrite_out', 'overwrite_args') and _tree_pnshare_broken():
                # unchanged tree: the object keeps the caller's arrays / hands out views of them (open finding): reported at
                # the end of the case; the caller's arrays are put back so that the rest of the history is judged
                pending = pending or Violation(e.detail, key=K_PNSHARE)
                if restore is not None:
                    restore()
                ledger = [(tag, nm, raw, _copy_of(raw)) for (tag, nm, raw, cop) in ledger]
                labels.add('alias_' + kind)
                same_answers(base, pn_read(pn, args, stored, 9 + num), 'after ' + what + ' and after the caller put its arrays back')
            else:
                raise e
    x_now = np.asarray(held['x'], dtype=float) if not stored else np.asarray(pn.x, dtype=float)
    if np.array_equal(x_now, x):
        judge_total(pn, S, K, st_, x, d, args if (stored or np.array_equal(np.asarray(held['disregistry'], dtype=float), d)) else (x, d), {}, set())
        labels.add('judged_after')
    labels.add('nt')
    if pending is not None:
        raise pending
    return labels


def _tree_pnshare_broken():
    """probe of the tree under test for the open finding K_PNSHARE (cached per process)"""
    if 'pnshare' not in _PROBE:
        try:
            import atomman as am
            g = am.defect.GammaSurface(a1vect=[1, 0, 0], a2vect=[0, 0, 1], a1=[0.0, 0.0, 0.5, 0.5], a2=[0.0, 0.5, 0.0, 0.5],
                                       E_gsf=[0.0, 1.0, 1.0, 2.0])
            vol = _hand_volterra_class(am)(np.array([1.0, 0, 0]), np.array([0, 1.0, 0]), np.eye(3), np.array([1.0, 0, 0]), np.eye(3))
            t, b = np.zeros((3, 3)), np.eye(3)
            pn = am.defect.SDVPN(volterra=vol, gamma=g, tau=t, beta=b)
            xs, ds = np.arange(5.0), np.zeros((5, 3))
            pn.x, pn.disregistry = xs, ds
            nx = pn.disldensity()[0]
            _PROBE['pnshare'] = any(np.shares_memory(a, c) for a, c in ((pn.x, xs), (pn.disregistry, ds), (pn.tau, t), (pn.beta, b), (nx, pn.x)))
        except Exception:
            _PROBE['pnshare'] = True
    return _PROBE['pnshare']


# ----------------------------------------------------------------------------- pn_options (enumerated)
_OPT_SYS = [
    {'sys': {'frame': ['x', 'y'], 'rotf': None, 'T': None, 'K': {'kind': 'hand', 'eig': [0.5, 0.8, 0.3], 'rot': [[1.0, 2.0, 0.5], 40.0]}, 'b': 2.5, 'phi': 30.0,
             'gamma': {'a1len': 2.5, 'a1ang': 30.0, 'a2len': 4.0, 'a2rel': 75.0, 'n1': 5, 'n2': 4, 'dup': False, 'Eseed': 11, 'scale': 0.05}, 'lk': 0, 'ej': 0},
     'N': 9, 'kstep': 5},
    {'sys': {'frame': ['z', 'x'], 'rotf': None, 'T': [[0.0, 1.0, 1.0], 25.0], 'K': {'kind': 'hand', 'eig': [0.3, 0.4, 0.9], 'rot': [[1.0, 0.0, 0.5], 70.0]}, 'b': 3.2, 'phi': -60.0,
             'gamma': {'a1len': 3.2, 'a1ang': -60.0, 'a2len': 2.0, 'a2rel': 90.0, 'n1': 4, 'n2': 6, 'dup': True, 'Eseed': 5, 'scale': 0.1}, 'lk': -10, 'ej': 3},
     'N': 12, 'kstep': 8},
    {'sys': {'frame': ['vec', 'vec'], 'rotf': {'sperm': 7}, 'T': {'sperm': 13}, 'K': {'kind': 'hand', 'eig': [0.6, 0.2, 0.7], 'rot': None}, 'b': 2.0, 'phi': 90.0,
             'gamma': {'a1len': 3.0, 'a1ang': 10.0, 'a2len': 2.5, 'a2rel': 60.0, 'n1': 6, 'n2': 5, 'dup': False, 'Eseed': 23, 'scale': 0.02}, 'lk': 2, 'ej': -4},
     'N': 8, 'kstep': 4},
    {'sys': {'frame': ['y', 'z'], 'rotf': None, 'T': None, 'K': {'kind': 'hand', 'eig': [1.1, 0.9, 0.5], 'rot': [[0.3, 1.0, 0.2], 110.0]}, 'b': 3.9, 'phi': 135.0,
             'gamma': {'a1len': 3.9, 'a1ang': 135.0, 'a2len': 5.0, 'a2rel': 110.0, 'n1': 7, 'n2': 4, 'dup': True, 'Eseed': 3, 'scale': 0.05}, 'lk': 0, 'ej': 0},
     'N': 10, 'kstep': 6},
]
_OPT_SET = {'tau': [[0.0, 0.013, 0.0], [0.013, -0.007, 0.011], [0.0, 0.011, 0.0]], 'alpha': [0.02, 0.011],
            'beta': [[0.11, 0.02, 0.0], [0.02, 0.05, -0.03], [0.0, -0.03, 0.21]], 'cutoff': 320.0, 'tbform': 'arr'}
_OPT_PROF = {'x0': 1.75, 'w': 0.9, 'center': 0.3, 'pert': [[0.12, 2], [-0.2, 3]], 'ramp': [0.05, -0.1], 'fx': 'arr', 'fd': 'arr', 'xint': None, 'round': False}
_OPT_CACHE = {}


def _option_system(k):
    if k not in _OPT_CACHE:
        o = _OPT_SYS[k % len(_OPT_SYS)]
        S = build_pn_system(o['sys'])
        x, d = build_profile(dict(_OPT_PROF, N=o['N'], kstep=o['kstep']), S['b'], S['l'])
        _OPT_CACHE[k] = (S, x, d)
    return _OPT_CACHE[k]


def oracle_pn_options(case):
    """one way of reaching one combination of the flags fullstress / cdiffelastic / cdiffsurface / cdiffstress (see
    gens_c18.option_cases): after every single change of a flag all terms and the total are judged as in pn_terms / pn_total"""
    S, x, d = _option_system(case['sys'])
    blocked_multi(S)
    base = scale_settings(_OPT_SET, S)
    st_ = dict(base, **{f: bool(t) for f, t in zip(G.FLAGS, case['start'])})
    pn = make_sdvpn(S, st_)
    K = np.asarray(pn.K_tensor, dtype=float)
    labels = {'via_' + case['via'], 'nchanged_%d' % len(case['order']), 'sys_%d' % case['sys'], 'nt'}

    def judge(tag):
        # the flags first, then the total (the object exactly as the setters left it), then every term (judge_terms switches
        # the stress flags itself, and back)
        for f in G.FLAGS:
            require(getattr(pn, f) is st_[f], lambda: 'flag %s reads %r, the combination set is %s%s'
                    % (f, getattr(pn, f), ', '.join('%s=%r' % (t, st_[t]) for t in G.FLAGS), tag))
        try:
            judge_total(pn, S, K, st_, x, d, (x, d), {}, set())
            judge_terms(pn, S, K, st_, x, d, (x, d), {}, set())
        except Violation as e:
            raise Violation('%s [flags %s%s]' % (e.detail, ', '.join('%s=%r' % (f, st_[f]) for f in G.FLAGS), tag), key=e.key)
        for f in G.FLAGS:
            require(getattr(pn, f) is st_[f], lambda: 'flag %s reads %r after the energy evaluations, the combination set is %s%s'
                    % (f, getattr(pn, f), ', '.join('%s=%r' % (t, st_[t]) for t in G.FLAGS), tag))

    judge(' given to the constructor')
    if case['via'] == 'setters':
        for num, i in enumerate(case['order']):
            f = G.FLAGS[i]
            setattr(pn, f, bool(case['target'][i]))
            st_[f] = bool(case['target'][i])
            judge(' [after setting %s; setter sequence %s from the constructor\'s %s]' % (
                f, [G.FLAGS[j] for j in case['order'][:num + 1]], dict(zip(G.FLAGS, case['start']))))
    elif case['via'] == 'solve_kw':
        kw = {G.FLAGS[i]: bool(case['target'][i]) for i in case['order']}
        pn.solve(x=x, disregistry=d, min_method='Nelder-Mead', min_options={'maxiter': 2}, **kw)
        st_.update(kw)
        d1 = np.asarray(pn.disregistry, dtype=float)
        _total_in_band(pn, S, st_, x, d1, K, (), {}, 'total_energy() of the stored solution after solve(%s)' % ', '.join('%s=%r' % kv for kv in sorted(kw.items())))
        judge(' [after solve(%s) on an object built with %s]' % (', '.join('%s=%r' % kv for kv in sorted(kw.items())), dict(zip(G.FLAGS, case['start']))))
    return labels


# ----------------------------------------------------------------------------- strategies with the int-typed share

from hypothesis import strategies as st       # noqa: E402


@st.composite
def _periodic_cases(draw):
    c = draw(G.periodic_cases())
    c['ints'] = draw(st.integers(0, 7)) == 0
    return c


def oracle_coords_dtypes(case):
    """storage dtypes: the case is judged by both conversion oracles (coords, coords_multi)"""
    return set(oracle_coords(case)) | set(oracle_coords_multi(case))


def oracle_pn_dtypes(case):
    """storage dtypes: the case is judged by both energy oracles (pn_terms, pn_total)"""
    return set(oracle_pn_terms(case)) | set(oracle_pn_total(case))


import functools                               # noqa: E402

CLAUSES = [
    # min_share values are about half of the share observed on the unchanged /repo, where the cases that hit an open
    # finding are excluded without labels (they still count in the denominator)
    Clause('interp', oracle_interp, G.interp_cases, quick=780, thorough=16000,
           min_share={'nt': 0.44, 'oblique': 0.31, 'dup_edge': 0.23, 'delta': 0.19, 'kind_random': 0.18, 'list': 0.2,
                      'history': 0.19, 'history_reload_set': 0.1, 'history_reload_model': 0.1, 'history_back': 0.08,
                      'lscale_1': 0.2, 'lscale_small': 0.19, 'lscale<=1e-5': 0.13, 'lscale_big': 0.036,
                      'escale_1': 0.2, 'escale_small': 0.14, 'escale_big': 0.11, 'scaled_both': 0.15},
           desc='E_gsf/delta reproduce every input value at its sampled (a1,a2), smooth and nearest modes, arrays/lists/floats'),
    Clause('periodic', oracle_periodic, _periodic_cases, quick=780, thorough=16000,
           min_share={'special_q': 0.08, 'nt': 0.35, 'oblique': 0.28, 'shifted': 0.35, 'scalar': 0.18, 'history_mode_order': 0.2, 'history_mode_back': 0.1,
                      'lscale_1': 0.2, 'lscale_small': 0.15, 'lscale_big': 0.036, 'escale_1': 0.21, 'escale_small': 0.1, 'escale_big': 0.11},
           desc='E(a1+k1, a2+k2) = E(a1, a2) for integer periods; nearest mode equals the exact nearest-sample table'),
    Clause('coords', with_units(keyed_f16(keyed_inplane_assert(oracle_coords))), G.coords_cases, quick=1020, thorough=20000,
           # (new classes: only labels with a large share are guarded, at a third of the lowest share seen - the shares of
           # Hypothesis-generated classes vary by a factor of 2-8 between seeds and between complete and wall-limited runs)
           min_share={'special_q': 0.08, 'near_plane_pos': 0.15, 'near_plane_xvect': 0.05, 'units': 0.05,
                      'nt': 0.44, 'oblique': 0.36, 'npts3': 0.15, 'xvect': 0.18, 'scalar': 0.18,
                      'history': 0.25, 'history_reload_set': 0.08, 'history_reload_model': 0.08, 'history_swap': 0.08, 'history_other_mode': 0.04,
                      'form_ro': 0.054, 'form_strided': 0.05, 'form_tuple': 0.04, 'form_npscalar': 0.04, 'form_int': 0.045, 'int_typed': 0.04,
                      'lscale_1': 0.22, 'lscale_small': 0.15, 'lscale<=1e-5': 0.1, 'lscale_big': 0.054,
                      'escale_small': 0.1, 'escale_big': 0.09},
           desc='a12_to_pos, pos_to_xy, xy_to_pos, a12_to_xy, pos_to_a12(single) against independent basis algebra; mutual inverses'),
    Clause('coords_multi', with_units(keyed_f16(keyed_inplane_assert(oracle_coords_multi))), G.coords_cases, quick=1020, thorough=20000,
           min_share=_BlockedGuard({'special_q': 0.08, 'near_plane_pos': 0.15, 'near_plane_xvect': 0.05, 'units': 0.05, 'nt': 0.3, 'oblique': 0.25, 'npts3': 0.1, 'npts7': 0.06, 'altvect': 0.18, 'smooth': 0.15, 'nearest': 0.2,
                                    'history': 0.25, 'history_reload_set': 0.1, 'history_reload_model': 0.08, 'history_swap': 0.1,
                                    'history_other_mode': 0.05,
                                    'combo_both_xdefault': 0.18, 'combo_both_xexplicit': 0.18, 'combo_a1only_xdefault': 0.18,
                                    'combo_a1only_xexplicit': 0.18, 'combo_a2only_xdefault': 0.18, 'combo_a2only_xexplicit': 0.18,
                                    'altvect_int': 0.04, 'form_ro': 0.05, 'form_strided': 0.045, 'form_tuple': 0.045,
                                    'form_npscalar': 0.04, 'form_int': 0.03, 'int_typed': 0.03,
                                    'lscale_1': 0.24, 'lscale_small': 0.14, 'lscale<=1e-5': 0.09, 'lscale_big': 0.055,
                                    'escale_small': 0.11, 'escale_big': 0.11},
                                   # while K_ALT is open nearly every case with alternative vectors is excluded
                                   drop_alt=('altvect', 'altvect_int', 'combo_both_xdefault', 'combo_both_xexplicit', 'combo_a1only_xdefault',
                                             'combo_a1only_xexplicit', 'combo_a2only_xdefault', 'combo_a2only_xexplicit')),
           desc='pos_to_a12 / xy_to_a12 on 1,2,3,7 positions; E_gsf and delta given a1/a2, pos, x/y agree; every combination of the '
                'keywords a1vect / a2vect / xvect of all conversion methods and of E_gsf / delta; input forms; caller\'s arrays unchanged'),
    Clause('coords_dtypes', keyed_f16(keyed_inplane_assert(oracle_coords_dtypes)), functools.partial(G.coords_cases, True), quick=260, thorough=5000,
           min_share=_BlockedGuard({'nt': 0.44, 'narrow': 0.5, 'form_narrow': 0.5, 'history': 0.15, 'altvect': 0.12},
                                   drop_alt=('altvect',)),
           desc='storage and input dtypes of the conversions and of E_gsf / delta: float32, float16, int8, int16, uint8, uint16, big-endian, Fortran / '
                'reversed-stride arrays and numpy scalars holding exactly representable values (eighths, whole coordinates up to the dtype limits, '
                'dyadic shift vectors), judged by the oracles of coords and coords_multi'),
    Clause('model', with_units(oracle_model), G.model_cases, quick=350, thorough=6000,
           min_share={'units': 0.05, 'nt': 0.3, 'json': 0.26, 'history_load_into_existing': 0.19,
                      'lscale_1': 0.2, 'lscale_small': 0.19, 'lscale_big': 0.036, 'escale_1': 0.21, 'escale_small': 0.1, 'escale_big': 0.09},
           desc='model() -> JSON/XML text, DataModelDict or file -> GammaSurface: same data, vectors, box, answers'),
    Clause('pn_terms', with_units(keyed_dtype(oracle_pn_terms)), G.pn_hist_cases, quick=1280, thorough=25000,
           min_share=_BlockedGuard({'frame_signed_axes': 0.08, 'near_inplane_dy': 0.08, 'units': 0.04, 'nt': 0.16, 'mixed': 0.23, 'K_offdiag': 0.13, 'N>120': 0.1, 'cdiffelastic': 0.15, 'tau': 0.15,
                                    'history': 0.19, 'history_same_len_new_spacing': 0.067, 'history_setter_between': 0.14,
                                    'history_settings_changed': 0.092, 'history_new_len': 0.044, 'history_steps>=2': 0.14,
                                    'forms': 0.35, 'history_forms': 0.18, 'int_typed': 0.18, 'xform_int': 0.096, 'dform_int': 0.07,
                                    'dform_ro': 0.03, 'xform_ro': 0.025, 'dform_strided': 0.035, 'xform_tuple': 0.03, 'list_args': 0.035,
                                    'lscale_1': 0.2, 'lscale_small': 0.14, 'lscale<=1e-5': 0.1, 'lscale_big': 0.1,
                                    'escale_1': 0.2, 'escale_small': 0.11, 'escale_big': 0.13, 'scaled_both': 0.15},
                                   drop_listarg=('list_args',)),
           desc='disldensity, elastic, long-range, stress (both forms), surface, nonlocal vs independent formula evaluation; quadratic form, rigid shift; '
                'repeated evaluations on one object (arguments / setters / changed settings)'),
    Clause('pn_total', with_units(keyed_dtype(keyed_inplane_assert(oracle_pn_total))), G.pn_hist_cases, quick=850, thorough=16000,
           min_share=_BlockedGuard({'frame_signed_axes': 0.08, 'near_inplane_dy': 0.08, 'units': 0.03, 'nt': 0.15, 'mixed': 0.23, 'wraps': 0.1, 'crystal_rot': 0.15,
                                    'history': 0.17, 'history_same_len_new_spacing': 0.09, 'history_setter_between': 0.12,
                                    'history_settings_changed': 0.06, 'history_new_len': 0.035,
                                    'forms': 0.35, 'history_forms': 0.18, 'int_typed': 0.18, 'xform_int': 0.096, 'dform_int': 0.07,
                                    'dform_ro': 0.03, 'xform_ro': 0.03, 'list_args': 0.035,
                                    'lscale_1': 0.2, 'lscale_small': 0.14, 'lscale<=1e-5': 0.1, 'lscale_big': 0.1,
                                    'escale_1': 0.2, 'escale_small': 0.12, 'escale_big': 0.12, 'scaled_both': 0.15},
                                   drop_listarg=('list_args',)),
           desc='misfit energy vs dx*sum gamma(delta) by independent conversion; total = sum of the six terms = independent evaluation; '
                'repeated evaluations on one object'),
    Clause('pn_dtypes', keyed_dtype(keyed_inplane_assert(oracle_pn_dtypes)), functools.partial(G.pn_hist_cases, True), quick=260, thorough=5000,
           min_share=_BlockedGuard({'forms_narrow': 0.4, 'narrow': 0.3, 'history': 0.12, 'nt': 0.12}),
           desc='storage dtypes of x / the disregistry (arguments, setters, histories): float32, float16, int8, int16, uint8, uint16, big-endian, '
                'Fortran / reversed-stride arrays holding whole numbers, judged by the oracles of pn_terms and pn_total'),
    Clause('solve', keyed_dtype(keyed_inplane_assert(oracle_solve)), G.solve_cases, quick=64, thorough=640, max_share={'timeout_skipped': 0.2},
           min_share=_BlockedGuard({'moved': 0.5, 'lowered': 0.4, 'history': 0.28, 'history_same_len_new_spacing': 0.05,
                                    'history_eval_between_store_and_solve': 0.07,
                                    'forms': 0.4, 'int_typed': 0.18, 'dform_int': 0.08, 'dform_ro': 0.03,
                                    'lscale_1': 0.2, 'lscale_small': 0.05, 'lscale_big': 0.04, 'escale_small': 0.08, 'escale_big': 0.08}),
           desc='solve never raises the (independently evaluated) total energy, end rows/x/out-of-plane component unchanged; initial guess '
                'and x as float / integer-typed / read-only / non-contiguous arrays, lists, tuples: caller\'s arrays unchanged, stored '
                'solution = the minimiser\'s result'),
    Clause('halfwidth', oracle_halfwidth, G.halfwidth_cases, quick=32, thorough=320,
           min_share=_BlockedGuard({'scaled': 0.3, 'lscale_small': 0.12, 'lscale_1': 0.2}),
           desc='sinusoidal misfit law: arctangent profile of lowest total energy has the classical half-width K b^2/(4 pi^2 gamma0)'),
    Clause('decades', oracle_decades, G.decades_cases, quick=300, thorough=6000, min_share={'nt': 0.44, 'decades>=8': 0.45, 'oblique': 0.2},
           desc='one query array whose rows span 8-11 orders of magnitude: every conversion row by row relative to the magnitude of the row and '
                'equal to the call with that row alone; E_gsf / delta of the array equal every row alone'),
    Clause('ledger', oracle_ledger, G.ledger_cases, quick=300, thorough=6000,
           # (shares over the cases that do not meet an open finding: on the unchanged tree about half of the cases do)
           min_share={'op_call_same': 0.1, 'op_overwrite_in': 0.1, 'op_overwrite_out': 0.06, 'op_overwrite_query': 0.06, 'ledger_grew': 0.15, 'held_arr': 0.3},
           desc='result ledger and caller-side mutation for GammaSurface: everything returned is kept and re-judged bit for bit, every answer is read '
                'again, after later calls on this and another surface and after the caller overwrote / re-defined / re-used what it handed in and got back'),
    Clause('ledger_pn', keyed_inplane_assert(oracle_ledger_pn), G.ledger_pn_cases, quick=200, thorough=4000,
           min_share=_BlockedGuard({'op_eval_same': 0.08, 'op_eval_other_obj': 0.08, 'op_solve_other_obj': 0.06, 'held_arr': 0.3}),
           desc='the same for SDVPN: x / disregistry / tau / beta overwritten by the caller, arrays returned by disldensity overwritten, another '
                'object on the same gamma surface evaluated, re-set and solved'),
    Clause('pn_options', oracle_pn_options, enumerate=G.option_cases,
           desc='every combination of fullstress / cdiffelastic / cdiffsurface / cdiffstress reached from every other one through the setters in every '
                'order, through the constructor and through solve() keywords; all terms judged after every single change'),
    Clause('arctan', with_units(oracle_arctan), G.arctan_cases, quick=1400, thorough=25000, min_share={'near_xmax': 0.04, 'units': 0.06, 'nt': 0.5, 'normalize': 0.2, 'derivative': 0.12, 'lscale_1': 0.2, 'lscale_small': 0.19, 'lscale<=1e-5': 0.13, 'lscale_big': 0.054},
           desc='pn_arctan_disregistry / pn_arctan_disldensity against the analytic forms, normalisation, x generation'),
]
